//! feos verification harness: property-based testing / fuzzing machinery for C01..C20.
#![allow(clippy::type_complexity, clippy::too_many_arguments)]
pub mod engine;
pub mod fuzz;
pub mod model;
pub mod oracle;
pub mod props;
pub mod scales;
