//! C03 — a constructed state reproduces its specification, or construction fails.
//!
//! Parts
//! * `gs-lattice`   seed-independent: every record of the Gross-Sadowski PC-SAFT collections x
//!                  20 T/Tc x 30 p/pc x 3 phase hints: construction must succeed, meet the pressure,
//!                  and the un-hinted result must be the lower-Gibbs one of the two hinted results.
//! * `gs-box`       sampled points of the same box, full root oracle (independent p(rho) scan).
//! * `tp`           sampled T-p constructions over the whole model zoo, every
//!                  `DensityInitialization`, full root oracle; `Err` is allowed.
//! * `echo-lattice` all 2^10 presence masks of the optional builder inputs x caloric kind x value
//!                  draws x single invalid-value injections, for a pure and a binary model.
//! * `echo`         sampled presence masks (12 bits), perturbed values, multiple injections.
//! * `iter`         (p,h) (p,s) (T,h) (T,s) (V,u) targets from reachable single-phase states.
//!
//! All `check_*` functions are pure functions of a serialisable case.
use crate::engine::{Ctx, Gen, Obs, PanicPolicy, PartCfg};
use crate::model::*;
use crate::scales::{contrib_abs, PD};
use feos::core::Derivative::DV;
use feos::core::{
    Components, Contributions, DensityInitialization, EosError, EosResult, ReferenceSystem, Residual,
    State, StateBuilder,
};
use ndarray::Array1;
use quantity::*;
use serde::{Deserialize, Serialize};
use serde_json::{json, Value};
use std::collections::{BTreeMap, HashMap};
use std::panic::{catch_unwind, AssertUnwindSafe};
use std::sync::{Arc, LazyLock, Mutex};

use Contributions::Total as TOT;

// ---------------------------------------------------------------------------------------
// Tolerances (reduced units: energies in K, lengths in Angstrom, amounts in particles)
// ---------------------------------------------------------------------------------------
/// |p(state) - p| <= RTOL_P |p| + ATOL_P + ROUND_P (rho T + sum_c |p_c|).
/// `density_iteration` stops at |p - p*| < max(1e-12, 1e-14 rho) (reduced) *before* applying the
/// last Newton step: ATOL_P is 100 x that absolute tolerance, RTOL_P covers callers that think
/// in relative terms, ROUND_P covers pure roundoff of the cancelling pressure terms.
const RTOL_P: f64 = 1e-7;
const ATOL_P: f64 = 1e-10;
const ROUND_P: f64 = 1e-12;
/// derived (not directly stored) echoed inputs: a handful of multiplications/divisions
const RTOL_ECHO: f64 = 5e-14;
/// Newton wrappers stop at |dx| <= atol + 1e-10 |x| and return the state of the *previous*
/// iterate, so |f| <= |df/dx| (atol + 1e-10 |x|) exactly; factor 100 on top.
const NEWTON_FACTOR: f64 = 100.0;
const NEWTON_RTOL: f64 = 1e-10;
const NEWTON_ATOL_T: f64 = 1e-8;
const NEWTON_ATOL_RHO: f64 = 1e-12;
/// roundoff floor of the caloric comparisons relative to (|value| + T)
const ROUND_CAL: f64 = 1e-12;
/// two roots whose molar Gibbs energies differ by less than this (x T) are a tie
const TIE_G: f64 = 1e-9;

// ---------------------------------------------------------------------------------------
// worst observed ratio |difference| / tolerance per comparison kind (for calibration; written to
// the evidence, never consulted by a verdict)
// ---------------------------------------------------------------------------------------
static WORST: LazyLock<Mutex<BTreeMap<String, (f64, String)>>> = LazyLock::new(|| Mutex::new(BTreeMap::new()));

fn track(key: &str, ratio: f64, what: impl FnOnce() -> String) {
    if !ratio.is_finite() {
        return;
    }
    let mut w = WORST.lock().unwrap();
    match w.get_mut(key) {
        Some(e) => {
            if ratio > e.0 {
                *e = (ratio, what());
            }
        }
        None => {
            w.insert(key.to_string(), (ratio, what()));
        }
    }
}

/// comparison |u - v| <= tol with tracking of the worst ratio
fn within(obs: &mut Obs, key: &str, what: &str, u: f64, v: f64, tol: f64) -> bool {
    obs.count();
    let d = (u - v).abs();
    track(key, d / tol, || format!("{what}: {u:e} vs {v:e} tol {tol:e}"));
    if !(d <= tol) {
        obs.fail(format!("{what}: {u:e} vs {v:e} (diff {d:e} > tol {tol:e})"));
        return false;
    }
    true
}

fn err_label(e: &EosError) -> &'static str {
    match e {
        EosError::Error(_) => "Error",
        EosError::NotConverged(_) => "NotConverged",
        EosError::IterationFailed(_) => "IterationFailed",
        EosError::TrivialSolution => "TrivialSolution",
        EosError::IncompatibleComponents(_, _) => "IncompatibleComponents",
        EosError::InvalidState(_, _, _) => "InvalidState",
        EosError::UndeterminedState(_) => "UndeterminedState",
        EosError::SuperCritical => "SuperCritical",
        EosError::NoPhaseSplit => "NoPhaseSplit",
        EosError::WrongUnits(_, _) => "WrongUnits",
        _ => "other",
    }
}

// ---------------------------------------------------------------------------------------
// Critical point scale (T_c, p_c) of pure component i, cached (lookup only, never iterated)
// ---------------------------------------------------------------------------------------
static CRIT: LazyLock<Mutex<HashMap<String, Option<[f64; 3]>>>> = LazyLock::new(|| Mutex::new(HashMap::new()));

/// (T_c [K], p_c [reduced], rho_c [reduced]) of pure component i from the model's own critical point.
fn crit(spec: &ModelSpec, model: &Arc<Model>, i: usize) -> Option<[f64; 3]> {
    match spec.family {
        Family::PengRobinson => {
            let mr = &spec.pure[i]["model_record"];
            let tc = mr["tc"].as_f64()?;
            let pc = (mr["pc"].as_f64()? * PASCAL).to_reduced();
            return Some([tc, pc, f64::NAN]);
        }
        Family::FmtFunctional => return None,
        _ => {}
    }
    if spec.pure[i]["model_record"]["z"].as_f64().unwrap_or(0.0) != 0.0 {
        return None;
    }
    let key = format!("{:?}|{}|{:?}|{:?}", spec.family, spec.pure[i], spec.seg, spec.opts);
    if let Some(c) = CRIT.lock().unwrap().get(&key) {
        return *c;
    }
    let sub = Arc::new(model.subset(&[i]));
    // model::pure_tc has already solved (and cached) the critical temperature: start from it
    let t_init = Temperature::from_reduced(pure_tc(spec, model, i));
    let r = catch_unwind(AssertUnwindSafe(|| {
        State::critical_point(&sub, None, Some(t_init), Default::default())
            .or_else(|_| State::critical_point(&sub, None, None, Default::default()))
    }));
    let c = match r {
        Ok(Ok(cp)) => {
            let t = cp.temperature.to_reduced();
            let p = cp.pressure(TOT).to_reduced();
            let rho = cp.density.to_reduced();
            if t.is_finite() && t > 1.0 && p.is_finite() && p > 0.0 && rho.is_finite() && rho > 0.0 {
                Some([t, p, rho])
            } else {
                None
            }
        }
        _ => None,
    };
    CRIT.lock().unwrap().insert(key, c);
    c
}

/// Temperature and pressure scales of a mixture: mole-fraction averages of the pure critical
/// values; `exact` iff every pure critical point converged (and the model is a pure substance).
fn tp_scales(spec: &ModelSpec, model: &Arc<Model>, x: &[f64], rho_max: f64) -> (f64, f64, bool) {
    let mut exact = spec.n() == 1;
    let ts = t_scale(spec, model, x);
    let mut t = 0.0;
    let mut p = 0.0;
    for i in 0..spec.n() {
        match crit(spec, model, i) {
            Some([tc, pc, _]) => {
                // model::pure_tc floors the critical temperature with the non-associating estimate
                // 1.3 eps/k (1 + 0.1 (m-1)) against spurious low-temperature solutions; a converged
                // critical point more than 20 % below that floor is not trusted as a scale
                let tci = pure_tc(spec, model, i);
                if tc < 0.8 * tci && spec.family != Family::PengRobinson {
                    exact = false;
                    t += x[i] * tci;
                    p += x[i] * 0.07 * rho_max * tci;
                } else {
                    t += x[i] * tc;
                    p += x[i] * pc;
                }
            }
            None => {
                exact = false;
                t += x[i] * pure_tc(spec, model, i);
                p += x[i] * 0.07 * rho_max * ts;
            }
        }
    }
    (t, p, exact)
}

fn ions(spec: &ModelSpec) -> bool {
    spec.family == Family::EPcSaft && spec.source.starts_with("shipped")
}

// ---------------------------------------------------------------------------------------
// Shared oracles on a returned state
// ---------------------------------------------------------------------------------------
/// redundant fields of a state are mutually consistent and T, V, N are finite and not negative
fn check_consistency<E: Residual>(obs: &mut Obs, st: &State<E>) {
    let t = st.temperature.to_reduced();
    let v = st.volume.to_reduced();
    let n = st.moles.to_reduced();
    let nt = st.total_moles.to_reduced();
    obs.ensure(t.is_finite() && !(t < 0.0), || format!("returned state has temperature {t:e}"));
    obs.ensure(v.is_finite() && !(v < 0.0), || format!("returned state has volume {v:e}"));
    obs.ensure(n.iter().all(|m| m.is_finite() && !(*m < 0.0)), || format!("returned state has moles {n:?}"));
    obs.ensure(n.len() == st.eos.components(), || {
        format!("returned state has {} mole numbers for {} components", n.len(), st.eos.components())
    });
    if !(t > 0.0 && v > 0.0 && nt > 0.0 && t.is_finite() && v.is_finite() && nt.is_finite()) {
        return; // zero values: the property is silent
    }
    let rho = st.density.to_reduced();
    within(obs, "consistency", "total_moles == sum moles", nt, n.sum(), RTOL_ECHO * nt);
    within(obs, "consistency", "density == total_moles/volume", rho, nt / v, RTOL_ECHO * rho.abs());
    let pd = st.partial_density.to_reduced();
    obs.ensure(pd.len() == n.len() && st.molefracs.len() == n.len(), || "array lengths differ".to_string());
    if pd.len() == n.len() && st.molefracs.len() == n.len() {
        for i in 0..n.len() {
            within(obs, "consistency", "partial_density == moles/volume", pd[i], n[i] / v, RTOL_ECHO * rho.abs());
            within(obs, "consistency", "molefracs == moles/total_moles", st.molefracs[i], n[i] / nt, RTOL_ECHO);
        }
    }
}

/// tolerance of the pressure specification for the returned state
fn p_tol<E: Residual>(st: &State<E>, p: f64) -> f64 {
    let rho = st.density.to_reduced();
    let t = st.temperature.to_reduced();
    let s = rho * t + contrib_abs(st, PD::First(DV));
    RTOL_P * p.abs() + ATOL_P + ROUND_P * s
}

// ---------------------------------------------------------------------------------------
// Signature of the known finding `C03/density-iteration-nonconvergence`
//
// `density_iteration` (feos-core/src/density_iteration.rs) returns `Ok(state)` when its 50
// iterations are exhausted, because the non-convergence test `iterations == maxiter + 1` (line 132)
// can never be true. To recognise *exactly* this cause - and nothing else - the control flow of
// `density_iteration` and `pressure_spinodal` at the pinned commit is replicated below with one
// difference: it reports whether the loop was left through the convergence `break`. A pressure
// mismatch is attributed to the known finding only if the replica, started from the start density
// that the `DensityInitialization` implies, exhausts its iterations *and* ends at the density of
// the returned state. The replica is a classifier of failures, never an oracle.
//
// Where the start density is not observable (inside the Newton wrappers new_nph/new_nps) two
// physical signatures are used instead: the harness scan finds no mechanically stable root of
// p(rho) = p up to 1.5 max_density, or a negative pressure was requested and the returned density
// collapsed below 1e-20 max_density (step limiter -0.95 rho applied ~50 times: 0.05^50 = 1e-65).
// ---------------------------------------------------------------------------------------
type DpDrho = <Pressure as std::ops::Div<Density>>::Output;
type D2pDrho2 = <DpDrho as std::ops::Div<Density>>::Output;

fn r_d2pdrho2<E: Residual>(
    eos: &Arc<E>,
    t: Temperature,
    moles: &Moles<Array1<f64>>,
    rho: Density,
) -> EosResult<(Pressure, DpDrho, D2pDrho2)> {
    let s = State::new_nvt(eos, t, moles.sum() / rho, moles)?;
    let d2p_dv2 = s.d2p_dv2(TOT);
    let dp_dv = s.dp_dv(TOT);
    Ok((
        s.pressure(TOT),
        (-s.volume * dp_dv / s.density),
        (s.volume / (s.density * s.density) * (2.0 * dp_dv + s.volume * d2p_dv2)),
    ))
}

fn r_p_dpdrho<E: Residual>(
    eos: &Arc<E>,
    t: Temperature,
    moles: &Moles<Array1<f64>>,
    rho: Density,
) -> EosResult<(Pressure, DpDrho)> {
    let s = State::new_nvt(eos, t, moles.sum() / rho, moles)?;
    let dp_dv = s.dp_dv(TOT);
    Ok((s.pressure(TOT), (-s.volume * dp_dv / s.density)))
}

fn r_pressure_spinodal<E: Residual>(
    eos: &Arc<E>,
    temperature: Temperature,
    rho_init: Density,
    moles: &Moles<Array1<f64>>,
) -> EosResult<(Pressure, Density)> {
    let maxiter = 30;
    let abstol = 1e-8;
    let maxdensity = eos.max_density(Some(moles))?;
    let mut rho = rho_init;
    if rho <= Density::from_reduced(0.0) {
        return Err(EosError::IterationFailed("replica".into()));
    }
    for _ in 0..maxiter {
        let (p, dpdrho, d2pdrho2) = r_d2pdrho2(eos, temperature, moles, rho)?;
        let mut delta_rho = -dpdrho / d2pdrho2;
        if delta_rho.abs() > 0.05 * maxdensity {
            delta_rho = 0.05 * maxdensity * delta_rho.signum()
        }
        delta_rho = delta_rho.max(-rho * 0.95);
        delta_rho = delta_rho.min(maxdensity - rho);
        rho += delta_rho;
        if dpdrho.to_reduced().abs() < abstol {
            return Ok((p, rho));
        }
    }
    Err(EosError::NotConverged("replica pressure_spinodal".to_owned()))
}

#[derive(Debug)]
enum Exit {
    Converged,
    Exhausted(Density),
}

fn r_density_iteration<E: Residual>(
    eos: &Arc<E>,
    temperature: Temperature,
    pressure: Pressure,
    moles: &Moles<Array1<f64>>,
    initial_density: Density,
) -> EosResult<Exit> {
    let maxdensity = eos.max_density(Some(moles))?;
    let (abstol, reltol) = (1e-12, 1e-14);
    let mut rho = initial_density;
    if rho <= Density::from_reduced(0.0) {
        return Err(EosError::IterationFailed("replica".into()));
    }
    let maxiter = 50;
    let mut converged = false;
    'iteration: for k in 0..maxiter {
        let (mut p, mut dp_drho) = r_p_dpdrho(eos, temperature, moles, rho)?;
        if std::env::var("VERIF_DEBUG").is_ok() {
            eprintln!("  replica k={k} rho={:e} p={:e} dp={:e}", rho.to_reduced(), p.to_reduced(), dp_drho.to_reduced());
        }
        if dp_drho.is_sign_negative() && k == 0 {
            rho = if initial_density <= 0.15 * maxdensity {
                0.05 * initial_density
            } else {
                (1.1 * initial_density).min(maxdensity)
            };
            let p_ = r_p_dpdrho(eos, temperature, moles, rho)?;
            p = p_.0;
            dp_drho = p_.1;
        }
        let mut error = p - pressure;
        let mut delta_rho = -error / dp_drho;
        if delta_rho.abs() > 0.075 * maxdensity {
            delta_rho = 0.075 * maxdensity * delta_rho.signum();
        };
        delta_rho = delta_rho.max(-0.95 * rho);
        if dp_drho.is_sign_negative() && k < maxiter {
            let d2pdrho2 = r_d2pdrho2(eos, temperature, moles, rho)?.2;
            if rho > 0.85 * maxdensity {
                let (sp_p, sp_rho) = r_pressure_spinodal(eos, temperature, initial_density, moles)?;
                rho = sp_rho;
                error = sp_p - pressure;
                if rho > 0.85 * maxdensity {
                    if error.is_sign_negative() {
                        return Err(EosError::IterationFailed(String::from("replica")));
                    } else {
                        rho *= 0.98
                    }
                } else if error.is_sign_positive() {
                    rho = 0.001 * maxdensity
                } else {
                    rho = (rho * 1.1).min(maxdensity)
                }
            } else if error.is_sign_positive() && d2pdrho2.is_sign_positive() {
                let (sp_p, sp_rho) = r_pressure_spinodal(eos, temperature, initial_density, moles)?;
                rho = sp_rho;
                error = sp_p - pressure;
                if error.is_sign_positive() {
                    rho = 0.001 * maxdensity
                } else {
                    rho = (rho * 1.1).min(maxdensity)
                }
            } else if error.is_sign_negative() && d2pdrho2.is_sign_negative() {
                let (sp_p, sp_rho) = r_pressure_spinodal(eos, temperature, initial_density, moles)?;
                rho = sp_rho;
                error = sp_p - pressure;
                if error.is_sign_negative() {
                    rho = 0.8 * maxdensity
                } else {
                    rho *= 0.8
                }
            } else if error.is_sign_negative() && d2pdrho2.is_sign_positive() {
                let (_, rho_l) = r_pressure_spinodal(eos, temperature, 0.8 * maxdensity, moles)?;
                let (sp_v_p, rho_v) = r_pressure_spinodal(eos, temperature, 0.001 * maxdensity, moles)?;
                error = sp_v_p - pressure;
                if error.is_sign_positive() && (initial_density - rho_v).abs() < (initial_density - rho_l).abs() {
                    rho = 0.8 * rho_v
                } else {
                    rho = (rho_l * 1.1).min(maxdensity)
                }
            } else if error.is_sign_positive() && d2pdrho2.is_sign_negative() {
                let (_, rho_l) = r_pressure_spinodal(eos, temperature, 0.8 * maxdensity, moles)?;
                let (sp_v_p, rho_v) = r_pressure_spinodal(eos, temperature, 0.001 * maxdensity, moles)?;
                error = sp_v_p - pressure;
                if error.is_sign_negative() && (initial_density - rho_v).abs() > (initial_density - rho_l).abs() {
                    rho = (rho_l * 1.1).min(maxdensity)
                } else {
                    rho = 0.8 * rho_v
                }
            } else {
                rho = (rho + initial_density) * 0.5;
                if (rho - initial_density).to_reduced().abs() < 1e-8 {
                    rho = (rho + 0.1 * maxdensity).min(maxdensity)
                }
            }
            continue 'iteration;
        }
        rho += delta_rho;
        if error.to_reduced().abs() < f64::max(abstol, (rho * reltol).to_reduced()) {
            converged = true;
            break 'iteration;
        }
    }
    Ok(if converged { Exit::Converged } else { Exit::Exhausted(rho) })
}

/// How the density iteration that produced a state was started (what the harness knows about it).
#[derive(Clone, Copy, Debug)]
enum Start {
    /// `State::new_npt` with this initialisation (Rho: absolute start density, reduced units)
    Npt(Init, f64),
    /// inside a Newton wrapper: not observable
    Unknown,
}

fn exhausted_iteration<E: Residual>(st: &State<E>, p: f64, start: Start) -> Option<&'static str> {
    let rho_max = st.eos.max_density(Some(&st.moles)).ok()?;
    let rho = st.density.to_reduced();
    if let Start::Npt(init, rho0) = start {
        let pq = Pressure::from_reduced(p);
        let t = st.temperature;
        let starts: Vec<Density> = match init {
            Init::None => vec![rho_max, pq / t / RGAS],
            Init::Vapor => vec![pq / t / RGAS],
            Init::Liquid => vec![rho_max],
            Init::Rho(_) => vec![Density::from_reduced(rho0)],
        };
        for s0 in starts {
            let r = catch_unwind(AssertUnwindSafe(|| r_density_iteration(&st.eos, t, pq, &st.moles, s0)));
            if std::env::var("VERIF_DEBUG").is_ok() {
                eprintln!("replica from {:e}: {:?} (returned rho {rho:e})", s0.to_reduced(), r.as_ref().map(|r| r.as_ref().map(|e| format!("{e:?}")).map_err(|e| e.to_string())).map_err(|_| "panic"));
            }
            if let Ok(Ok(Exit::Exhausted(end))) = r {
                if (end.to_reduced() - rho).abs() <= 1e-9 * rho.abs() {
                    return Some("replica of density_iteration exhausts its 50 iterations and ends at the returned density");
                }
            }
        }
        return None;
    }
    let hi = 1.5 * rho_max.to_reduced();
    if !(rho <= hi) {
        return None;
    }
    if p < 0.0 && rho < 1e-20 * rho_max.to_reduced() {
        return Some("negative pressure requested, returned density collapsed below 1e-20 max_density");
    }
    let scan = scan_roots(&st.eos, st.temperature, &st.moles, p, hi, &[]);
    if !scan.roots.iter().any(|r| r.stable) {
        return Some("p(rho) = p has no mechanically stable root up to 1.5 max_density");
    }
    None
}

fn check_pressure<E: Residual>(obs: &mut Obs, key: &str, st: &State<E>, p: f64, start: Start) -> bool {
    let ps = st.pressure(TOT).to_reduced();
    let tol = p_tol(st, p);
    // a converged iteration is orders of magnitude inside the tolerance (measured < 1e-3 tol);
    // anything above 1 % of it is examined for the signature of the known finding
    if !((ps - p).abs() <= 0.01 * tol) {
        if let Some(why) = exhausted_iteration(st, p, start) {
            if (ps - p).abs() <= tol {
                obs.count();
                obs.class("exhausted density iteration, pressure still within tolerance");
                return true;
            }
            obs.count();
            obs.class(format!("known: Ok(state) from an exhausted density iteration ({why})"));
            obs.known_or_fail(
                "C03/density-iteration-nonconvergence",
                format!(
                    "requested p = {p:e} K/A^3 at T = {} ({start:?}) answered with Ok(state) of density {:e} /A^3 = {:.4} max_density and pressure {ps:e} K/A^3: {why}",
                    st.temperature,
                    st.density.to_reduced(),
                    st.density.to_reduced() / st.eos.max_density(Some(&st.moles)).map_or(f64::NAN, |m| m.to_reduced()),
                ),
            );
            return false;
        }
    }
    if !((ps - p).abs() <= tol) {
        // evaluation noise of the model itself: the pressure of the same state re-evaluated at
        // volumes that differ by a few ulp (the dual-number Newton step of the cross-association
        // solver cancels catastrophically at extreme association strength: the association
        // pressure is quantised in steps of up to 1e-5 rho T there). The density iteration cannot
        // do better than that noise.
        let vals: Vec<f64> = (-6..=6)
            .filter_map(|k| {
                let v = st.volume * (1.0 + k as f64 * 3e-16);
                State::new_nvt(&st.eos, st.temperature, v, &st.moles).ok().map(|s| s.pressure(TOT).to_reduced())
            })
            .collect();
        let (lo, hi) = vals.iter().fold((f64::MAX, f64::MIN), |(a, b), &v| (a.min(v), b.max(v)));
        let noise = hi - lo;
        if vals.len() >= 10 && noise.is_finite() && noise > tol && (ps - p).abs() <= 2.0 * noise + tol {
            obs.count();
            obs.class("pressure within the evaluation noise of the model at the returned state (ill-conditioned association term)");
            return true;
        }
    }
    within(obs, key, "pressure(state) == specified pressure", ps, p, tol)
}

// ---------------------------------------------------------------------------------------
// Independent root search of p(rho) = p at fixed T, x
// ---------------------------------------------------------------------------------------
#[derive(Clone, Debug)]
struct Root {
    rho: f64,
    stable: bool,
    g: f64,
}

fn eval_state<E: Residual>(eos: &Arc<E>, t: Temperature, moles: &Moles<Array1<f64>>, rho: f64) -> Option<State<E>> {
    if !(rho > 0.0) || !rho.is_finite() {
        return None;
    }
    State::new_nvt(eos, t, moles.sum() / Density::from_reduced(rho), moles).ok()
}

fn eval_p<E: Residual>(eos: &Arc<E>, t: Temperature, moles: &Moles<Array1<f64>>, rho: f64) -> f64 {
    eval_state(eos, t, moles, rho).map_or(f64::NAN, |s| s.pressure(TOT).to_reduced())
}

/// molar Gibbs function at the *specified* pressure up to terms that depend on T and x only:
/// g/k = a_res + T ln rho + p/rho. Its stationary points in rho are the roots of p(rho) = p.
fn eval_g<E: Residual>(eos: &Arc<E>, t: Temperature, moles: &Moles<Array1<f64>>, rho: f64, p: f64) -> f64 {
    match eval_state(eos, t, moles, rho) {
        Some(s) => {
            let a = s.residual_helmholtz_energy().to_reduced() / s.total_moles.to_reduced();
            a + t.to_reduced() * rho.ln() + p / rho
        }
        None => f64::NAN,
    }
}

struct Scan {
    roots: Vec<Root>,
    /// number of changes of the sign of dp/drho along the grid (0: monotone, 2: one van der Waals
    /// loop, more: several loops - "vapour" and "liquid" branch are then ambiguous)
    extrema: usize,
    /// p(rho_max) < p: a root beyond the scanned range is possible
    beyond: bool,
    nan: usize,
    /// non-finite pressures at grid densities below the largest root (holes in the isotherm
    /// between the branches; non-finite values beyond the liquid root do not count)
    nan_inside: usize,
    evals: usize,
}

/// Grid: log-spaced (16 per decade) from min(1e-8 rho_max, 0.1 p/T) to 0.02 rho_max, then linear
/// in steps of 0.0061 rho_max up to rho_max, plus `extra` points; bisection of every sign change.
fn scan_roots<E: Residual>(
    eos: &Arc<E>,
    t: Temperature,
    moles: &Moles<Array1<f64>>,
    p: f64,
    rho_max: f64,
    extra: &[f64],
) -> Scan {
    let tr = t.to_reduced();
    let mut lo = 1e-8 * rho_max;
    if p > 0.0 && tr > 0.0 {
        lo = lo.min(0.1 * p / tr);
    }
    lo = lo.max(1e-14 * rho_max);
    let knee = 0.02 * rho_max;
    let mut grid: Vec<f64> = vec![];
    if lo < knee {
        let n = (((knee / lo).log10() * 16.0).ceil() as usize).clamp(2, 400);
        for k in 0..n {
            grid.push(lo * (knee / lo).powf(k as f64 / n as f64));
        }
    }
    let nlin = 160;
    for k in 0..=nlin {
        grid.push(knee + (rho_max - knee) * k as f64 / nlin as f64);
    }
    for &e in extra {
        if e > lo && e < rho_max && e.is_finite() {
            grid.push(e);
        }
    }
    grid.sort_by(|a, b| a.partial_cmp(b).unwrap());
    grid.dedup();
    let mut evals = 0;
    let mut nan = 0;
    let f: Vec<f64> = grid
        .iter()
        .map(|&r| {
            evals += 1;
            let v = eval_p(eos, t, moles, r) - p;
            if !v.is_finite() {
                nan += 1;
            }
            v
        })
        .collect();
    let mut roots = vec![];
    for k in 0..grid.len() - 1 {
        let (fa, fb) = (f[k], f[k + 1]);
        if !fa.is_finite() || !fb.is_finite() {
            continue;
        }
        if fa == 0.0 || (fa < 0.0) != (fb < 0.0) {
            let (mut a, mut b) = (grid[k], grid[k + 1]);
            let neg_left = fa < 0.0;
            if fa != 0.0 {
                for _ in 0..48 {
                    let m = 0.5 * (a + b);
                    if m <= a || m >= b {
                        break;
                    }
                    evals += 1;
                    let fm = eval_p(eos, t, moles, m) - p;
                    if !fm.is_finite() {
                        break;
                    }
                    if (fm < 0.0) == neg_left {
                        a = m;
                    } else {
                        b = m;
                    }
                }
            } else {
                b = a;
            }
            let rho = 0.5 * (a + b);
            let stable = if fa == 0.0 { fb > 0.0 } else { neg_left };
            roots.push(Root {
                rho,
                stable,
                g: eval_g(eos, t, moles, rho, p),
            });
        }
    }
    let beyond = f.last().is_some_and(|v| *v < 0.0);
    let mut extrema = 0;
    let mut last = 0i8;
    for k in 0..grid.len() - 1 {
        let (fa, fb) = (f[k], f[k + 1]);
        if !fa.is_finite() || !fb.is_finite() {
            continue;
        }
        let d = fb - fa;
        if d.abs() <= 1e-12 * (fa.abs() + fb.abs() + p.abs()) {
            continue;
        }
        let sgn = if d > 0.0 { 1 } else { -1 };
        if last != 0 && sgn != last {
            extrema += 1;
        }
        last = sgn;
    }
    let top = roots.iter().map(|r: &Root| r.rho).fold(0.0, f64::max);
    let nan_inside = grid.iter().zip(&f).filter(|(r, v)| **r < top && !v.is_finite()).count();
    Scan {
        roots,
        extrema,
        beyond,
        nan,
        nan_inside,
        evals,
    }
}

fn pattern(roots: &[Root]) -> String {
    roots.iter().map(|r| if r.stable { 'S' } else { 'U' }).collect()
}

// ---------------------------------------------------------------------------------------
// Part (b): T-p construction
// ---------------------------------------------------------------------------------------
#[derive(Serialize, Deserialize, Clone, Copy, Debug, PartialEq)]
pub enum Init {
    None,
    Vapor,
    Liquid,
    /// InitialDensity(f * max_density) in `tp`, InitialDensity(f * source density) in `iter`/`echo`
    Rho(f64),
}

impl Init {
    fn label(&self) -> &'static str {
        match self {
            Init::None => "hint=None",
            Init::Vapor => "hint=Vapor",
            Init::Liquid => "hint=Liquid",
            Init::Rho(_) => "hint=InitialDensity",
        }
    }
    fn to_feos(self, rho_ref: f64) -> DensityInitialization {
        match self {
            Init::None => DensityInitialization::None,
            Init::Vapor => DensityInitialization::Vapor,
            Init::Liquid => DensityInitialization::Liquid,
            Init::Rho(f) => DensityInitialization::InitialDensity(Density::from_reduced(f * rho_ref)),
        }
    }
}

fn gen_init(g: &mut Gen, lo: f64, hi: f64) -> Init {
    match g.index(4) {
        0 => Init::None,
        1 => Init::Vapor,
        2 => Init::Liquid,
        _ => Init::Rho(g.log_range(lo, hi)),
    }
}

#[derive(Serialize, Deserialize, Clone, Debug)]
pub struct TpCase {
    pub spec: ModelSpec,
    pub x: Vec<f64>,
    /// total amount (mol)
    pub lambda: f64,
    /// T / T_scale (ion-containing ePC-SAFT: mapped to 280..370 K)
    pub t_red: f64,
    /// p / p_scale
    pub p_red: f64,
    pub init: Init,
    /// success clause: construction must not fail
    pub must_succeed: bool,
}

const GS_FILES: usize = 5; // first five entries of model::PCSAFT_FILES

fn gs_spec(file: usize, idx: usize) -> ModelSpec {
    let (name, recs) = &POOLS.pcsaft[file];
    ModelSpec {
        family: Family::PcSaft,
        pure: vec![recs[idx].clone()],
        binary: vec![],
        seg: None,
        opts: Opts::default(),
        source: format!("shipped:{name}"),
    }
}

pub fn decode_tp(g: &mut Gen) -> TpCase {
    let spec = gen_model(g, &GenCfg::all(3));
    let mut x = g.simplex(spec.n(), 1e-3);
    // "all moles vectors": a component that is present in the model with exactly zero moles
    // (not for the electroneutral water + salt sets, whose composition is fixed by construction)
    let zero_ok = spec.n() >= 2 && !(spec.family == Family::EPcSaft && spec.source.starts_with("shipped"));
    if zero_ok && g.bool(0.15) {
        let k = g.index(spec.n());
        x[k] = 0.0;
        let s: f64 = x.iter().sum();
        x.iter_mut().for_each(|v| *v /= s);
    }
    // a third of the cases close to the critical temperature / saturation region
    let t_red = match g.index(3) {
        0 => g.range(0.45, 2.0),
        1 => g.range(0.45, 1.0),
        _ => g.range(0.85, 1.1),
    };
    let p_red = g.log_range(1e-4, 1e2);
    let init = gen_init(g, 1e-7, 1.05);
    TpCase {
        spec,
        x,
        lambda: g.log_range(1e-3, 1e3),
        t_red,
        p_red,
        init,
        must_succeed: false,
    }
}

pub fn decode_gs_box(g: &mut Gen) -> TpCase {
    let file = g.index(GS_FILES);
    let idx = g.index(POOLS.pcsaft[file].1.len());
    let t_red = if g.bool(0.5) { g.range(0.45, 1.65) } else { g.range(0.6, 1.02) };
    // half of the sub-critical cases within a factor 3 of the Clausius-Clapeyron-like estimate
    // of the saturation pressure ln(p/pc) ~ 7 (1 - Tc/T), where both roots exist
    let p_red = if t_red < 1.0 && g.bool(0.6) {
        let ps = (7.0 * (1.0 - 1.0 / t_red)).exp();
        (ps * g.log_range(1.0 / 3.0, 3.0)).clamp(1e-4, 10.0)
    } else {
        g.log_range(1e-4, 10.0)
    };
    let init = match g.index(3) {
        0 => Init::None,
        1 => Init::Vapor,
        _ => Init::Liquid,
    };
    TpCase {
        spec: gs_spec(file, idx),
        x: vec![1.0],
        lambda: g.log_range(1e-3, 1e3),
        t_red,
        p_red,
        init,
        must_succeed: true,
    }
}

struct TpSetup {
    model: Arc<Model>,
    t: Temperature,
    p: f64,
    moles: Moles<Array1<f64>>,
    rho_max: f64,
}

fn tp_setup(case: &TpCase, obs: &mut Obs) -> Option<TpSetup> {
    let spec = &case.spec;
    let model = match spec.build() {
        Ok(m) => m,
        Err(e) => {
            obs.discard(format!("build:{}", e.chars().take(40).collect::<String>()));
            return None;
        }
    };
    let mut x = case.x.clone();
    neutralise(spec, &mut x);
    let moles = Array1::from_vec(x.iter().map(|xi| xi * case.lambda).collect()) * MOL;
    let rho_max = match model.max_density(Some(&moles)) {
        Ok(r) => r.to_reduced(),
        Err(e) => {
            obs.discard(format!("max_density:{}", err_label(&e)));
            return None;
        }
    };
    let (ts, ps, exact) = tp_scales(spec, &model, &x, rho_max);
    if case.must_succeed && !exact {
        obs.inconclusive(format!(
            "no converged critical point for the record: box undefined ({})",
            spec.pure[0]["identifier"]["name"].as_str().unwrap_or("?")
        ));
        return None;
    }
    let t = if ions(spec) {
        280.0 + (case.t_red - 0.45) / 1.55 * 90.0
    } else {
        case.t_red * ts
    };
    Some(TpSetup {
        model,
        t: Temperature::from_reduced(t),
        p: case.p_red * ps,
        moles,
        rho_max,
    })
}

/// (T [K], p [K/A^3], max_density [1/A^3]) of a T-p case (for debugging and external drivers)
pub fn tp_conditions(case: &TpCase) -> Option<(f64, f64, f64)> {
    let mut obs = Obs::default();
    tp_setup(case, &mut obs).map(|su| (su.t.to_reduced(), su.p, su.rho_max))
}

pub fn check_tp(case: &TpCase, obs: &mut Obs) {
    let spec = &case.spec;
    obs.class(spec.label());
    obs.class(format!("n={}", spec.n()));
    obs.class(case.init.label());
    if case.x.iter().any(|&v| v == 0.0) {
        obs.class("zero-mole component");
    }
    if spec.has_association() {
        obs.class("assoc");
    }
    if spec.has_polar() {
        obs.class("polar");
    }
    let Some(su) = tp_setup(case, obs) else { return };
    let TpSetup {
        model,
        t,
        p,
        moles,
        rho_max,
    } = su;
    let pq = Pressure::from_reduced(p);
    let res = State::new_npt(&model, t, pq, &moles, case.init.to_feos(rho_max));
    let tr = t.to_reduced();
    let mut extra = vec![];
    if let Ok(st) = &res {
        let r = st.density.to_reduced();
        extra.extend([r * (1.0 - 1e-4), r * (1.0 + 1e-4)]);
    }
    if let Init::Rho(f) = case.init {
        extra.push(f * rho_max);
    }
    let scan = scan_roots(&model, t, &moles, p, rho_max, &extra);
    let pat = pattern(&scan.roots);
    obs.class(format!(
        "roots={}{}",
        if pat.len() > 5 { "many" } else { &pat },
        if scan.beyond { "+beyond" } else { "" }
    ));
    let single_loop = scan.extrema <= 2;
    if !single_loop {
        obs.class("multi-loop isotherm (branch and Gibbs clauses not asserted)");
    }
    // a model whose pressure is not a number on part of (0, max_density] (diverging association
    // iteration of a random parameter set) has no isotherm on which "the vapour / liquid branch"
    // or "the root of lower Gibbs energy" could be identified: only the echo and pressure
    // clauses are asserted for it (false alarm of seed 301, DESIGN 12)
    let defined = scan.nan_inside == 0;
    if !defined {
        obs.class("isotherm with undefined (NaN) pressure below its largest root (branch and Gibbs clauses not asserted)");
    } else if scan.nan > 0 {
        obs.class("NaN pressure only beyond the largest root");
    }
    let single_loop = single_loop && defined;
    let two_branches = pat == "SUS" && single_loop;
    // started on the other side of the unstable region (or inside it)?
    let mut wrong_side = false;
    match res {
        Err(e) => {
            obs.class(format!("err:{}", err_label(&e)));
            if case.must_succeed {
                obs.fail(format!(
                    "construction failed inside the success box: {e} (T={tr:.4} K, p={p:e}, roots {pat})"
                ));
            } else if scan.roots.iter().any(|r| r.stable) {
                obs.class("err although a stable root exists below max_density");
            }
        }
        Ok(st) => {
            obs.class("ok");
            obs.ensure(st.temperature == t, || format!("temperature not echoed: {} vs {}", st.temperature, t));
            obs.ensure(st.moles == moles, || format!("moles not echoed: {} vs {}", st.moles, moles));
            check_consistency(obs, &st);
            let p_ok = check_pressure(obs, "tp:pressure", &st, p, Start::Npt(case.init, match case.init { Init::Rho(f) => f * rho_max, _ => 0.0 }));
            let rho = st.density.to_reduced();
            if let (Init::Rho(f), true) = (case.init, two_branches) {
                let ru = scan.roots[1].rho;
                wrong_side = (f * rho_max < ru) != (rho < ru);
                if wrong_side {
                    obs.class("started across the unstable root");
                }
            }
            if p_ok && rho <= rho_max * (1.0 + 1e-9) {
                // the library root must be one of the scanned roots (the scan brackets it)
                let near = scan
                    .roots
                    .iter()
                    .map(|r| (r.rho - rho).abs() / rho)
                    .fold(f64::INFINITY, f64::min);
                if near > 2e-4 {
                    obs.inconclusive("library root not bracketed by the scan (flat p(rho))");
                } else {
                    let g_lib = eval_g(&model, t, &moles, rho, p);
                    match case.init {
                        Init::None if single_loop && (pat == "S" || pat == "SUS") => {
                            let (rb, gb) = scan
                                .roots
                                .iter()
                                .filter(|r| r.stable)
                                .map(|r| (r.rho, r.g))
                                .fold((f64::NAN, f64::INFINITY), |a, b| if b.1 < a.1 { b } else { a });
                            obs.count();
                            track("tp:gibbs-excess/T", (g_lib - gb) / tr / TIE_G, || format!("g_lib {g_lib:e} g_best {gb:e}"));
                            if !(g_lib <= gb + TIE_G * tr) {
                                obs.fail(format!(
                                    "no hint: returned root rho={rho:e} has g/k={g_lib:.9e} K, but the root rho={rb:e} has lower g/k={gb:.9e} K (T={tr:.4} K, p={p:e}, roots {pat})"
                                ));
                            }
                        }
                        Init::Vapor if two_branches => {
                            let ru = scan.roots[1].rho;
                            let msg = format!("Vapor hint: returned rho={rho:e} is above the unstable root {ru:e}; vapour root {:e} exists (T={tr:.4} K, p={p:e})", scan.roots[0].rho);
                            obs.count();
                            if !(rho < ru) {
                                // signature of the open finding: the ideal-gas start density p/(kT) of the
                                // Vapor initialisation lies beyond the vapour branch (above the unstable root)
                                if p / tr > ru {
                                    obs.class("known signature: Vapor hint with the ideal-gas start beyond the vapour branch");
                                    obs.known_or_fail("C03/vapor-hint-start-beyond-vapour-branch", msg);
                                } else {
                                    obs.fail(msg);
                                }
                            }
                        }
                        Init::Liquid if two_branches => {
                            let ru = scan.roots[1].rho;
                            obs.ensure(rho > ru, || {
                                format!("Liquid hint: returned rho={rho:e} is below the unstable root {ru:e}; liquid root {:e} exists (T={tr:.4} K, p={p:e})", scan.roots[2].rho)
                            });
                        }
                        _ => {}
                    }
                }
            } else if p_ok {
                obs.class("ok: root above max_density");
            }
        }
    }
    let near_crit = (0.9..1.1).contains(&case.t_red) && (1.0 / 3.0..3.0).contains(&case.p_red);
    if two_branches {
        obs.class("both branches exist");
    }
    if near_crit {
        obs.class("near critical");
    }
    if two_branches || near_crit || wrong_side {
        obs.nontrivial();
    }
    let _ = scan.evals;
}

// ---------------------------------------------------------------------------------------
// Success lattice over the Gross-Sadowski collections
// ---------------------------------------------------------------------------------------
#[derive(Serialize, Deserialize, Clone, Debug)]
pub struct GsCase {
    pub file: usize,
    pub idx: usize,
    pub name: String,
    pub t_red: f64,
    pub p_red: f64,
}

pub const GS_NT: usize = 20;
pub const GS_NP: usize = 30;

fn gs_items() -> Vec<GsCase> {
    let mut v = vec![];
    for file in 0..GS_FILES {
        for (idx, rec) in POOLS.pcsaft[file].1.iter().enumerate() {
            let name = rec["identifier"]["name"].as_str().unwrap_or("?").to_string();
            for it in 0..GS_NT {
                let t_red = 0.45 + 1.2 * it as f64 / (GS_NT - 1) as f64;
                for ip in 0..GS_NP {
                    let p_red = 10f64.powf(-4.0 + 5.0 * ip as f64 / (GS_NP - 1) as f64);
                    v.push(GsCase {
                        file,
                        idx,
                        name: name.clone(),
                        t_red,
                        p_red,
                    });
                }
            }
        }
    }
    v
}

pub fn check_gs(case: &GsCase, obs: &mut Obs) {
    let spec = gs_spec(case.file, case.idx);
    obs.class(POOLS.pcsaft[case.file].0);
    if spec.has_association() {
        obs.class("assoc");
    }
    if spec.has_polar() {
        obs.class("polar");
    }
    let tp = TpCase {
        spec,
        x: vec![1.0],
        lambda: 1.0,
        t_red: case.t_red,
        p_red: case.p_red,
        init: Init::None,
        must_succeed: true,
    };
    let Some(su) = tp_setup(&tp, obs) else { return };
    let tr = su.t.to_reduced();
    let pq = Pressure::from_reduced(su.p);
    let mut got: Vec<Option<(f64, f64)>> = vec![];
    for init in [Init::None, Init::Vapor, Init::Liquid] {
        match State::new_npt(&su.model, su.t, pq, &su.moles, init.to_feos(su.rho_max)) {
            Err(e) => {
                obs.fail(format!(
                    "{}: construction failed inside the success box: {e} ({} T={tr:.4} K = {:.4} Tc, p = {:.4e} pc)",
                    init.label(),
                    case.name,
                    case.t_red,
                    case.p_red
                ));
                got.push(None);
            }
            Ok(st) => {
                obs.ensure(st.temperature == su.t, || "temperature not echoed".to_string());
                obs.ensure(st.moles == su.moles, || "moles not echoed".to_string());
                check_consistency(obs, &st);
                check_pressure(obs, "gs:pressure", &st, su.p, Start::Npt(init, 0.0));
                let rho = st.density.to_reduced();
                got.push(Some((rho, eval_g(&su.model, su.t, &su.moles, rho, su.p))));
            }
        }
    }
    // differential: when the two hinted constructions found different roots, the un-hinted one
    // must be the one of lower Gibbs energy
    if let (Some(n), Some(v), Some(l)) = (got[0], got[1], got[2]) {
        if (l.0 - v.0) > 1e-3 * l.0 {
            obs.class("two branches");
            obs.nontrivial();
            obs.count();
            let gb = v.1.min(l.1);
            track("gs:gibbs-excess/T", (n.1 - gb) / tr / TIE_G, || format!("{} {n:?} {v:?} {l:?}", case.name));
            if !(n.1 <= gb + TIE_G * tr) {
                obs.fail(format!(
                    "no hint returned rho={:e} (g/k={:.9e}) although the hinted constructions found rho_v={:e} (g/k={:.9e}) and rho_l={:e} (g/k={:.9e}) ({} T={tr:.4} K, p={:e})",
                    n.0, n.1, v.0, v.1, l.0, l.1, case.name, su.p
                ));
            }
        } else {
            obs.class("one branch");
            if (0.9..1.1).contains(&case.t_red) && (1.0 / 3.0..3.0).contains(&case.p_red) {
                obs.nontrivial();
            }
        }
    }
}

// ---------------------------------------------------------------------------------------
// Part (c): iterative targets
// ---------------------------------------------------------------------------------------
#[derive(Serialize, Deserialize, Clone, Debug)]
pub struct IterCase {
    pub spec: ModelSpec,
    pub state: StateSpec,
    pub ig: Vec<usize>,
    /// 0 (p,h)  1 (p,s)  2 (T,h)  3 (T,s)  4 (V,u)
    pub kind: u8,
    /// density initialisation; `Rho(f)`: f x density of the source state
    pub init: Init,
    /// initial temperature as a factor of the source temperature
    pub t0: Option<f64>,
}

const KINDS: [&str; 5] = ["(p,h)", "(p,s)", "(T,h)", "(T,s)", "(V,u)"];

pub fn decode_iter(g: &mut Gen) -> IterCase {
    let spec = gen_model(g, &GenCfg::all(3));
    let n = spec.n();
    let tau = g.range(0.45, 2.0);
    let u = g.unit();
    let f_eta = if tau > 1.05 {
        (1e-5f64.ln() + u * (0.9f64.ln() - 1e-5f64.ln())).exp()
    } else if g.bool(0.5) {
        0.6 + 0.32 * u
    } else {
        (1e-6f64.ln() + u * (0.02f64.ln() - 1e-6f64.ln())).exp()
    };
    let state = StateSpec {
        tau,
        f_eta,
        x: g.simplex(n, 1e-3),
        lambda: g.log_range(1e-3, 1e3),
        no_t_floor: false,
    };
    let ig = (0..n).map(|_| g.index(POOLS.dippr.len())).collect();
    let kind = g.index(5) as u8;
    let init = gen_init(g, 0.5, 2.0);
    let t0 = if g.bool(0.6) { Some(g.range(0.7, 1.4)) } else { None };
    IterCase {
        spec,
        state,
        ig,
        kind,
        init,
        t0,
    }
}

/// tolerance of a caloric target: NEWTON_FACTOR |df/dx| (atol + rtol |x|) + roundoff
fn newton_tol(dfdx: f64, x: f64, atol: f64, value: f64, t: f64) -> f64 {
    NEWTON_FACTOR * dfdx.abs() * (atol + NEWTON_RTOL * x.abs()) + ROUND_CAL * (value.abs() + t)
}

/// caloric target checks shared by `iter` and `echo`; kind as in `IterCase`
fn check_caloric(obs: &mut Obs, st: &State<FullModel>, kind: u8, target: f64) {
    let t = st.temperature.to_reduced();
    let rho = st.density.to_reduced();
    let v = st.volume.to_reduced();
    let nt = st.total_moles.to_reduced();
    let (what, val, dfdx, x, atol) = match kind {
        0 => (
            "molar_enthalpy",
            st.molar_enthalpy(TOT).to_reduced(),
            st.molar_isobaric_heat_capacity(TOT).to_reduced(),
            t,
            NEWTON_ATOL_T,
        ),
        1 => (
            "molar_entropy",
            st.molar_entropy(TOT).to_reduced(),
            st.molar_isobaric_heat_capacity(TOT).to_reduced() / t,
            t,
            NEWTON_ATOL_T,
        ),
        2 => {
            let d = -(v / rho) / nt * (v * st.dp_dv(TOT).to_reduced() + t * st.dp_dt(TOT).to_reduced());
            ("molar_enthalpy", st.molar_enthalpy(TOT).to_reduced(), d, rho, NEWTON_ATOL_RHO)
        }
        3 => {
            let d = -(v / rho) / nt * st.dp_dt(TOT).to_reduced();
            ("molar_entropy", st.molar_entropy(TOT).to_reduced(), d, rho, NEWTON_ATOL_RHO)
        }
        _ => (
            "molar_internal_energy",
            st.molar_internal_energy(TOT).to_reduced(),
            st.molar_isochoric_heat_capacity(TOT).to_reduced(),
            t,
            NEWTON_ATOL_T,
        ),
    };
    if !dfdx.is_finite() {
        obs.inconclusive("derivative of the target function is not finite at the returned state");
        return;
    }
    let tol = newton_tol(dfdx, x, atol, target, t);
    within(
        obs,
        &format!("caloric:{}", KINDS[kind as usize]),
        &format!("{what}(state) == specified value {}", KINDS[kind as usize]),
        val,
        target,
        tol,
    );
}

pub fn check_iter(case: &IterCase, obs: &mut Obs) {
    let spec = &case.spec;
    let kind = case.kind.min(4);
    obs.class(spec.label());
    obs.class(KINDS[kind as usize]);
    obs.class(format!("{} {}", KINDS[kind as usize], case.init.label()));
    obs.class(if case.t0.is_some() { "T0 given" } else { "T0 default" });
    let model = match spec.build() {
        Ok(m) => m,
        Err(e) => {
            obs.discard(format!("build:{}", e.chars().take(40).collect::<String>()));
            return;
        }
    };
    let inputs = match state_inputs(spec, &model, &case.state) {
        Ok(i) => i,
        Err(e) => {
            obs.discard(format!("inputs:{e}"));
            return;
        }
    };
    let ig = match dippr_model(&case.ig) {
        Ok(m) => m,
        Err(e) => {
            obs.discard(format!("ig:{e}"));
            return;
        }
    };
    let eos = full_model(ig, model.clone());
    let src = match build_state(&eos, &inputs) {
        Ok(s) => s,
        Err(e) => {
            obs.discard(format!("state:{e}"));
            return;
        }
    };
    let p = src.pressure(TOT);
    let pr = p.to_reduced();
    let dpdv = src.dp_dv(TOT).to_reduced();
    if !(dpdv < 0.0) || !(pr > 0.0) || !pr.is_finite() {
        obs.discard("source state is not a stable single phase (dp/dV >= 0 or p <= 0)");
        return;
    }
    let (t, v, moles) = (inputs.0, inputs.1, inputs.2.clone());
    let h = src.molar_enthalpy(TOT);
    let s = src.molar_entropy(TOT);
    let u = src.molar_internal_energy(TOT);
    if ![h.to_reduced(), s.to_reduced(), u.to_reduced()].iter().all(|q| q.is_finite()) {
        obs.discard("source state has non-finite caloric properties");
        return;
    }
    let init = case.init.to_feos(src.density.to_reduced());
    let t0 = case.t0.map(|f| f * t);
    let res: EosResult<State<FullModel>> = match kind {
        0 => State::new_nph(&eos, p, h, &moles, init, t0),
        1 => State::new_nps(&eos, p, s, &moles, init, t0),
        2 => State::new_nth(&eos, t, h, &moles, init),
        3 => State::new_nts(&eos, t, s, &moles, init),
        _ => State::new_nvu(&eos, v, u, &moles, t0),
    };
    match res {
        Err(e) => obs.class(format!("{} err:{}", KINDS[kind as usize], err_label(&e))),
        Ok(st) => {
            obs.class(format!("{} ok", KINDS[kind as usize]));
            obs.ensure(st.moles == moles, || format!("moles not echoed: {} vs {}", st.moles, moles));
            check_consistency(obs, &st);
            let tr = t.to_reduced();
            match kind {
                0 | 1 => {
                    check_pressure(obs, "iter:pressure", &st, pr, Start::Unknown);
                }
                2 | 3 => {
                    obs.ensure(st.temperature == t, || format!("temperature not echoed: {} vs {}", st.temperature, t));
                }
                _ => {
                    obs.ensure(st.volume == v, || format!("volume not echoed: {} vs {}", st.volume, v));
                }
            }
            let target = match kind {
                0 | 2 => h.to_reduced(),
                1 | 3 => s.to_reduced(),
                _ => u.to_reduced(),
            };
            check_caloric(obs, &st, kind, target);
            // same solution as the source state?
            let same = (st.temperature.to_reduced() - tr).abs() < 1e-6 * tr
                && (st.density.to_reduced() / src.density.to_reduced() - 1.0).abs() < 1e-6;
            obs.class(if same { "found the source state" } else { "found another solution" });
            obs.nontrivial();
        }
    }
}

// ---------------------------------------------------------------------------------------
// Part (a): echo / input subsets
// ---------------------------------------------------------------------------------------
const I_T: usize = 0;
const I_V: usize = 1;
const I_RHO: usize = 2;
const I_RHOI: usize = 3;
const I_N: usize = 4;
const I_NI: usize = 5;
const I_X: usize = 6;
const I_P: usize = 7;
const I_H: usize = 8;
const I_S: usize = 9;
const I_U: usize = 10;
const I_T0: usize = 11;
const N_IN: usize = 12;
const IN_NAMES: [&str; N_IN] = ["T", "V", "rho", "rho_i", "N", "N_i", "x", "p", "h", "s", "u", "T0"];

#[derive(Serialize, Deserialize, Clone, Copy, Debug, PartialEq)]
pub enum Inj {
    Nan,
    PosInf,
    NegInf,
    Neg,
    NegZero,
    Zero,
    /// arrays only: one element too few / too many
    Shorter,
    Longer,
}

#[derive(Serialize, Deserialize, Clone, Copy, Debug)]
pub struct Inject {
    pub input: u8,
    pub kind: Inj,
    /// element of array inputs that is replaced
    pub elem: u8,
}

#[derive(Serialize, Deserialize, Clone, Debug)]
pub struct EchoCase {
    /// 0 propane, 1 propane/butane, 2 methane/ethane/propane (PC-SAFT gross2001 + DIPPR ideal gas)
    pub model: u8,
    /// presence bits over [T, V, rho, rho_i, N, N_i, x, p, h, s, u, T0]
    pub present: u16,
    pub init: Init,
    /// false: State::new / State::new_full called directly; true: through StateBuilder
    pub via_builder: bool,
    /// source state from which consistent values are computed: T [K], rho/max_density, x, total moles [mol]
    pub t: f64,
    pub f_eta: f64,
    pub x: Vec<f64>,
    pub n: f64,
    /// perturbation of each supplied value (1 = consistent with the source state): T, V, rho, rho_i,
    /// N, N_i, x (unnormalised scaling), p, T0 multiplicative; h, u + (f-1) 10 T, s + (f-1) 5
    pub pert: Vec<f64>,
    pub inject: Vec<Inject>,
}

const ECHO_MODELS: [&[&str]; 3] = [&["propane"], &["propane", "butane"], &["methane", "ethane", "propane"]];

fn echo_spec(model: u8) -> ModelSpec {
    let names = ECHO_MODELS[(model as usize).min(2)];
    let recs = &POOLS.pcsaft[0].1;
    let pure = names
        .iter()
        .map(|n| {
            recs.iter()
                .find(|r| r["identifier"]["name"].as_str() == Some(n))
                .unwrap_or_else(|| panic!("gross2001.json has no record {n}"))
                .clone()
        })
        .collect();
    ModelSpec {
        family: Family::PcSaft,
        pure,
        binary: vec![],
        seg: None,
        opts: Opts::default(),
        source: "shipped:gross2001.json".into(),
    }
}

#[derive(Clone, Copy, Debug, PartialEq)]
enum Level {
    L1,
    L2a,
    L2b,
    PH,
    PS,
    TH,
    TS,
    VU,
}

/// Reference decision table, written from the doc comments of `State::new` / `State::new_full`
/// (hierarchy: 1. non-iterative from T, V, rho, rho_i, N, N_i, x; 2. density iteration for given
/// pressure; 3. Newton for (p,h), (p,s), (T,h), (T,s), (V,u) in this order) and the error
/// messages of `State::_new`.
struct Table {
    over: Option<&'static str>,
    composition: bool,
    level: Option<Level>,
    /// enough independent intensive information to fix a state at all
    physically_determined: bool,
}

fn table(pr: &dyn Fn(usize) -> bool, ncomp: usize) -> Table {
    let rho = pr(I_RHO) || pr(I_RHOI);
    let amount = pr(I_N) || pr(I_NI);
    let over = if pr(I_RHO) && pr(I_RHOI) {
        Some("density and partial density")
    } else if pr(I_N) && pr(I_NI) {
        Some("moles and total moles")
    } else if rho && amount && pr(I_V) {
        Some("density, amount and volume")
    } else if pr(I_RHOI) && pr(I_NI) {
        Some("composition from partial density and moles")
    } else if (pr(I_RHOI) || pr(I_NI)) && pr(I_X) {
        Some("composition from partial density/moles and molefracs")
    } else {
        None
    };
    let composition = pr(I_RHOI) || pr(I_NI) || pr(I_X) || ncomp == 1;
    let mut n = amount || (rho && pr(I_V));
    if !pr(I_V) && !n {
        n = true; // "If no extensive property is given, moles is set to the reference value."
    }
    let v = pr(I_V) || (rho && n);
    let full = pr(I_H) || pr(I_S) || pr(I_U) || pr(I_T0);
    let level = if pr(I_T) && v && n {
        Some(Level::L1)
    } else if pr(I_P) && pr(I_T) && n {
        Some(Level::L2a)
    } else if pr(I_P) && pr(I_T) && v {
        Some(Level::L2b)
    } else if full && n {
        if pr(I_P) && pr(I_H) {
            Some(Level::PH)
        } else if pr(I_P) && pr(I_S) {
            Some(Level::PS)
        } else if pr(I_T) && pr(I_H) {
            Some(Level::TH)
        } else if pr(I_T) && pr(I_S) {
            Some(Level::TS)
        } else if pr(I_U) && pr(I_V) {
            Some(Level::VU)
        } else {
            None
        }
    } else {
        None
    };
    let d = rho || (pr(I_V) && amount);
    let count = [pr(I_T), d, pr(I_P), pr(I_H), pr(I_S), pr(I_U)].iter().filter(|b| **b).count();
    Table {
        over,
        composition,
        level,
        physically_determined: composition && count >= 2,
    }
}

/// inputs that the selected method reads (everything else is ignored by the documented hierarchy)
fn used(level: Level, pr: &dyn Fn(usize) -> bool) -> [bool; N_IN] {
    let mut u = [false; N_IN];
    let amount = pr(I_N) || pr(I_NI);
    let first7 = |u: &mut [bool; N_IN]| {
        for i in [I_T, I_V, I_RHO, I_RHOI, I_N, I_NI, I_X] {
            u[i] = pr(i);
        }
    };
    match level {
        Level::L1 => first7(&mut u),
        Level::L2a | Level::L2b => {
            first7(&mut u);
            u[I_P] = true;
        }
        Level::PH | Level::PS => {
            for i in [I_RHOI, I_N, I_NI, I_X] {
                u[i] = pr(i);
            }
            // without N or N_i the amount is V * rho: both are read
            if !amount && (pr(I_RHO) || pr(I_RHOI)) && pr(I_V) {
                u[I_V] = true;
                u[I_RHO] = pr(I_RHO);
            }
            u[I_P] = true;
            u[if level == Level::PH { I_H } else { I_S }] = true;
            u[I_T0] = pr(I_T0);
        }
        Level::TH | Level::TS => {
            first7(&mut u);
            u[if level == Level::TH { I_H } else { I_S }] = true;
        }
        Level::VU => {
            for i in [I_V, I_RHO, I_RHOI, I_N, I_NI, I_X] {
                u[i] = pr(i);
            }
            u[I_U] = true;
            u[I_T0] = pr(I_T0);
        }
    }
    u
}

fn inj_scalar(v: f64, k: Inj) -> f64 {
    match k {
        Inj::Nan => f64::NAN,
        Inj::PosInf => f64::INFINITY,
        Inj::NegInf => f64::NEG_INFINITY,
        Inj::Neg => {
            if v != 0.0 && v.is_finite() {
                -v.abs()
            } else {
                -1.0
            }
        }
        Inj::NegZero => -0.0,
        Inj::Zero => 0.0,
        Inj::Shorter | Inj::Longer => v,
    }
}

fn inj_array(a: &mut Vec<f64>, inj: &Inject) {
    match inj.kind {
        Inj::Shorter => {
            a.pop();
        }
        Inj::Longer => {
            let l = a.last().copied().unwrap_or(0.5);
            a.push(l);
        }
        k => {
            if !a.is_empty() {
                let e = inj.elem as usize % a.len();
                a[e] = inj_scalar(a[e], k);
            }
        }
    }
}

fn is_array(i: usize) -> bool {
    matches!(i, I_RHOI | I_NI | I_X)
}

/// supplied values in reduced units after perturbation and injection
struct Supplied {
    s: [f64; N_IN],
    rho_i: Vec<f64>,
    n_i: Vec<f64>,
    x: Vec<f64>,
}

pub fn check_echo(case: &EchoCase, obs: &mut Obs) {
    let spec = echo_spec(case.model);
    let nc = spec.n();
    obs.class(format!("n={nc}"));
    obs.class(if case.via_builder { "via StateBuilder" } else { "via State::new/new_full" });
    let pr_bits = case.present & 0x0fff;
    let pr = move |i: usize| pr_bits & (1 << i) != 0;
    let n_present = (0..N_IN).filter(|&i| pr(i)).count();
    if case.x.len() != nc || case.pert.len() != N_IN {
        obs.discard("malformed case");
        return;
    }
    let model = spec.build().expect("echo model builds");
    let ig = dippr_model(&(0..nc).collect::<Vec<_>>()).expect("dippr model");
    let eos = full_model(ig, model.clone());
    // ---- source state and consistent values (reduced units) ----
    let xs: f64 = case.x.iter().sum();
    let x0: Vec<f64> = case.x.iter().map(|v| v / xs).collect();
    let moles0 = Array1::from_vec(x0.iter().map(|xi| xi * case.n).collect()) * MOL;
    let rho_max = model.max_density(Some(&moles0)).expect("max_density").to_reduced();
    let rho0 = case.f_eta * rho_max;
    let t0q = Temperature::from_reduced(case.t);
    let src = State::new_nvt(&eos, t0q, moles0.sum() / Density::from_reduced(rho0), &moles0).expect("source state");
    let n0 = moles0.sum().to_reduced();
    let f = &case.pert;
    let mut sup = Supplied {
        s: [0.0; N_IN],
        rho_i: x0.iter().map(|xi| xi * rho0 * f[I_RHOI]).collect(),
        n_i: x0.iter().map(|xi| xi * n0 * f[I_NI]).collect(),
        x: x0.iter().map(|xi| xi * f[I_X]).collect(),
    };
    sup.s[I_T] = case.t * f[I_T];
    sup.s[I_V] = n0 / rho0 * f[I_V];
    sup.s[I_RHO] = rho0 * f[I_RHO];
    sup.s[I_N] = n0 * f[I_N];
    sup.s[I_P] = src.pressure(TOT).to_reduced() * f[I_P];
    sup.s[I_H] = src.molar_enthalpy(TOT).to_reduced() + (f[I_H] - 1.0) * 10.0 * case.t;
    sup.s[I_S] = src.molar_entropy(TOT).to_reduced() + (f[I_S] - 1.0) * 5.0;
    sup.s[I_U] = src.molar_internal_energy(TOT).to_reduced() + (f[I_U] - 1.0) * 10.0 * case.t;
    sup.s[I_T0] = case.t * f[I_T0];
    obs.class(if src.dp_dv(TOT).to_reduced() < 0.0 { "source stable" } else { "source mechanically unstable" });

    // ---- injections ----
    let mut zero = false; // zero injected into a present input
    let mut bad = [false; N_IN]; // NaN / inf / negative injected
    let mut wrong_len = [false; N_IN];
    for inj in &case.inject {
        let i = inj.input as usize;
        if i >= N_IN || !pr(i) {
            continue;
        }
        match inj.kind {
            Inj::Shorter | Inj::Longer => {
                if !is_array(i) {
                    continue;
                }
                wrong_len[i] = true;
            }
            Inj::Zero | Inj::NegZero => zero = true,
            _ => bad[i] = true,
        }
        match i {
            I_RHOI => inj_array(&mut sup.rho_i, inj),
            I_NI => inj_array(&mut sup.n_i, inj),
            I_X => inj_array(&mut sup.x, inj),
            _ => sup.s[i] = inj_scalar(sup.s[i], inj.kind),
        }
    }
    // lengths may have been changed twice (shorter + longer): recompute
    wrong_len[I_RHOI] = pr(I_RHOI) && sup.rho_i.len() != nc;
    wrong_len[I_NI] = pr(I_NI) && sup.n_i.len() != nc;
    wrong_len[I_X] = pr(I_X) && sup.x.len() != nc;

    // ---- reference decision ----
    let tb = table(&pr, nc);
    #[derive(PartialEq, Debug)]
    enum Expect {
        /// the property is silent (zero values) or the input is outside what it speaks about
        Silent(&'static str),
        MustErr(&'static str),
        /// documented method; `Ok` must echo, `Err` is allowed
        Method(Level),
        /// Err expected but not asserted
        Unasserted(&'static str),
    }
    let expect = if zero {
        Expect::Silent("zero value supplied")
    } else if tb.over.is_some() {
        Expect::MustErr("over-determined")
    } else if !tb.composition {
        Expect::MustErr("under-determined (no composition)")
    } else {
        match tb.level {
            None => {
                if tb.physically_determined {
                    Expect::Unasserted("determined but not a documented combination")
                } else {
                    Expect::MustErr("under-determined")
                }
            }
            Some(l) => {
                let u = used(l, &pr);
                if (0..N_IN).any(|i| u[i] && wrong_len[i]) {
                    Expect::MustErr("component-count mismatch")
                } else if [I_T, I_V, I_N, I_NI]
                    .iter()
                    .any(|&i| u[i] && bad[i] && !(i == I_V && matches!(l, Level::PH | Level::PS)))
                {
                    Expect::MustErr("non-finite or negative T, V or N")
                } else if [I_T, I_V, I_N, I_NI].iter().any(|&i| bad[i]) {
                    Expect::Unasserted("invalid V ignored (or used only as n = V rho) by the documented hierarchy at (p,h)/(p,s)")
                } else if (0..N_IN).any(|i| u[i] && bad[i]) {
                    Expect::Silent("non-finite or negative rho, rho_i, x, p, h, s, u or T0")
                } else if (0..N_IN).any(|i| wrong_len[i]) {
                    // cannot happen: arrays are always read; kept for totality
                    Expect::Unasserted("wrong-length array ignored")
                } else {
                    Expect::Method(l)
                }
            }
        }
    };
    obs.class(match &expect {
        Expect::Silent(s) => format!("silent: {s}"),
        Expect::MustErr(s) => format!("must-err: {s}"),
        Expect::Method(l) => format!("method {l:?}"),
        Expect::Unasserted(s) => format!("unasserted: {s}"),
    });

    // ---- call the constructor ----
    let q_t = Temperature::from_reduced(sup.s[I_T]);
    let q_v = Volume::from_reduced(sup.s[I_V]);
    let q_rho = Density::from_reduced(sup.s[I_RHO]);
    let q_rhoi = Density::from_reduced(Array1::from_vec(sup.rho_i.clone()));
    let q_n = Moles::from_reduced(sup.s[I_N]);
    let q_ni = Moles::from_reduced(Array1::from_vec(sup.n_i.clone()));
    let q_x = Array1::from_vec(sup.x.clone());
    let q_p = Pressure::from_reduced(sup.s[I_P]);
    let q_h = MolarEnergy::from_reduced(sup.s[I_H]);
    let q_s = MolarEntropy::from_reduced(sup.s[I_S]);
    let q_u = MolarEnergy::from_reduced(sup.s[I_U]);
    let q_t0 = Temperature::from_reduced(sup.s[I_T0]);
    let init = case.init.to_feos(rho0);
    let full = pr(I_H) || pr(I_S) || pr(I_U) || pr(I_T0);
    let call = || -> EosResult<State<FullModel>> {
        if case.via_builder {
            let mut b = StateBuilder::new(&eos);
            if pr(I_T) {
                b = b.temperature(q_t);
            }
            if pr(I_V) {
                b = b.volume(q_v);
            }
            if pr(I_RHO) {
                b = b.density(q_rho);
            }
            if pr(I_RHOI) {
                b = b.partial_density(&q_rhoi);
            }
            if pr(I_N) {
                b = b.total_moles(q_n);
            }
            if pr(I_NI) {
                b = b.moles(&q_ni);
            }
            if pr(I_X) {
                b = b.molefracs(&q_x);
            }
            if pr(I_P) {
                b = b.pressure(q_p);
            }
            b = match case.init {
                Init::None => b,
                Init::Vapor => b.vapor(),
                Init::Liquid => b.liquid(),
                Init::Rho(f) => b.initial_density(Density::from_reduced(f * rho0)),
            };
            if !full {
                return b.build();
            }
            // any of the four setters converts the builder to the IdealGas flavour
            let mut bf = if pr(I_H) {
                b.molar_enthalpy(q_h)
            } else if pr(I_S) {
                b.molar_entropy(q_s)
            } else if pr(I_U) {
                b.molar_internal_energy(q_u)
            } else {
                b.initial_temperature(q_t0)
            };
            if pr(I_H) {
                bf = bf.molar_enthalpy(q_h);
            }
            if pr(I_S) {
                bf = bf.molar_entropy(q_s);
            }
            if pr(I_U) {
                bf = bf.molar_internal_energy(q_u);
            }
            if pr(I_T0) {
                bf = bf.initial_temperature(q_t0);
            }
            bf.build()
        } else if full {
            State::new_full(
                &eos,
                pr(I_T).then_some(q_t),
                pr(I_V).then_some(q_v),
                pr(I_RHO).then_some(q_rho),
                pr(I_RHOI).then_some(&q_rhoi),
                pr(I_N).then_some(q_n),
                pr(I_NI).then_some(&q_ni),
                pr(I_X).then_some(&q_x),
                pr(I_P).then_some(q_p),
                pr(I_H).then_some(q_h),
                pr(I_S).then_some(q_s),
                pr(I_U).then_some(q_u),
                init,
                pr(I_T0).then_some(q_t0),
            )
        } else {
            State::new(
                &eos,
                pr(I_T).then_some(q_t),
                pr(I_V).then_some(q_v),
                pr(I_RHO).then_some(q_rho),
                pr(I_RHOI).then_some(&q_rhoi),
                pr(I_N).then_some(q_n),
                pr(I_NI).then_some(&q_ni),
                pr(I_X).then_some(&q_x),
                pr(I_P).then_some(q_p),
                init,
            )
        }
    };
    let strict = matches!(expect, Expect::MustErr(_) | Expect::Method(_));
    let res = if strict {
        call() // a panic propagates and is a violation (PanicPolicy::Violation)
    } else {
        match catch_unwind(AssertUnwindSafe(call)) {
            Ok(r) => r,
            Err(_) => {
                obs.class("panic where the property is silent (counted, not asserted)");
                return;
            }
        }
    };
    let describe = || {
        let mut v = vec![];
        for i in 0..N_IN {
            if pr(i) {
                v.push(match i {
                    I_RHOI => format!("rho_i={:?}", sup.rho_i),
                    I_NI => format!("N_i={:?}", sup.n_i),
                    I_X => format!("x={:?}", sup.x),
                    _ => format!("{}={:e}", IN_NAMES[i], sup.s[i]),
                });
            }
        }
        v.join(", ")
    };
    match (&expect, res) {
        (Expect::MustErr(why), Ok(st)) => {
            obs.fail(format!(
                "{why}: expected an error, got a state T={} V={} N={} for inputs [{}]",
                st.temperature,
                st.volume,
                st.moles,
                describe()
            ));
        }
        (Expect::MustErr(_), Err(e)) => {
            obs.count();
            obs.class(format!("rejected:{}", err_label(&e)));
            if n_present >= 3 {
                obs.nontrivial();
            }
        }
        (Expect::Silent(_) | Expect::Unasserted(_), Ok(st)) => {
            obs.class("silent/unasserted: ok");
            // "never turned into a state": T, V, N of anything returned are finite and not negative
            let t = st.temperature.to_reduced();
            let v = st.volume.to_reduced();
            let n = st.moles.to_reduced();
            obs.ensure(
                t.is_finite() && !(t < 0.0) && v.is_finite() && !(v < 0.0) && n.iter().all(|m| m.is_finite() && !(*m < 0.0)),
                || format!("returned state has T={t:e} V={v:e} N={n:?} for inputs [{}]", describe()),
            );
        }
        (Expect::Silent(_) | Expect::Unasserted(_), Err(e)) => {
            obs.class(format!("silent/unasserted: err:{}", err_label(&e)));
        }
        (Expect::Method(l), Err(e)) => {
            obs.class(format!("{l:?} err:{}", err_label(&e)));
        }
        (Expect::Method(l), Ok(st)) => {
            let l = *l;
            obs.class(format!("{l:?} ok"));
            let u = used(l, &pr);
            check_consistency(obs, &st);
            if st.moles.len() != nc {
                return;
            }
            let rho = st.density.to_reduced();
            let nt = st.total_moles.to_reduced();
            if u[I_T] {
                obs.ensure(st.temperature == q_t, || format!("temperature not echoed bitwise: {:e} vs {:e}", st.temperature.to_reduced(), sup.s[I_T]));
            }
            // V is stored directly whenever it is supplied and read (levels 1, 2b, (V,u))
            if u[I_V] && matches!(l, Level::L1 | Level::L2b | Level::VU) {
                obs.ensure(st.volume == q_v, || format!("volume not echoed bitwise: {:e} vs {:e}", st.volume.to_reduced(), sup.s[I_V]));
            }
            if l == Level::L1 {
                if pr(I_RHO) {
                    within(obs, "echo:derived", "density == specified", rho, sup.s[I_RHO], RTOL_ECHO * rho.abs());
                }
                if pr(I_RHOI) {
                    let pd = st.partial_density.to_reduced();
                    for i in 0..nc {
                        within(obs, "echo:derived", "partial_density == specified", pd[i], sup.rho_i[i], RTOL_ECHO * rho.abs());
                    }
                }
            }
            // amounts: read by every method when supplied
            if pr(I_N) {
                within(obs, "echo:derived", "total_moles == specified", nt, sup.s[I_N], RTOL_ECHO * nt.abs());
            }
            if pr(I_NI) {
                let m = st.moles.to_reduced();
                for i in 0..nc {
                    within(obs, "echo:derived", "moles == specified", m[i], sup.n_i[i], RTOL_ECHO * nt.abs());
                }
            }
            // composition, normalised as documented
            let comp: Option<Vec<f64>> = if pr(I_RHOI) {
                Some(sup.rho_i.clone())
            } else if pr(I_NI) {
                Some(sup.n_i.clone())
            } else if pr(I_X) {
                Some(sup.x.clone())
            } else {
                None
            };
            if let Some(c) = comp {
                let s: f64 = c.iter().sum();
                for i in 0..nc {
                    within(obs, "echo:derived", "molefracs == normalised specified composition", st.molefracs[i], c[i] / s, RTOL_ECHO);
                }
            }
            match l {
                Level::L1 => {}
                Level::L2a | Level::L2b => {
                    let start = Start::Npt(case.init, match case.init { Init::Rho(f) => f * rho0, _ => 0.0 });
                    check_pressure(obs, "echo:pressure", &st, sup.s[I_P], start);
                }
                Level::PH => {
                    check_pressure(obs, "echo:pressure", &st, sup.s[I_P], Start::Unknown);
                    check_caloric(obs, &st, 0, sup.s[I_H]);
                }
                Level::PS => {
                    check_pressure(obs, "echo:pressure", &st, sup.s[I_P], Start::Unknown);
                    check_caloric(obs, &st, 1, sup.s[I_S]);
                }
                Level::TH => check_caloric(obs, &st, 2, sup.s[I_H]),
                Level::TS => check_caloric(obs, &st, 3, sup.s[I_S]),
                Level::VU => check_caloric(obs, &st, 4, sup.s[I_U]),
            }
            if n_present >= 3 {
                obs.nontrivial();
            }
        }
    }
}

/// draws of the echo lattice: (T [K], f_eta, init, via_builder, perturbations)
fn echo_draw(model: u8, d: usize) -> EchoCase {
    let x = match model {
        0 => vec![1.0],
        1 => vec![0.4, 0.6],
        _ => vec![0.2, 0.3, 0.5],
    };
    let mut pert = vec![1.0; N_IN];
    let (t, f_eta, init, via_builder, n) = match d {
        0 => (300.0, 0.002, Init::None, true, 1.0),
        1 => {
            pert[I_X] = 2.0; // unnormalised molefracs
            (300.0, 0.85, Init::Liquid, false, 2.5e-3)
        }
        2 => {
            pert[I_P] = 1.5;
            pert[I_V] = 0.7;
            pert[I_T0] = 1.2;
            pert[I_N] = 3.0;
            (450.0, 0.3, Init::Rho(1.0), true, 40.0)
        }
        3 => {
            pert[I_H] = 1.3;
            pert[I_S] = 0.8;
            pert[I_U] = 1.2;
            pert[I_RHO] = 0.5;
            pert[I_T] = 1.1;
            (250.0, 1e-4, Init::Vapor, false, 700.0)
        }
        _ => {
            // negative pressure at a supercritical temperature: p(rho) = p has no root at all
            pert[I_P] = -1.0;
            (480.0, 0.25, Init::None, d % 2 == 0, 1.0)
        }
    };
    EchoCase {
        model,
        present: 0,
        init,
        via_builder,
        t,
        f_eta,
        x,
        n,
        pert,
        inject: vec![],
    }
}

fn echo_items() -> Vec<EchoCase> {
    let mut v = vec![];
    for model in 0..2u8 {
        for mask in 0..1024u16 {
            // mask bits: T V rho rho_i N N_i x p C T0 ; C expands to h, s or u
            let base = mask & 0xff;
            let c = mask & 0x100 != 0;
            let t0 = mask & 0x200 != 0;
            let kinds: &[usize] = if c { &[I_H, I_S, I_U] } else { &[N_IN] };
            for &k in kinds {
                let mut present = base;
                if c {
                    present |= 1 << k;
                }
                if t0 {
                    present |= 1 << I_T0;
                }
                for d in 0..5 {
                    let mut e = echo_draw(model, d);
                    e.present = present;
                    v.push(e);
                }
                // single injections on the first draw
                for i in 0..N_IN {
                    if present & (1 << i) == 0 {
                        continue;
                    }
                    let mut kinds = vec![Inj::Nan, Inj::NegInf, Inj::Neg];
                    if matches!(i, I_T | I_V | I_N | I_NI) {
                        kinds.extend([Inj::PosInf, Inj::Zero, Inj::NegZero]);
                    }
                    if is_array(i) {
                        kinds.extend([Inj::Shorter, Inj::Longer]);
                    }
                    for kind in kinds {
                        let mut e = echo_draw(model, 0);
                        e.present = present;
                        e.via_builder = i % 2 == 0;
                        e.inject = vec![Inject {
                            input: i as u8,
                            kind,
                            elem: (i % 2) as u8,
                        }];
                        v.push(e);
                    }
                }
            }
        }
    }
    v
}

pub fn decode_echo(g: &mut Gen) -> EchoCase {
    let model = g.index(3) as u8;
    let nc = ECHO_MODELS[model as usize].len();
    // presence: each input with probability 0.3 (denser masks are almost always over-determined)
    let mut present = 0u16;
    for i in 0..N_IN {
        if g.bool(0.3) {
            present |= 1 << i;
        }
    }
    let t = g.range(150.0, 600.0);
    let u = g.unit();
    let f_eta = if g.bool(0.5) {
        0.55 + 0.37 * u
    } else {
        (1e-6f64.ln() + u * (0.3f64.ln() - 1e-6f64.ln())).exp()
    };
    let x = g.simplex(nc, 1e-3);
    let n = g.log_range(1e-3, 1e3);
    let init = gen_init(g, 0.3, 3.0);
    let via_builder = g.bool(0.5);
    let pert = (0..N_IN)
        .map(|_| if g.bool(0.4) { g.log_range(0.5, 2.0) } else { 1.0 })
        .collect();
    let mut inject = vec![];
    for i in 0..N_IN {
        if present & (1 << i) != 0 && g.bool(0.1) {
            let kinds: &[Inj] = if is_array(i) {
                &[Inj::Nan, Inj::PosInf, Inj::NegInf, Inj::Neg, Inj::NegZero, Inj::Zero, Inj::Shorter, Inj::Longer]
            } else {
                &[Inj::Nan, Inj::PosInf, Inj::NegInf, Inj::Neg, Inj::NegZero, Inj::Zero]
            };
            inject.push(Inject {
                input: i as u8,
                kind: g.pick(kinds),
                elem: g.index(3) as u8,
            });
        }
    }
    EchoCase {
        model,
        present,
        init,
        via_builder,
        t,
        f_eta,
        x,
        n,
        pert,
        inject,
    }
}

// ---------------------------------------------------------------------------------------
// Parts
// ---------------------------------------------------------------------------------------
const PART_ECHO: PartCfg = PartCfg {
    name: "echo",
    genome_len: 64,
    cases_quick: 30_000,
    cases_thorough: 1_500_000,
    panic: PanicPolicy::Violation,
};
const PART_TP: PartCfg = PartCfg {
    name: "tp",
    genome_len: 96,
    cases_quick: 4_000,
    cases_thorough: 400_000,
    panic: PanicPolicy::Count,
};
const PART_GS_BOX: PartCfg = PartCfg {
    name: "gs-box",
    genome_len: 16,
    cases_quick: 12_000,
    cases_thorough: 600_000,
    panic: PanicPolicy::Violation,
};
const PART_ITER: PartCfg = PartCfg {
    name: "iter",
    genome_len: 110,
    cases_quick: 6_000,
    cases_thorough: 600_000,
    panic: PanicPolicy::Count,
};

pub fn run(ctx: &Ctx) {
    ctx.set_rule("gs-lattice (seed-independent): every record of gross2001/2002/2005_fit/2005_literature/2006 x 20 T/Tc in [0.45,1.65] x 30 p/pc (log) in [1e-4,10], three hints per case; non-trivial: the Vapor and Liquid hints found different roots (then the un-hinted result is compared with both by an independent Gibbs function) or the point is within 10 % of Tc and a factor 3 of pc. gs-box: sampled points of the same box (half of the sub-critical ones within a factor 3 of the saturation-pressure estimate). tp: proptest genomes -> model zoo (13 families, 1-3 components) x T/T* in [0.45,2] x p/p* log-uniform in [1e-4,1e2] x {None, Vapor, Liquid, InitialDensity(rho0 in [1e-7,1.05] max_density)}; oracle = independent scan of p(rho) (log+linear grid, ~500 points) with bisection; non-trivial: the scan finds both branches (pattern stable-unstable-stable), or within 10 % of T* and factor 3 of p*, or the initial density lies across the unstable root from the result. echo-lattice: all 2^10 presence masks of [T,V,rho,rho_i,N,N_i,x,p,caloric,T0] x caloric kind h/s/u x 4 value draws + every single injection of NaN/-inf/-|v| (all inputs), +inf/0/-0 (T,V,N,N_i), wrong array length, for a pure and a binary PC-SAFT model; echo: 12 independent presence bits (p=0.3), perturbed values, injections with p=0.1 per input, 1-3 components; non-trivial: >= 3 inputs present and a decisive outcome (required Err obtained, or Ok with all echo checks). iter: (p,h),(p,s),(T,h),(T,s),(V,u) targets from mechanically stable p>0 states of the model zoo with DIPPR ideal gas, all density initialisations, with/without initial temperature; non-trivial: a state was returned and compared. Distinct by hash of the canonical case JSON.");
    ctx.assume("pressure: |p(state)-p| <= 1e-7|p| + 1e-10 + 1e-12(rho T + sum_c|p_c|) in reduced units (K/A^3): 100 x the absolute stopping criterion of density_iteration (1e-12)");
    ctx.assume("caloric targets: |f(state)-f*| <= 100 |df/dx| (atol + 1e-10|x|) + 1e-12(|f*|+T), x = T (atol 1e-8 K) or rho (atol 1e-12 A^-3): the Newton wrappers return the previous iterate, whose residual is exactly df/dx times the accepted step; df/dx from the library's cp, cv, dp_dv, dp_dt (validated by C01)");
    ctx.assume("echo: T (always) and V (when supplied and read) bitwise; rho, rho_i, N, N_i, x/sum(x) and the mutual consistency of redundant fields to 5e-14 relative");
    ctx.assume("reference decision table from the doc comments of State::new/new_full and the error messages of State::_new; required Err only for: over-determined density/amount/composition, missing composition, fewer than two independent intensive specifications, wrong array length, non-finite or negative T/V/N that the selected method reads. Not asserted either way: zero values; invalid rho, rho_i, x, p, h, s, u, T0; a V that the documented hierarchy ignores ((p,h)/(p,s) with N given); physically determined but undocumented combinations (e.g. rho+h)");
    ctx.assume("Gibbs clause: g/k = a_res + T ln rho + p/rho evaluated by the harness; asserted for root patterns S and SUS only, ties within 1e-9 T; branch clause asserted for pattern SUS only; roots above max_density are not searched; pressure and A_res getters trusted (C01)");
    ctx.assume("success box: T_c, p_c from State::critical_point of the record's own PC-SAFT model");

    // calibration aid: VERIF_C03_SCALE=20 multiplies the sampled case counts of the tier
    let scale: u32 = std::env::var("VERIF_C03_SCALE").ok().and_then(|s| s.parse().ok()).unwrap_or(1);
    let scaled = |c: &PartCfg| PartCfg {
        name: c.name,
        genome_len: c.genome_len,
        cases_quick: c.cases_quick * scale,
        cases_thorough: c.cases_thorough * scale,
        panic: c.panic,
    };
    let (part_echo, part_gs_box, part_tp, part_iter) =
        (scaled(&PART_ECHO), scaled(&PART_GS_BOX), scaled(&PART_TP), scaled(&PART_ITER));
    // development aid: VERIF_C03_PARTS=tp,iter restricts the run to the listed parts
    let only = std::env::var("VERIF_C03_PARTS").ok();
    let on = |name: &str| only.as_ref().is_none_or(|l| l.split(',').any(|p| p == name));
    // --- success lattice ---
    if on("gs-lattice") {
        let items = gs_items();
        ctx.extra("gs_records", json!(items.len() / (GS_NT * GS_NP)));
        ctx.extra("gs_constructions", json!(items.len() * 3));
        ctx.run_lattice("gs-lattice", items, PanicPolicy::Violation, false, &check_gs);
    }
    // --- echo lattice ---
    if on("echo-lattice") {
        let items = echo_items();
        ctx.run_lattice("echo-lattice", items, PanicPolicy::Violation, true, &check_echo);
    }
    // --- sampled parts ---
    if on("echo") {
        ctx.run_sampled(&part_echo, &decode_echo, &check_echo);
    }
    if on("gs-box") {
        ctx.run_sampled(&part_gs_box, &decode_gs_box, &check_tp);
    }
    if on("tp") {
        ctx.run_sampled(&part_tp, &decode_tp, &check_tp);
    }
    if on("iter") {
        ctx.run_sampled(&part_iter, &decode_iter, &check_iter);
    }

    let worst: BTreeMap<String, Value> = WORST
        .lock()
        .unwrap()
        .iter()
        .map(|(k, (r, w))| (k.clone(), json!({"worst_ratio_to_tolerance": r, "at": w})))
        .collect();
    ctx.extra("worst_ratios", json!(worst));
}

pub fn replay(ctx: &Ctx, part: &str, case: &Value) -> bool {
    match part {
        "gs-lattice" => ctx.replay_case::<GsCase>(case, &check_gs),
        "echo-lattice" | "echo" => ctx.replay_case::<EchoCase>(case, &check_echo),
        "gs-box" | "tp" => ctx.replay_case::<TpCase>(case, &check_tp),
        "iter" => ctx.replay_case::<IterCase>(case, &check_iter),
        other => {
            eprintln!("C03: unknown part {other}");
            std::process::exit(2);
        }
    }
}
