//! C04 — pure-component phase equilibria satisfy the equilibrium conditions and are found.
//!
//! Parts
//! * `lattice`  (exhaustive, seed independent): every pure record of the shipped PC-SAFT,
//!   SAFT-VR Mie and SAFT-VRQ Mie collections x 8 reduced temperatures of *that model's*
//!   critical temperature; success demanded, conditions + T -> p -> T' -> p' round trip.
//! * `sampled`  the same records at random T/Tc, random solver options, T- or p-specification.
//! * `diagram`  `PhaseDiagram::pure` with npoints in [3,200]: completeness, strict monotonicity,
//!   critical point last, every state an equilibrium at the expected temperature.
//! * `mixture`  `vapor_pressure` / `boiling_temperature` / `vle_pure_comps` of mixture models
//!   against the pure model built directly from the record.
//! * `random`   random Peng-Robinson / PeTS / uv-theory records: conditions whenever `Ok`,
//!   failures only counted.
use crate::engine::{Ctx, Gen, Obs, PanicPolicy, PartCfg};
use crate::model::*;
use crate::scales::{contrib_abs, PD};
use feos::core::Derivative::DV;
use feos::core::{
    Contributions, EosError, PhaseDiagram, PhaseEquilibrium, ReferenceSystem, SolverOptions, State,
};
use quantity::*;
use serde::{Deserialize, Serialize};
use serde_json::{json, Value};
use std::collections::HashMap;
use std::sync::{Arc, LazyLock, Mutex};

pub type Vle = PhaseEquilibrium<Model, 2>;

// ---------------------------------------------------------------------------------------
// Tolerances (reduced units; reasons in `run`)
// ---------------------------------------------------------------------------------------
/// |p_v - p_l| <= TOL_EQ * p + ATOL_P * (rho_l T + sum_c |dA_c/dV|)   (fresh states)
/// |mu_v - mu_l| <= TOL_EQ * T
pub const TOL_EQ: f64 = 2e-6;
pub const ATOL_P: f64 = 2e-10;
/// T -> p -> T' and p -> T -> p' round trips
pub const TOL_RT: f64 = 1e-7;
/// mixture-model convenience functions against the pure model
pub const TOL_SAME: f64 = 1e-10;

// ---------------------------------------------------------------------------------------
// The stated success domain: shipped records
// ---------------------------------------------------------------------------------------
pub struct PoolRec {
    pub family: Family,
    pub file: &'static str,
    pub rec: Value,
}

/// Every pure record of parameters/pcsaft/*.json (pure-record files only; segment, binary and
/// substance-list files have no pure records; the emptied rehner2023_binary.json is excluded
/// by name through `PCSAFT_FILES`), saftvrmie/lafitte2013.json and saftvrqmie/*.json, in
/// shrink order (methane of gross2001 first).
pub static DOMAIN_POOL: LazyLock<Vec<PoolRec>> = LazyLock::new(|| {
    let mut v = vec![];
    for (f, recs) in &POOLS.pcsaft {
        for r in recs {
            v.push(PoolRec { family: Family::PcSaft, file: f, rec: r.clone() });
        }
    }
    for r in &POOLS.vrmie {
        v.push(PoolRec { family: Family::SaftVRMie, file: "lafitte2013.json", rec: r.clone() });
    }
    for (f, recs) in &POOLS.vrq {
        for r in recs {
            v.push(PoolRec { family: Family::SaftVRQMie, file: f, rec: r.clone() });
        }
    }
    v
});

pub fn pure_spec(p: &PoolRec) -> ModelSpec {
    ModelSpec {
        family: p.family,
        pure: vec![p.rec.clone()],
        binary: vec![],
        seg: None,
        opts: Opts::default(),
        source: format!("shipped:{}", p.file),
    }
}

pub fn rec_name(rec: &Value) -> String {
    let id = &rec["identifier"];
    id["name"]
        .as_str()
        .or(id["iupac_name"].as_str())
        .or(id["cas"].as_str())
        .unwrap_or("?")
        .to_string()
}

/// helium with the second-order Feynman-Hibbs correction: excepted from the success clause
pub fn is_helium_fh2(rec: &Value) -> bool {
    let fh2 = rec["model_record"]["fh"].as_u64() == Some(2) || rec["model_record"]["fh"].as_f64() == Some(2.0);
    fh2 && (rec_name(rec).to_lowercase().contains("helium") || rec["identifier"]["cas"].as_str() == Some("7440-59-7"))
}

/// Is pure component i of the spec inside the domain for which the property demands success?
pub fn in_success_domain(spec: &ModelSpec, i: usize) -> bool {
    spec.source.starts_with("shipped:")
        && spec.opts == Opts::default()
        && match spec.family {
            Family::PcSaft | Family::SaftVRMie => true,
            Family::SaftVRQMie => !is_helium_fh2(&spec.pure[i]),
            _ => false,
        }
}

/// lower end of the reduced-temperature range of the success clause
pub fn tr_min(spec: &ModelSpec) -> f64 {
    if spec.family == Family::SaftVRQMie {
        0.6
    } else {
        0.45
    }
}

// ---------------------------------------------------------------------------------------
// Known finding C04/pure-t-newton-overshoot.
// On the unchanged tree `PhaseEquilibrium::pure(T)` fails at a thin set of (record, T) inside
// the stated success domain (scan of all 2 191 records with step 5e-4 in T/Tc: 10 records,
// 300 of 2.3e6 points): both the ideal-gas and the spinodal start end in the unguarded density
// Newton step of `iterate_pure_t` (vle_pure.rs:124-128) stepping to a negative density
// (`State::new_pure` -> `InvalidState("validate", "volume", < 0)`) or in the NaN brake
// (`IterationFailed("pure_t")`, vle_pure.rs:119-122); the error of the last stage is returned.
// Signature predicate: the error variant names that call site. The lattice is keyed exactly
// (record, T/Tc), so any other failing lattice point is a violation whatever its variant.
// ---------------------------------------------------------------------------------------
pub struct Island {
    pub file: &'static str,
    pub name: &'static str,
    pub lo: f64,
    pub hi: f64,
}

/// failing points of the seed-independent lattice on the unchanged tree
pub const LATTICE_KNOWN: &[Island] = &[Island { file: "lafitte2013.json", name: "toluene", lo: 0.99, hi: 0.99 }];
/// windows with a failure of another variant (TrivialSolution: the spinodal start converges to
/// two identical phases) next to overshoot failures of the same record
pub const WINDOWS_KNOWN: &[Island] = &[Island { file: "esper2023.json", name: "2-methylhexanoic acid", lo: 0.93, hi: 0.98 }];

fn in_table(t: &[Island], spec: &ModelSpec, i: usize, tr: f64) -> bool {
    let name = rec_name(&spec.pure[i]);
    t.iter()
        .any(|k| spec.source == format!("shipped:{}", k.file) && k.name == name && tr >= k.lo - 1e-9 && tr <= k.hi + 1e-9)
}

/// signature predicate of C04/pure-t-newton-overshoot for a failed `pure(T)` of component i
pub fn known_overshoot(spec: &ModelSpec, i: usize, tr: f64, e: &EosError, lattice: bool) -> bool {
    if lattice {
        return in_table(LATTICE_KNOWN, spec, i, tr);
    }
    let site = match e {
        EosError::InvalidState(f, what, v) => f == "validate" && what == "volume" && *v < 0.0,
        EosError::IterationFailed(s) => s == "pure_t",
        _ => false,
    };
    site || in_table(WINDOWS_KNOWN, spec, i, tr)
}

// ---------------------------------------------------------------------------------------
// Critical point of *that model* (cached; a pure function of the spec)
// ---------------------------------------------------------------------------------------
#[derive(Clone, Copy, Debug)]
pub struct Crit {
    pub t: f64,
    pub p: f64,
    pub rho: f64,
    /// initial temperature (K) that had to be passed to `State::critical_point` (None: default)
    pub init: Option<f64>,
    /// the default call (no initial temperature) converged to a stationary point with p <= 0
    pub default_spurious: Option<(f64, f64)>,
}

static CRIT_CACHE: LazyLock<Mutex<HashMap<String, Option<Crit>>>> = LazyLock::new(|| Mutex::new(HashMap::new()));

fn crit_of(model: &Arc<Model>, init: Option<f64>) -> Option<Crit> {
    let s = State::critical_point(model, None, init.map(|t| t * KELVIN), SolverOptions::default()).ok()?;
    let c = Crit {
        t: s.temperature.to_reduced(),
        p: s.pressure(Contributions::Total).to_reduced(),
        rho: s.density.to_reduced(),
        init,
        default_spurious: None,
    };
    (c.t.is_finite() && c.t > 0.0 && c.rho.is_finite() && c.rho > 0.0 && c.p.is_finite()).then_some(c)
}

/// Critical point of a pure model, reduced units: `State::critical_point(model, None, None,
/// default)` as used by `PhaseDiagram::pure`. A stationary point with p_c <= 0 is not a
/// vapor-liquid critical point; then (and when the default call fails) the call is repeated
/// with initial temperatures 1.3 eps/k (1 + 0.1 (m-1)) x {1, 1.5, 2, 0.7, 3} and the first
/// result with p_c > 0 is used; `default_spurious` records what the default call returned.
pub fn critical(spec: &ModelSpec, model: &Arc<Model>) -> Option<Crit> {
    let key = format!("{:?}|{}|{:?}", spec.family, spec.pure[0], spec.opts);
    if let Some(c) = CRIT_CACHE.lock().unwrap().get(&key) {
        return *c;
    }
    let d = crit_of(model, None);
    let c = match d {
        Some(c) if c.p > 0.0 => Some(c),
        _ => {
            let mr = &spec.pure[0]["model_record"];
            let fb = match spec.family {
                Family::PengRobinson => mr["tc"].as_f64().unwrap_or(300.0),
                _ => 1.3 * mr["epsilon_k"].as_f64().unwrap_or(250.0) * (1.0 + 0.1 * (mr["m"].as_f64().unwrap_or(1.0) - 1.0)),
            };
            [1.0, 1.5, 2.0, 0.7, 3.0]
                .iter()
                .find_map(|f| crit_of(model, Some(f * fb)).filter(|c| c.p > 0.0))
                .map(|mut c| {
                    c.default_spurious = d.map(|d| (d.t, d.p));
                    c
                })
        }
    };
    CRIT_CACHE.lock().unwrap().insert(key, c);
    c
}

// ---------------------------------------------------------------------------------------
// Solver options
// ---------------------------------------------------------------------------------------
#[derive(Serialize, Deserialize, Clone, Copy, Debug, PartialEq)]
pub struct Opt {
    pub max_iter: Option<usize>,
    pub tol: Option<f64>,
}

impl Opt {
    pub const DEFAULT: Opt = Opt { max_iter: None, tol: None };
    pub fn solver(&self) -> SolverOptions {
        let mut o = SolverOptions::default();
        if let Some(m) = self.max_iter {
            o = o.max_iter(m);
        }
        if let Some(t) = self.tol {
            o = o.tol(t);
        }
        o
    }
    pub fn is_default(&self) -> bool {
        *self == Opt::DEFAULT
    }
    /// at least as generous as the defaults of `pure` (50 iterations, 1e-12)?
    pub fn at_least_default(&self) -> bool {
        self.max_iter.map_or(true, |m| m >= 50) && self.tol.map_or(true, |t| t >= 1e-12)
    }
    /// tolerance of the equilibrium conditions: TOL_EQ with the default solver tolerance (or a
    /// tighter one), 2e4 x the solver tolerance for looser ones. The stopping rule of pure_t /
    /// pure_p bounds the last pressure (temperature) update, not the residual: the densities are
    /// one Newton step behind, so the residual is the square of the last density correction.
    pub fn tol_eq(&self) -> f64 {
        TOL_EQ.max(2e4 * self.tol.unwrap_or(1e-12))
    }
    /// the solver tolerance is the default or tighter
    pub fn default_tol(&self) -> bool {
        self.tol.map_or(true, |t| t <= 1e-12)
    }
}

/// gene 0 => defaults
pub fn gen_opt(g: &mut Gen) -> Opt {
    let max_iter = if g.bool(0.5) { Some(g.int(20, 200) as usize) } else { None };
    let tol = if g.bool(0.5) { Some(g.log_range(1e-13, 1e-9)) } else { None };
    Opt { max_iter, tol }
}

pub fn err_kind(e: &EosError) -> String {
    let d = format!("{e:?}");
    let head: String = d.split('(').next().unwrap_or("").chars().take(24).collect();
    match e {
        EosError::NotConverged(s) | EosError::IterationFailed(s) => format!("{head}({})", s.chars().take(24).collect::<String>()),
        _ => head,
    }
}

// ---------------------------------------------------------------------------------------
// Oracle for one returned equilibrium
// ---------------------------------------------------------------------------------------
#[derive(Clone, Copy, Debug)]
pub struct VleVals {
    pub t: f64,
    pub p: f64,
    pub rho_v: f64,
    pub rho_l: f64,
    /// |mu_v - mu_l| / RT of the fresh states (0 if not computed)
    pub dmu: f64,
}

pub fn vle_vals(vle: &Vle) -> VleVals {
    VleVals {
        t: vle.vapor().temperature.to_reduced(),
        p: vle.vapor().pressure(Contributions::Total).to_reduced(),
        rho_v: vle.vapor().density.to_reduced(),
        rho_l: vle.liquid().density.to_reduced(),
        dmu: 0.0,
    }
}

/// Equilibrium conditions recomputed from public getters on *fresh* states at the returned
/// (T, V, N) of each phase. Returns the recomputed (T, p_v, rho_v, rho_l).
pub fn check_conditions(obs: &mut Obs, what: &str, model: &Arc<Model>, vle: &Vle, tol_eq: f64) -> Option<VleVals> {
    let (v, l) = (vle.vapor(), vle.liquid());
    let tv = v.temperature.to_reduced();
    let tl = l.temperature.to_reduced();
    obs.ensure(tv.to_bits() == tl.to_bits(), || format!("{what}: phases at different temperatures {tv:e} vs {tl:e}"));
    let fv = State::new_nvt(model, v.temperature, v.volume, &v.moles);
    let fl = State::new_nvt(model, l.temperature, l.volume, &l.moles);
    let (fv, fl) = match (fv, fl) {
        (Ok(a), Ok(b)) => (a, b),
        _ => {
            obs.fail(format!("{what}: returned phases cannot be rebuilt with State::new_nvt"));
            return None;
        }
    };
    let rho_v = fv.density.to_reduced();
    let rho_l = fl.density.to_reduced();
    // (a collapsed pair is judged by `check_collapsed`, whatever its order)
    if (rho_l / rho_v - 1.0).abs() >= 1e-2 {
        obs.ensure(rho_v < rho_l, || format!("{what}: vapor not less dense than liquid: {rho_v:e} vs {rho_l:e}"));
    }
    let p_v = fv.pressure(Contributions::Total).to_reduced();
    let p_l = fl.pressure(Contributions::Total).to_reduced();
    // the liquid pressure is a difference of O(rho T) terms: absolute floor from their size
    let floor = ATOL_P * (rho_l * tl + contrib_abs(&fl, PD::First(DV)));
    obs.comparisons += 1;
    WORST.see("|p_v-p_l| / allowed", (p_v - p_l).abs() / (tol_eq * p_v.abs().max(p_l.abs()) + floor));
    WORST.see("|p_v-p_l| / (rho_l T + sum|dA_c/dV|)", (p_v - p_l).abs() / (floor / ATOL_P));
    if !((p_v - p_l).abs() <= tol_eq * p_v.abs().max(p_l.abs()) + floor) {
        obs.fail(format!(
            "{what}: pressures differ: p_v {p_v:e} vs p_l {p_l:e} (diff {:e}, rtol {tol_eq:e}, floor {floor:e}) at T={tv}",
            (p_v - p_l).abs()
        ));
    }
    let mu_v = fv.residual_chemical_potential().to_reduced()[0] + tv * rho_v.ln();
    let mu_l = fl.residual_chemical_potential().to_reduced()[0] + tl * rho_l.ln();
    obs.comparisons += 1;
    WORST.see("|mu_v-mu_l|/RT / allowed", (mu_v - mu_l).abs() / tv / tol_eq);
    if tol_eq == TOL_EQ {
        WORST.see("|mu_v-mu_l|/RT (solver tol <= 1e-10, T <= 0.99 Tc)", (mu_v - mu_l).abs() / tv);
    } else {
        WORST.see("|mu_v-mu_l|/RT (looser solver tol or T > 0.99 Tc)", (mu_v - mu_l).abs() / tv);
    }
    if !((mu_v - mu_l).abs() <= tol_eq * tv) {
        obs.fail(format!(
            "{what}: chemical potentials differ: (mu_v - mu_l)/RT = {:e} (tol {tol_eq:e}) at T={tv}",
            (mu_v - mu_l) / tv
        ));
    }
    // the library's own cached numbers agree with the fresh ones
    obs.close(&format!("{what}: stored vapor pressure vs fresh"), v.pressure(Contributions::Total).to_reduced(), p_v, 1e-12, 1e-14 * rho_v * tv);
    Some(VleVals { t: tv, p: p_v, rho_v, rho_l, dmu: (mu_v - mu_l).abs() / tv })
}

/// Known finding C04/pure-collapsed-solution: a returned "equilibrium" whose two phases are
/// (nearly) the same state. Below 0.99 T_c the coexisting densities differ by > 30 %; a
/// relative difference below 1e-2 means the iteration collapsed onto one root and stopped on its
/// own criterion (|dp| < tol p in pure_t, |dT| < tol T in pure_p) before the trivial-solution
/// test (relative density difference < 1e-5, mod.rs:201-224) could fire.
/// Signature: the returned densities differ by less than 1e-2 relative (either order). On the
/// seed-independent lattice the signature is not accepted (no lattice point collapses).
pub fn collapsed(v: &VleVals) -> bool {
    (v.rho_l / v.rho_v - 1.0).abs() < 1e-2
}

/// Returns true (and records the finding or the failure) if the result is collapsed.
pub fn check_collapsed(obs: &mut Obs, what: &str, v: &VleVals, opt: &Opt, tr: f64, lattice: bool) -> bool {
    if !collapsed(v) {
        return false;
    }
    obs.class("collapsed (near-trivial) solution returned as Ok");
    let msg = format!(
        "{what} returned Ok with two copies of one phase: rho_v = {:e}, rho_l = {:e} (ratio - 1 = {:e}) at T = {} K (T/Tc = {tr}), p = {:e}, solver tol = {:?}",
        v.rho_v,
        v.rho_l,
        v.rho_l / v.rho_v - 1.0,
        v.t,
        v.p,
        opt.tol
    );
    if !lattice && tr <= 0.99 + 1e-12 {
        obs.known_or_fail("C04/pure-collapsed-solution", msg);
    } else {
        obs.fail(msg);
    }
    true
}

pub fn tr_class(tr: f64) -> &'static str {
    if tr <= 0.5 {
        "Tr<=0.5"
    } else if tr < 0.7 {
        "Tr 0.5-0.7"
    } else if tr < 0.9 {
        "Tr 0.7-0.9"
    } else if tr <= 0.99 {
        "Tr 0.9-0.99"
    } else {
        "Tr>0.99"
    }
}

fn model_classes(obs: &mut Obs, spec: &ModelSpec) {
    obs.class(spec.label());
    obs.class(format!("source:{}", spec.source));
    if spec.has_association() {
        obs.class("assoc");
    }
    if spec.has_polar() {
        obs.class("polar");
    }
    if !spec.has_association() && !spec.has_polar() {
        obs.class("non-assoc non-polar");
    }
    if spec.family == Family::UVTheory {
        obs.class(format!("uv-perturbation:{}", spec.opts.perturbation));
    }
}

/// the worst deviations seen, for calibration (printed into the evidence)
#[derive(Default)]
struct Worst {
    v: Mutex<std::collections::BTreeMap<&'static str, f64>>,
}
impl Worst {
    fn see(&self, k: &'static str, x: f64) {
        if x.is_finite() {
            let mut m = self.v.lock().unwrap();
            let e = m.entry(k).or_insert(0.0);
            if x > *e {
                *e = x;
            }
        }
    }
}
static WORST: LazyLock<Worst> = LazyLock::new(Worst::default);

// ---------------------------------------------------------------------------------------
// Part 1/2/5: one solve (lattice, sampled, random share the check)
// ---------------------------------------------------------------------------------------
#[derive(Serialize, Deserialize, Clone, Debug)]
pub struct SCase {
    pub spec: ModelSpec,
    /// T / T_c of that model
    pub tr: f64,
    pub opt: Opt,
    /// specify the pressure (taken from the T-solve) instead of the temperature
    pub pspec: bool,
    /// a point of the seed-independent lattice (known failures are keyed exactly there)
    #[serde(default)]
    pub lattice: bool,
}

pub const TRS: [f64; 8] = [0.45, 0.5, 0.6, 0.7, 0.8, 0.9, 0.95, 0.99];
pub const TRS_Q: [f64; 8] = [0.6, 0.65, 0.7, 0.8, 0.9, 0.95, 0.97, 0.99];

fn lattice_items() -> Vec<SCase> {
    let mut v = vec![];
    for p in DOMAIN_POOL.iter() {
        let spec = pure_spec(p);
        let trs = if spec.family == Family::SaftVRQMie { TRS_Q } else { TRS };
        for tr in trs {
            v.push(SCase { spec: spec.clone(), tr, opt: Opt::DEFAULT, pspec: false, lattice: true });
        }
    }
    v
}

fn decode_sampled(g: &mut Gen) -> SCase {
    let p = &DOMAIN_POOL[pool_index(g)];
    let spec = pure_spec(p);
    let tr = g.range(tr_min(&spec), 0.99);
    let opt = gen_opt(g);
    let pspec = g.bool(0.4);
    SCase { spec, tr, opt, pspec, lattice: false }
}

/// index into DOMAIN_POOL: half of the draws weight the files equally (esper2023 alone holds
/// 85 % of the records), half are uniform over records. Monotone in the genes.
pub fn pool_index(g: &mut Gen) -> usize {
    let n = DOMAIN_POOL.len();
    if g.bool(0.5) {
        return g.index(n);
    }
    // file boundaries
    let mut starts = vec![0usize];
    for i in 1..n {
        if DOMAIN_POOL[i].file != DOMAIN_POOL[i - 1].file {
            starts.push(i);
        }
    }
    starts.push(n);
    let f = g.index(starts.len() - 1);
    starts[f] + g.index(starts[f + 1] - starts[f])
}

fn decode_random(g: &mut Gen) -> SCase {
    let cfg = GenCfg {
        // exactly the families of the quantifier (random PC-SAFT / SAFT-VR Mie records have spurious
        // low-temperature critical points and coexistence branches; they are not part of it)
        families: vec![Family::PengRobinson, Family::Pets, Family::UVTheory],
        min_comp: 1,
        max_comp: 1,
    };
    let spec = gen_model(g, &cfg);
    let tr = g.range(0.45, 0.99);
    let opt = gen_opt(g);
    let pspec = g.bool(0.4);
    SCase { spec, tr, opt, pspec, lattice: false }
}

fn check_solve(case: &SCase, obs: &mut Obs) {
    let spec = &case.spec;
    model_classes(obs, spec);
    obs.class(tr_class(case.tr));
    let demanded_model = in_success_domain(spec, 0);
    let in_range = case.tr >= tr_min(spec) - 1e-12 && case.tr <= 0.99 + 1e-12;
    obs.class(if demanded_model { "success demanded (model)" } else { "conditions-only model" });
    let model = match spec.build() {
        Ok(m) => m,
        Err(e) => {
            if demanded_model {
                obs.fail(format!("shipped record does not build: {e}"));
            } else {
                obs.discard(format!("build:{}", e.chars().take(40).collect::<String>()));
            }
            return;
        }
    };
    let Some(c) = critical(spec, &model) else {
        if demanded_model {
            obs.fail("State::critical_point fails for a shipped record: no pure phase diagram can be built".to_string());
        } else {
            obs.discard(format!("no critical point:{}", spec.label()));
        }
        return;
    };
    let t = case.tr * c.t * KELVIN;
    // the defining T-solve (default options, no guess); it also provides p for the p-specification
    let opt_t = if case.pspec { Opt::DEFAULT } else { case.opt };
    let demanded = demanded_model && in_range && opt_t.at_least_default();
    obs.class(if opt_t.is_default() { "options:default" } else { "options:non-default" });
    if !opt_t.at_least_default() {
        obs.class("options tighter than default (conditions only)");
    }
    let r = Vle::pure(&model, t, None, opt_t.solver());
    let vle = match r {
        Err(e) => {
            let k = err_kind(&e);
            obs.class(format!("pure_t:Err:{k}"));
            if demanded_model && in_range {
                obs.class(format!("pure_t FAILED in range: {} {} @ {}", spec.source, rec_name(&spec.pure[0]), tr_class(case.tr)));
            }
            if demanded {
                let msg = format!(
                    "PhaseEquilibrium::pure(T) failed inside the stated domain: {} ({}) T/Tc={} Tc={} K: {e}",
                    rec_name(&spec.pure[0]),
                    spec.source,
                    case.tr,
                    c.t
                );
                if known_overshoot(spec, 0, case.tr, &e, case.lattice) {
                    obs.known_or_fail("C04/pure-t-newton-overshoot", msg);
                } else {
                    obs.fail(msg);
                }
            }
            return;
        }
        Ok(v) => v,
    };
    obs.class("pure_t:Ok");
    // T specification is met bitwise by both phases
    obs.ensure(vle.vapor().temperature == t && vle.liquid().temperature == t, || {
        format!("T-specification not met bitwise: {} / {} vs {}", vle.vapor().temperature, vle.liquid().temperature, t)
    });
    let Some(v0) = check_conditions(obs, "pure(T)", &model, &vle, opt_t.tol_eq()) else { return };
    if check_collapsed(obs, "pure(T)", &v0, &opt_t, case.tr, case.lattice) {
        return;
    }
    if demanded_model {
        // consequences of the diagram clause (T, p, rho_v rise and rho_l falls up to the critical point)
        obs.ensure(v0.rho_v < c.rho && c.rho < v0.rho_l, || {
            format!("critical density {} not between the coexisting densities {} / {}", c.rho, v0.rho_v, v0.rho_l)
        });
        obs.ensure(v0.p < c.p && v0.p > 0.0, || format!("vapor pressure {} not in (0, p_c = {})", v0.p, c.p));
    } else if !(v0.rho_v < c.rho && c.rho < v0.rho_l && v0.p < c.p) {
        obs.class("random record: critical point not above the coexistence point");
    }

    // p-specification with the resulting pressure: mutually inverse
    let opt_p = if case.pspec { case.opt } else { Opt::DEFAULT };
    let p = vle.vapor().pressure(Contributions::Total);
    match Vle::pure(&model, p, None, opt_p.solver()) {
        Err(e) => {
            obs.class(format!("pure_p:Err:{}", err_kind(&e)));
            if demanded_model {
                obs.class(format!("pure_p:Err in domain at {}", tr_class(case.tr)));
                obs.class(format!("pure_p FAILED: {} {} @ {} {}", spec.source, rec_name(&spec.pure[0]), tr_class(case.tr), err_kind(&e)));
            }
        }
        Ok(vp) => {
            obs.class("pure_p:Ok");
            let tol = opt_p.tol_eq();
            if let Some(v1) = check_conditions(obs, "pure(p)", &model, &vp, tol).filter(|v1| !check_collapsed(obs, "pure(p)", v1, &opt_p, v1.t / c.t, case.lattice)) {
                // both phases at the specified pressure
                let pr = p.to_reduced();
                let fl = State::new_nvt(&model, vp.liquid().temperature, vp.liquid().volume, &vp.liquid().moles).unwrap();
                let floor = ATOL_P * (v1.rho_l * v1.t + contrib_abs(&fl, PD::First(DV)));
                obs.close("pure(p): vapor pressure equals the specification", v1.p, pr, tol, 0.0);
                obs.close("pure(p): liquid pressure equals the specification", fl.pressure(Contributions::Total).to_reduced(), pr, tol, floor);
                // T -> p -> T'
                if v1.t < 0.9 * tr_min(spec) * c.t || v1.t > c.t {
                    // an equilibrium outside the temperature range of the quantifier: the models have
                    // further coexistence branches there (SAFT-VRQ Mie below 0.6 T_c, PC-SAFT
                    // liquid-liquid artefacts at low temperature); `mutually inverse` speaks about
                    // T in the range and the corresponding p
                    obs.class("pure(p) returned an equilibrium outside the temperature range (other branch)");
                    obs.inconclusive("pure(p) converged to a coexistence branch outside [T_min, T_c]");
                    return;
                }
                if !demanded_model && (v1.t - v0.t).abs() > 0.05 * v0.t {
                    // random records (SAFT-VR Mie, polar PC-SAFT) have spurious low-temperature
                    // critical points and a second coexistence branch at the same pressure
                    obs.class("random record: pure(p) found another coexistence branch");
                    return;
                }
                let rt = TOL_RT.max(2e3 * opt_p.tol.unwrap_or(0.0)).max(2e3 * opt_t.tol.unwrap_or(0.0));
                WORST.see("roundtrip |T'-T|/T / allowed", (v1.t - v0.t).abs() / v0.t / rt);
                if rt == TOL_RT {
                    WORST.see("roundtrip |T'-T|/T (solver tol <= 1e-10)", (v1.t - v0.t).abs() / v0.t);
                }
                WORST.see("roundtrip |rho'-rho|/rho / allowed", ((v1.rho_l - v0.rho_l).abs() / v0.rho_l).max((v1.rho_v - v0.rho_v).abs() / v0.rho_v) / (100.0 * rt));
                obs.close("round trip T -> p -> T'", v1.t, v0.t, rt, 0.0);
                obs.close("round trip: vapor density", v1.rho_v, v0.rho_v, 100.0 * rt, 0.0);
                obs.close("round trip: liquid density", v1.rho_l, v0.rho_l, 100.0 * rt, 0.0);
                // p -> T' -> p'
                let r2 = Vle::pure(&model, vp.vapor().temperature, None, opt_t.solver());
                if let (Err(e), true) = (&r2, demanded) {
                    let msg = format!("pure(T') failed at the temperature returned by pure(p): T' = {} (T/Tc = {}): {e}", vp.vapor().temperature, v1.t / c.t);
                    if known_overshoot(spec, 0, v1.t / c.t, e, case.lattice) {
                        obs.known_or_fail("C04/pure-t-newton-overshoot", msg);
                    } else {
                        obs.fail(msg);
                    }
                }
                if let Ok(v2) = r2 {
                    let p2 = v2.vapor().pressure(Contributions::Total).to_reduced();
                    if check_collapsed(obs, "pure(T')", &vle_vals(&v2), &opt_t, case.tr, case.lattice) {
                        return;
                    }
                    WORST.see("roundtrip |p'-p|/p / allowed", (p2 - pr).abs() / pr / (30.0 * rt));
                    obs.close("round trip p -> T' -> p'", p2, pr, 30.0 * rt, 0.0);
                }
            }
        }
    }
    let nontrivial = case.tr >= 0.9 || case.tr <= 0.5 || spec.has_association() || spec.has_polar() || !case.opt.is_default();
    if nontrivial {
        obs.nontrivial();
    }
}

// ---------------------------------------------------------------------------------------
// Part 3: PhaseDiagram::pure
// ---------------------------------------------------------------------------------------
#[derive(Serialize, Deserialize, Clone, Debug)]
pub struct DCase {
    pub spec: ModelSpec,
    pub npoints: usize,
    /// min_temperature / T_c
    pub tmin_r: f64,
    pub opt: Opt,
}

fn decode_diagram(g: &mut Gen) -> DCase {
    let p = &DOMAIN_POOL[pool_index(g)];
    let spec = pure_spec(p);
    // half of the diagrams small (3..=12 points: every index matters), half up to 200
    let npoints = if g.bool(0.5) { g.int(13, 200) as usize } else { g.int(3, 12) as usize };
    let tmin_r = g.range(tr_min(&spec), 0.9);
    let opt = gen_opt(g);
    DCase { spec, npoints, tmin_r, opt }
}

fn check_diagram(case: &DCase, obs: &mut Obs) {
    let spec = &case.spec;
    model_classes(obs, spec);
    let n = case.npoints;
    obs.class(if n <= 12 { "npoints 3-12" } else if n <= 60 { "npoints 13-60" } else { "npoints 61-200" });
    obs.class(if case.opt.is_default() { "options:default" } else { "options:non-default" });
    let demanded_model = in_success_domain(spec, 0);
    let model = match spec.build() {
        Ok(m) => m,
        Err(e) => {
            obs.fail(format!("shipped record does not build: {e}"));
            return;
        }
    };
    let Some(c) = critical(spec, &model) else {
        if demanded_model {
            obs.fail("State::critical_point fails for a shipped record".to_string());
        } else {
            obs.discard("no critical point");
        }
        return;
    };
    let tmin = case.tmin_r * c.t * KELVIN;
    // Known finding: with the default arguments State::critical_point converges to a stationary
    // point at negative pressure for some SAFT-VR Mie records; the diagram then ends in that state.
    // Signature: SAFT-VR Mie AND the default critical point has p_c <= 0. The clause "the last
    // state is the critical point / the curve rises up to it" is asserted on the default call and
    // routed to the finding; all other clauses run with the critical temperature passed as guess.
    let mut tc_guess = None;
    if let Some((ts, ps)) = c.default_spurious {
        obs.class("default critical point spurious (p_c <= 0)");
        let r = PhaseDiagram::pure(&model, tmin, n, None, case.opt.solver());
        let bad = match &r {
            Ok(d) => d.states.last().map_or(true, |l| l.vapor().pressure(Contributions::Total).to_reduced() <= 0.0),
            Err(_) => true,
        };
        if bad {
            let msg = format!(
                "PhaseDiagram::pure(.., critical_temperature = None) of {} ends in a state with p <= 0: State::critical_point converged to T = {ts} K, p = {ps:e} (genuine critical point at T = {} K, p = {:e})",
                rec_name(&spec.pure[0]),
                c.t,
                c.p
            );
            if spec.family == Family::SaftVRMie && ps <= 0.0 {
                obs.known_or_fail("C04/saftvrmie-spurious-critical-point", msg);
            } else if demanded_model {
                obs.fail(msg);
            }
        }
        tc_guess = c.init.map(|t| t * KELVIN);
    }
    let dia = match PhaseDiagram::pure(&model, tmin, n, tc_guess, case.opt.solver()) {
        Ok(d) => d,
        Err(e) => {
            if demanded_model {
                obs.fail(format!("PhaseDiagram::pure returned Err although the critical point exists: {e}"));
            } else {
                obs.class(format!("diagram:Err:{}", err_kind(&e)));
            }
            return;
        }
    };
    let states = &dia.states;
    // expected temperatures: the documented construction (npoints - 1 equidistant temperatures
    // from min_temperature towards T_c, the critical point as the last state)
    let tc = c.t * KELVIN;
    let tmax = tmin + (tc - tmin) * ((n - 2) as f64 / (n - 1) as f64);
    let expected = Temperature::linspace(tmin, tmax, n - 1);
    let expected: Vec<f64> = (0..n - 1).map(|i| expected.get(i).to_reduced()).collect();
    let n_in = expected.iter().filter(|&&t| t <= 0.99 * c.t).count();
    obs.class(if n_in == n - 1 { "all points <= 0.99 Tc" } else { "some points > 0.99 Tc" });
    obs.ensure(!states.is_empty() && states.len() <= n, || format!("diagram has {} states for npoints = {n}", states.len()));
    if states.is_empty() {
        return;
    }
    // last state: the critical point, both phases identical
    let last = states.last().unwrap();
    let lv = vle_vals(last);
    obs.ensure(lv.rho_v.to_bits() == lv.rho_l.to_bits(), || format!("last state is not a critical point: rho_v {} rho_l {}", lv.rho_v, lv.rho_l));
    obs.close("last state T equals State::critical_point", lv.t, c.t, 1e-12, 0.0);
    obs.close("last state rho equals State::critical_point", lv.rho_v, c.rho, 1e-12, 0.0);
    obs.close("last state p equals State::critical_point", lv.p, c.p, 1e-10, 0.0);
    // every returned sub-critical state sits at one of the expected temperatures, in order
    let sub = &states[..states.len() - 1];
    let mut k = 0usize; // cursor into expected
    let mut found = vec![false; n - 1];
    let mut prev: Option<VleVals> = None;
    let at_default = case.opt.at_least_default();
    for (i, s) in sub.iter().enumerate() {
        let ts = s.vapor().temperature.to_reduced();
        while k < n - 1 && (expected[k] - ts).abs() > 1e-12 * ts {
            k += 1;
        }
        if k == n - 1 {
            obs.fail(format!("state {i} at T = {ts} K is not one of the remaining grid temperatures (grid {:?})", &expected[..(n - 1).min(6)]));
            return;
        }
        found[k] = true;
        k += 1;
        // beyond 0.99 T_c (outside the success clause) the densities react to the pressure
        // criterion with 1/(dp/drho) -> infinity: ten times the tolerance
        let tol_i = if ts > 0.99 * c.t { 10.0 * case.opt.tol_eq() } else { case.opt.tol_eq() };
        let Some(v) = check_conditions(obs, &format!("diagram state {i}"), &model, s, tol_i) else { return };
        if check_collapsed(obs, &format!("diagram state {i}"), &v, &case.opt, v.t / c.t, false) {
            return;
        }
        if let Some(p) = prev {
            obs.ensure(v.t > p.t, || format!("temperature not strictly increasing at state {i}: {} after {}", v.t, p.t));
            obs.ensure(v.p > p.p, || format!("pressure not strictly increasing at state {i}: {:e} after {:e} (T {} after {})", v.p, p.p, v.t, p.t));
            obs.ensure(v.rho_v > p.rho_v, || format!("vapor density not strictly increasing at state {i}: {:e} after {:e} (T {} after {})", v.rho_v, p.rho_v, v.t, p.t));
            obs.ensure(v.rho_l < p.rho_l, || format!("liquid density not strictly decreasing at state {i}: {:e} after {:e} (T {} after {})", v.rho_l, p.rho_l, v.t, p.t));
        }
        prev = Some(v);
    }
    if let Some(p) = prev {
        obs.ensure(c.t > p.t && c.p > p.p, || format!("critical point (T {}, p {:e}) not above the last sub-critical state (T {}, p {:e})", c.t, c.p, p.t, p.p));
        obs.ensure(c.rho > p.rho_v && c.rho < p.rho_l, || format!("critical density {:e} not between the densities of the last sub-critical state {:e} / {:e}", c.rho, p.rho_v, p.rho_l));
    }
    // completeness: every grid temperature inside [tr_min, 0.99] T_c is present
    let mut missing_in = vec![];
    let mut missing_out = 0;
    for (i, f) in found.iter().enumerate() {
        if !*f {
            if expected[i] <= 0.99 * c.t {
                missing_in.push(i);
            } else {
                missing_out += 1;
            }
        }
    }
    if missing_out > 0 {
        obs.class("points above 0.99 Tc missing (outside the success clause)");
    }
    if n_in < n - 1 && missing_out == 0 {
        obs.class("points above 0.99 Tc all found");
    }
    if !missing_in.is_empty() {
        // a missing point is the known finding iff the stand-alone solve at that temperature
        // fails with the signature of the finding
        let all_known = missing_in.iter().all(|&i| {
            match Vle::pure(&model, expected[i] * KELVIN, None, case.opt.solver()) {
                Err(e) => known_overshoot(spec, 0, expected[i] / c.t, &e, false),
                Ok(_) => false,
            }
        });
        if demanded_model && at_default && all_known {
            obs.known_or_fail(
                "C04/pure-t-newton-overshoot",
                format!("diagram of {} with npoints = {n}: {} state(s) missing where the stand-alone solve fails with the known signature", rec_name(&spec.pure[0]), missing_in.len()),
            );
        } else if demanded_model && at_default {
            obs.fail(format!(
                "diagram of {} ({}) with npoints = {n}, T_min/T_c = {}: {} state(s) missing inside [.., 0.99] T_c: indices {:?} (T/Tc = {:?})",
                rec_name(&spec.pure[0]),
                spec.source,
                case.tmin_r,
                missing_in.len(),
                &missing_in[..missing_in.len().min(5)],
                missing_in.iter().take(5).map(|&i| expected[i] / c.t).collect::<Vec<_>>()
            ));
        } else {
            obs.class("points missing (conditions-only configuration)");
        }
    } else if missing_out == 0 {
        obs.ensure(states.len() == n, || format!("diagram has {} states for npoints = {n}", states.len()));
        obs.class("complete: n states for n points");
    }
    if sub.len() >= 2 {
        obs.nontrivial();
    }
}

// ---------------------------------------------------------------------------------------
// Part 4: vapor_pressure / boiling_temperature / vle_pure_comps of mixture models
// ---------------------------------------------------------------------------------------
#[derive(Serialize, Deserialize, Clone, Debug)]
pub struct MCase {
    pub spec: ModelSpec,
    /// component whose critical temperature sets the temperature
    pub ci: usize,
    pub tr: f64,
}

fn decode_mixture(g: &mut Gen) -> MCase {
    let fam = g.pick(&[Family::PcSaft, Family::SaftVRMie, Family::SaftVRQMie]);
    let n = 2 + g.index(2);
    let idx: Vec<usize> = (0..DOMAIN_POOL.len()).filter(|&i| DOMAIN_POOL[i].family == fam).collect();
    let mut pure = vec![];
    let mut file = "";
    let mut tries = 0;
    while pure.len() < n {
        // first record fixes the file (SAFT-VRQ Mie: FH orders of different files cannot be combined);
        let cand: Vec<usize> = if file.is_empty() || fam != Family::SaftVRQMie {
            idx.clone()
        } else {
            idx.iter().copied().filter(|&i| DOMAIN_POOL[i].file == file).collect()
        };
        let p = &DOMAIN_POOL[cand[g.index(cand.len())]];
        tries += 1;
        // distinct records (tries bounded: an exhausted genome keeps returning index 0)
        if pure.iter().any(|r: &Value| r["identifier"] == p.rec["identifier"]) && tries < 12 {
            continue;
        }
        if file.is_empty() {
            file = p.file;
        }
        pure.push(p.rec.clone());
    }
    let mut binary = vec![];
    for i in 0..n {
        for j in i + 1..n {
            if g.bool(0.5) {
                let k = g.range(-0.1, 0.1);
                binary.push((i, j, json!({"k_ij": k})));
            }
        }
    }
    let spec = ModelSpec { family: fam, pure, binary, seg: None, opts: Opts::default(), source: format!("shipped:{file}") };
    let ci = g.index(n);
    let tr = g.range(tr_min(&spec), 0.99);
    MCase { spec, ci, tr }
}

fn same_opt(obs: &mut Obs, what: &str, a: Option<f64>, b: Option<f64>) {
    match (a, b) {
        (Some(x), Some(y)) => {
            obs.close(what, x, y, TOL_SAME, 0.0);
        }
        (None, None) => obs.count(),
        _ => obs.fail(format!("{what}: mixture function gives {a:?}, the pure model gives {b:?}")),
    }
}

fn check_mixture(case: &MCase, obs: &mut Obs) {
    let spec = &case.spec;
    model_classes(obs, spec);
    let n = spec.n();
    obs.class(format!("n={n}"));
    let mix = match spec.build() {
        Ok(m) => m,
        Err(e) => {
            obs.discard(format!("build:{}", e.chars().take(60).collect::<String>()));
            return;
        }
    };
    let pures: Vec<(ModelSpec, Arc<Model>)> = (0..n)
        .map(|i| {
            let s = spec.subset(&[i]);
            let m = s.build().expect("pure model of a shipped record builds");
            (s, m)
        })
        .collect();
    let Some(cc) = critical(&pures[case.ci].0, &pures[case.ci].1) else {
        obs.fail("State::critical_point fails for a shipped record".to_string());
        return;
    };
    let t = case.tr * cc.t * KELVIN;
    let tr_of = |i: usize| critical(&pures[i].0, &pures[i].1).map(|c| t.to_reduced() / c.t);
    // --- vapor_pressure ---
    let pv = Vle::vapor_pressure(&mix, t);
    obs.ensure(pv.len() == n, || format!("vapor_pressure returned {} entries for {n} components", pv.len()));
    let mut p_ci = None;
    let mut n_sub = 0;
    for i in 0..n {
        let direct_r = Vle::pure(&pures[i].1, t, None, SolverOptions::default());
        let direct_err = direct_r.as_ref().err().map(|e| known_overshoot(&pures[i].0, 0, tr_of(i).unwrap_or(0.0), e, false));
        let direct = direct_r.ok();
        same_opt(
            obs,
            &format!("vapor_pressure[{i}] vs pure model"),
            pv[i].map(|p| p.to_reduced()),
            direct.as_ref().map(|v| v.vapor().pressure(Contributions::Total).to_reduced()),
        );
        let tri = tr_of(i);
        let inside = tri.map_or(false, |x| x >= tr_min(&pures[i].0) && x <= 0.99) && in_success_domain(&pures[i].0, 0);
        if inside {
            n_sub += 1;
            obs.count();
            if pv[i].is_none() {
                let msg = format!("vapor_pressure[{i}] is None at T/Tc_i = {:?} ({})", tri, rec_name(&spec.pure[i]));
                if direct_err == Some(true) {
                    obs.known_or_fail("C04/pure-t-newton-overshoot", msg);
                } else {
                    obs.fail(msg);
                }
            }
        }
        obs.class(match tri {
            Some(x) if x < 1.0 => "component sub-critical",
            Some(_) => "component super-critical",
            None => "component without critical point",
        });
        if i == case.ci {
            p_ci = pv[i];
        }
    }
    // --- vle_pure_comps at T ---
    let vt = Vle::vle_pure_comps(&mix, t);
    obs.ensure(vt.len() == n, || format!("vle_pure_comps returned {} entries", vt.len()));
    for i in 0..n {
        let direct = Vle::pure(&pures[i].1, t, None, SolverOptions::default()).ok();
        compare_padded(obs, &format!("vle_pure_comps(T)[{i}]"), i, n, vt[i].as_ref(), direct.as_ref());
    }
    // --- boiling_temperature and vle_pure_comps at p = p_sat of component ci ---
    if let Some(p) = p_ci {
        let tb = Vle::boiling_temperature(&mix, p);
        obs.ensure(tb.len() == n, || format!("boiling_temperature returned {} entries", tb.len()));
        let vp = Vle::vle_pure_comps(&mix, p);
        for i in 0..n {
            let direct = Vle::pure(&pures[i].1, p, None, SolverOptions::default()).ok();
            same_opt(
                obs,
                &format!("boiling_temperature[{i}] vs pure model"),
                tb[i].map(|x| x.to_reduced()),
                direct.as_ref().map(|v| v.vapor().temperature.to_reduced()),
            );
            compare_padded(obs, &format!("vle_pure_comps(p)[{i}]"), i, n, vp[i].as_ref(), direct.as_ref());
            if i == case.ci {
                obs.class(if tb[i].is_some() { "boiling_temperature:Some" } else { "boiling_temperature:None" });

            }
        }
    }
    if n_sub >= 1 {
        obs.nontrivial();
    }
}

/// a pure equilibrium embedded in the mixture model (zero moles of the others) against the
/// equilibrium of the pure model
fn compare_padded(obs: &mut Obs, what: &str, i: usize, n: usize, padded: Option<&Vle>, direct: Option<&Vle>) {
    match (padded, direct) {
        (None, None) => obs.count(),
        (Some(a), Some(b)) => {
            let (va, vb) = (vle_vals(a), vle_vals(b));
            if check_collapsed(obs, &format!("{what}: pure model solve"), &vb, &Opt::DEFAULT, 0.0, false) {
                return;
            }
            // vle_pure_comps orders the two phases by density (from_states); the labels of the pure
            // model's result are judged in the other parts: compare the two densities as a set
            obs.close(&format!("{what}: T"), va.t, vb.t, TOL_SAME, 0.0);
            obs.close(&format!("{what}: lower density"), va.rho_v.min(va.rho_l), vb.rho_v.min(vb.rho_l), TOL_SAME, 0.0);
            obs.close(&format!("{what}: higher density"), va.rho_v.max(va.rho_l), vb.rho_v.max(vb.rho_l), TOL_SAME, 0.0);
            obs.ensure(va.rho_v <= va.rho_l, || format!("{what}: vle_pure_comps returns vapor denser than liquid"));
            for (ph, s) in [("vapor", a.vapor()), ("liquid", a.liquid())] {
                obs.ensure(s.molefracs.len() == n && (0..n).all(|j| s.molefracs[j] == if j == i { 1.0 } else { 0.0 }), || {
                    format!("{what}: {ph} mole fractions {} are not the unit vector e_{i}", s.molefracs)
                });
            }
        }
        _ => obs.fail(format!("{what}: Some/None differs from the pure model: mixture {:?} pure {:?}", padded.is_some(), direct.is_some())),
    }
}

// ---------------------------------------------------------------------------------------
const SAMPLED: PartCfg = PartCfg { name: "sampled", genome_len: 12, cases_quick: 20_000, cases_thorough: 1_000_000, panic: PanicPolicy::Violation };
const DIAGRAM: PartCfg = PartCfg { name: "diagram", genome_len: 12, cases_quick: 500, cases_thorough: 25_000, panic: PanicPolicy::Violation };
const MIXTURE: PartCfg = PartCfg { name: "mixture", genome_len: 24, cases_quick: 2_000, cases_thorough: 100_000, panic: PanicPolicy::Violation };
const RANDOM: PartCfg = PartCfg { name: "random", genome_len: 48, cases_quick: 6_000, cases_thorough: 300_000, panic: PanicPolicy::Count };

pub fn run(ctx: &Ctx) {
    ctx.set_rule("lattice (exhaustive, seed independent): every pure record of parameters/pcsaft/{gross2001,gross2002,gross2005_fit,gross2005_literature,gross2006,rehner2020,loetgeringlin2018,eller2022,esper2023}.json, saftvrmie/lafitte2013.json, saftvrqmie/{aasen2019,aasen2019_fh2,hammer2023}.json x T/Tc in {0.45,0.5,0.6,0.7,0.8,0.9,0.95,0.99} (SAFT-VRQ Mie: {0.6,0.65,0.7,0.8,0.9,0.95,0.97,0.99}), Tc = State::critical_point of that model; each case: pure(T) -> conditions -> pure(p_sat) -> conditions, T' = T, -> pure(T') -> p' = p. sampled: the same records (half file-weighted, half record-uniform) x T/Tc uniform in the range x solver options (max_iter 20-200, tol 1e-13..1e-9, each with prob. 1/2) x T- or p-specification. diagram: PhaseDiagram::pure, npoints 3-200 (half 3-12), T_min/Tc in [range start, 0.9], options. mixture: 2-3 shipped records of one family (+ random k_ij) x component x T/Tc: vapor_pressure, boiling_temperature, vle_pure_comps(T), vle_pure_comps(p) against the directly built pure models. random: random Peng-Robinson / PeTS / uv-theory (WCA, BH, B3) pure records, conditions whenever Ok. Non-trivial: T/Tc >= 0.9 or <= 0.5, or associating/polar record, or non-default options; diagrams with >= 2 sub-critical states; mixtures with >= 1 component inside its success range. Distinct by hash of the canonical case.");
    ctx.assume("equilibrium conditions are recomputed on fresh State::new_nvt states at the returned (T, V, N) of each phase: |p_v - p_l| <= tol*p + 2e-10*(rho_l T + sum_c |dA_c/dV|) (the liquid pressure is a difference of O(rho T) terms whose resolution is one ulp of the liquid density times dp/drho, measured 2.6e-12 of that scale in 1.44e6 cases: vanishing vapor pressures cannot raise alarms), |mu_v - mu_l| <= tol*RT with mu = mu_res + RT ln rho; tol = 2e-6 for the default solver tolerance 1e-12 (and up to 1e-10), 2e4 x the solver tolerance option for looser ones (round trips: 1e-7 resp. 2e3 x option), x10 for diagram states above 0.99 Tc. Reason for 2e-6 instead of 100 x 1e-12: pure_t / pure_p stop on the pressure (temperature) update while each density is one Newton step behind, so the residual of the returned state is the square of the last relative density correction: measured on the unchanged tree (1.44e6 cases): 2.6e-8 below 0.99 Tc with tolerances <= 1e-10, 3.1e-7 above 0.99 Tc or with looser tolerances (0.03 of the allowed value)");
    ctx.assume("round trips T -> p -> T' and p -> T' -> p': 1e-7 on T (measured <= 1.2e-9 with tolerances <= 1e-10; <= 0.03 of the allowed value with looser ones), 30 x that on p (measured <= 0.012 of it), 100 x on the densities (measured <= 1e-3 of it); mixture functions against the pure model 1e-10 (same arithmetic, measured 0)");
    ctx.assume("success is demanded for shipped PC-SAFT / SAFT-VR Mie records at T/Tc in [0.45, 0.99], SAFT-VRQ Mie records at [0.6, 0.99] except helium with fh = 2, with solver options at least as generous as the defaults (max_iter >= 50, tol >= 1e-12); tighter options and random records: conditions whenever Ok");
    ctx.assume("pure(p) is not covered by the success clause of the statement (which speaks of temperatures): its failures are counted per reduced-temperature class (helium never succeeds: init_pure_p only tries 300/500/200 K x 0.7^k, k <= 8; the six SAFT-VR Mie records with the spurious default critical point report SuperCritical); whenever it is Ok inside [T_min, T_c] it must invert pure(T); an equilibrium returned outside that range is another coexistence branch of the model (counted as inconclusive)");
    ctx.assume("diagram completeness is demanded for grid temperatures <= 0.99 Tc only (with npoints > (1 - Tmin/Tc)/0.01 + 1 the grid has points between 0.99 Tc and Tc, outside the success clause; their absence is counted)");
    ctx.assume("the critical temperature is State::critical_point(model, None, None, default) of the pure model, as in PhaseDiagram::pure, unless that call returns a stationary point with p_c <= 0 (finding C04/saftvrmie-spurious-critical-point); then the first result with p_c > 0 from initial temperatures 1.3 eps/k (1 + 0.1 (m - 1)) x {1, 1.5, 2, 0.7, 3}. C06 decides whether critical points are genuine");
    ctx.assume("replay files store floats through serde_json without the float_roundtrip feature: a replayed temperature can differ by one ulp, and the failure set of pure(T) is sensitive at that level (knife-edge cases may not reproduce; the finding files in findings/ do)");
    let items = lattice_items();
    ctx.extra("lattice_records", json!(DOMAIN_POOL.len()));
    ctx.run_lattice("lattice", items, PanicPolicy::Violation, true, &check_solve);
    ctx.run_sampled(&SAMPLED, &decode_sampled, &check_solve);
    ctx.run_sampled(&DIAGRAM, &decode_diagram, &check_diagram);
    ctx.run_sampled(&MIXTURE, &decode_mixture, &check_mixture);
    ctx.run_sampled(&RANDOM, &decode_random, &check_solve);
    let w: std::collections::BTreeMap<String, f64> = WORST.v.lock().unwrap().iter().map(|(k, v)| (k.to_string(), *v)).collect();
    ctx.extra("worst_seen", json!(w));
}

pub fn replay(ctx: &Ctx, part: &str, case: &Value) -> bool {
    match part {
        "diagram" => ctx.replay_case::<DCase>(case, &check_diagram),
        "mixture" => ctx.replay_case::<MCase>(case, &check_mixture),
        _ => ctx.replay_case::<SCase>(case, &check_solve),
    }
}
