//! C13 — virial coefficients equal the low-density limit of the compressibility factor.
//!
//! Oracle: B, C, dB/dT, dC/dT returned by the `Residual` trait are compared with the limits
//! rho -> 0 of y(rho) = (Z-1)/rho and of its divided difference, computed from *states of
//! the same model* (State::new_nvt + State::compressibility) on geometric density ladders by
//! Neville extrapolation with an error estimate (DESIGN.md 3.3 verdict rule); the temperature
//! derivatives are compared with Ridders' derivative of the coefficient itself.
use crate::engine::{Ctx, Gen, Obs, PanicPolicy, PartCfg};
use crate::model::*;
use crate::oracle::{derivative_verdict, neville_zero, ridders, DVerdict};
use crate::scales::{contrib_values, PD};
use feos::core::Derivative::DV;
use feos::core::{Contributions, ReferenceSystem, Residual, State, StateHD};
use ndarray::Array1;
use num_dual::{Dual3_64, DualNum, HyperDual64};
use quantity::*;
use serde::{Deserialize, Serialize};
use serde_json::Value;
use std::sync::Arc;

#[derive(Serialize, Deserialize, Clone, Debug)]
pub struct Case {
    pub spec: ModelSpec,
    /// T / T* (T* = mole-fraction average of the pure critical temperatures)
    pub tau: f64,
    pub x: Vec<f64>,
    /// second composition: end point of the line used for the quadratic-form check
    pub xb: Vec<f64>,
}

fn has_ions(spec: &ModelSpec) -> bool {
    spec.pure
        .iter()
        .any(|p| p["model_record"]["z"].as_f64().unwrap_or(0.0) != 0.0)
}

pub fn decode(g: &mut Gen) -> Case {
    let mut spec = gen_model(g, &GenCfg::all(3));
    if has_ions(&spec) {
        // electrolyte solutions are excluded by the property: keep the (ion-free) solvent
        let keep: Vec<usize> = (0..spec.n())
            .filter(|&i| spec.pure[i]["model_record"]["z"].as_f64().unwrap_or(0.0) == 0.0)
            .collect();
        spec = spec.subset(&keep);
        spec.source = "held2014-solvent-only".into();
    }
    let n = spec.n();
    let tau = g.range(0.5, 3.0);
    let x = g.simplex(n, 1e-3);
    let xb = g.simplex(n, 1e-3);
    Case { spec, tau, x, xb }
}

/// relative tolerance of B (C) against the extrapolated limit, and the largest error estimate
/// (relative to the scale) for which the extrapolation is regarded as conclusive
pub const RTOL_B: f64 = 1e-5;
pub const RTOL_C: f64 = 1e-3;
/// temperature derivatives against Ridders on the coefficient (as C01)
pub const RTOL_DT: f64 = 1e-6;
/// quadratic form in x (pure roundoff)
pub const TOL_QUAD: f64 = 1e-10;

/// largest observed values of the asserted quantities (reported in the evidence)
static WORST: std::sync::Mutex<std::collections::BTreeMap<String, f64>> = std::sync::Mutex::new(std::collections::BTreeMap::new());
fn worst(key: &str, v: f64) {
    if v.is_finite() {
        let mut w = WORST.lock().unwrap();
        let e = w.entry(key.to_string()).or_insert(0.0);
        if v > *e {
            *e = v;
        }
    }
}

// ---------------------------------------------------------------------------------------
// zero-density state exactly as `StateHD::new_virial` builds it (public fields), used for the
// *per-contribution* values of B and C at rho = 0 (localisation + signature predicates)
// ---------------------------------------------------------------------------------------
fn virial_state<D: DualNum<f64> + Copy>(t: D, rho: D, x: &[f64]) -> StateHD<D> {
    let volume = D::one();
    let partial_density: Array1<D> = x.iter().map(|&xi| rho * xi).collect();
    let moles = partial_density.mapv(|pd| pd * volume);
    let molefracs: Array1<D> = x.iter().map(|&xi| D::from(xi)).collect();
    StateHD {
        temperature: t,
        volume,
        moles,
        molefracs,
        partial_density,
    }
}

/// (name, B_c) at rho = 0 for each contribution
fn lib_b_contrib(model: &Arc<Model>, t: f64, x: &[f64]) -> Vec<(String, f64)> {
    let mut rho = HyperDual64::from(0.0);
    rho.eps1 = 1.0;
    rho.eps2 = 1.0;
    let s = virial_state(HyperDual64::from(t), rho, x);
    model
        .residual_helmholtz_energy_contributions(&s)
        .into_iter()
        .map(|(n, a)| (n, a.eps1eps2 * 0.5))
        .collect()
}

fn lib_c_contrib(model: &Arc<Model>, t: f64, x: &[f64]) -> Vec<(String, f64)> {
    let rho = Dual3_64::from(0.0).derivative();
    let s = virial_state(Dual3_64::from(t), rho, x);
    model
        .residual_helmholtz_energy_contributions(&s)
        .into_iter()
        .map(|(n, a)| (n, a.v3 / 3.0))
        .collect()
}

// ---------------------------------------------------------------------------------------
// low-density limits from states
// ---------------------------------------------------------------------------------------
const NLAD: usize = 8;
/// ladder start densities as fractions of max_density
const LADDERS: [f64; 7] = [3e-2, 3e-3, 3e-4, 3e-5, 3e-6, 3e-7, 3e-8];

/// Neville limit with a conservative error estimate: the last correction of the full tableau
/// and the change when the coarsest / the finest node is dropped.
fn limit(h: &[f64], y: &[f64]) -> (f64, f64) {
    let n = h.len();
    let (l, e) = neville_zero(h, y);
    let (l1, _) = neville_zero(&h[1..], &y[1..]);
    let (l2, _) = neville_zero(&h[..n - 1], &y[..n - 1]);
    let err = e.max((l - l1).abs()).max((l - l2).abs());
    if l.is_finite() && err.is_finite() {
        (l, err)
    } else {
        (f64::NAN, f64::INFINITY)
    }
}

#[derive(Clone)]
struct Ladder {
    /// total: (B_lim, err), (C_lim, err)
    b: (f64, f64),
    c: (f64, f64),
    /// per contribution: name, (B_c, err), (C_c, err)
    contrib: Vec<(String, (f64, f64), (f64, f64))>,
    /// largest |Z_res(Total route) - Z_res(Residual route)| seen
    z_incons: f64,
}

/// y = (Z-1)/rho at the ladder densities; slopes by divided differences of neighbours
/// (with rho_{k+1} = rho_k/2 the divided difference is a polynomial in rho_k whose value at 0
/// is the derivative of y at rho = 0).
fn ladder(model: &Arc<Model>, t: f64, x: &[f64], rho0: f64) -> Option<Ladder> {
    let moles = Moles::from_reduced(Array1::from_vec(x.to_vec()));
    let mut h = vec![];
    let mut y = vec![];
    let mut yc: Vec<Vec<f64>> = vec![];
    let mut names: Vec<String> = vec![];
    let mut z_incons: f64 = 0.0;
    for k in 0..NLAD {
        let rho = rho0 * 0.5f64.powi(k as i32);
        let s = State::new_nvt(
            model,
            Temperature::from_reduced(t),
            Volume::from_reduced(1.0 / rho),
            &moles,
        )
        .ok()?;
        let zres = s.compressibility(Contributions::Residual);
        let ztot = s.compressibility(Contributions::Total);
        z_incons = z_incons.max((ztot - 1.0 - zres).abs());
        h.push(rho);
        y.push(zres / rho);
        let cv = contrib_values(&s, PD::First(DV));
        if names.is_empty() {
            names = cv.iter().map(|(n, _)| n.clone()).collect();
            yc = vec![vec![]; cv.len()];
        }
        for (i, (_, da_dv)) in cv.iter().enumerate() {
            // p_c = -dA_c/dV ; Z_c = p_c/(rho T) ; y_c = Z_c/rho
            yc[i].push(-da_dv / (rho * rho * t));
        }
    }
    let slopes = |y: &[f64]| -> (Vec<f64>, Vec<f64>) {
        let hs: Vec<f64> = h[..NLAD - 1].to_vec();
        let s: Vec<f64> = (0..NLAD - 1).map(|k| (y[k] - y[k + 1]) / (h[k] - h[k + 1])).collect();
        (hs, s)
    };
    let b = limit(&h, &y);
    let (hs, s) = slopes(&y);
    let c = limit(&hs, &s);
    let contrib = names
        .into_iter()
        .zip(yc.iter())
        .map(|(n, yv)| {
            let bc = limit(&h, yv);
            let (hs, s) = slopes(yv);
            (n, bc, limit(&hs, &s))
        })
        .collect();
    Some(Ladder { b, c, contrib, z_incons })
}

// ---------------------------------------------------------------------------------------
// signatures of the known findings
// ---------------------------------------------------------------------------------------
/// number of association sites of kind A, B, C of the model (as `AssociationParameters::new`
/// counts them: one site per (component or GC segment kind) and site type with n > 0).
fn site_counts(spec: &ModelSpec) -> (usize, usize, usize) {
    let mut abc = (0, 0, 0);
    let mut add = |m: &Value, assoc: bool| {
        if !assoc {
            return;
        }
        if m["na"].as_f64().unwrap_or(0.0) > 0.0 {
            abc.0 += 1;
        }
        if m["nb"].as_f64().unwrap_or(0.0) > 0.0 {
            abc.1 += 1;
        }
        if m["nc"].as_f64().unwrap_or(0.0) > 0.0 {
            abc.2 += 1;
        }
    };
    match spec.family {
        Family::GcPcSaft | Family::GcPcSaftFunctional => {
            if let Some((sf, _)) = &spec.seg {
                let segs = load_json(&format!("pcsaft/{sf}"));
                for p in &spec.pure {
                    let mut kinds: Vec<String> = p["segments"]
                        .as_array()
                        .map(|a| a.iter().filter_map(|s| s.as_str().map(|s| s.to_string())).collect())
                        .unwrap_or_default();
                    kinds.sort();
                    kinds.dedup();
                    for k in kinds {
                        if let Some(r) = segs.iter().find(|r| r["identifier"].as_str() == Some(&k)) {
                            add(&r["model_record"], true);
                        }
                    }
                }
            }
        }
        _ => {
            for p in &spec.pure {
                add(&p["model_record"], true);
            }
        }
    }
    abc
}

/// the association term of this model goes through the iterative (cross-association) solver
/// (`Association::helmholtz_energy` match arms, src/association/mod.rs:274-307)
fn cross_association_path(spec: &ModelSpec) -> bool {
    let (a, b, c) = site_counts(spec);
    !matches!((a * b, c), (0, 0) | (1, 0) | (0, 1) | (1, 1))
}

/// One known-finding signature: a predicate over the case (evaluated in `signatures`), the
/// contributions whose zero-density value it affects and the clauses it can explain.
struct Sig {
    id: &'static str,
    why: &'static str,
    /// contribution names covered
    covers: Vec<String>,
    /// explains non-finite values
    nan: bool,
    /// explains a finite but wrong B / C
    wrong_b: bool,
    wrong_c: bool,
}

fn names_with(contribs: &[(String, f64)], pat: &[&str]) -> Vec<String> {
    contribs
        .iter()
        .filter(|(n, _)| {
            let l = n.to_lowercase();
            pat.iter().any(|p| l.contains(p))
        })
        .map(|(n, _)| n.clone())
        .collect()
}

fn signatures(spec: &ModelSpec, chain: bool, cross: bool, bc_lib: &[(String, f64)]) -> Vec<Sig> {
    let n = spec.n();
    let mut v = vec![];
    if spec.family == Family::SaftVRQMie && n >= 2 && spec.opts.inc_nonadd {
        v.push(Sig {
            id: "C13/saftvrqmie-mixture-nan",
            why: "SAFT-VRQ Mie mixture with the non-additive hard-sphere term: x_s = rho_i m_i / rho_s is 0/0 at rho = 0 (src/saftvrqmie/eos/non_additive_hs.rs:63)",
            covers: names_with(bc_lib, &["non-additive", "non additive", "nonadd"]),
            nan: true,
            wrong_b: false,
            wrong_c: false,
        });
    }
    if spec.family == Family::UVTheory && spec.opts.perturbation == 1 {
        v.push(Sig {
            id: "C13/uvtheory-bh-nan",
            why: "uv-theory Barker-Henderson: the u-fraction uses reduced_density.powf(1.2187) and powf(4.2773); the second-order dual part of rho^1.2187 at rho = 0 is infinite and 0*inf = NaN (src/uvtheory/eos/bh/attractive_perturbation.rs:131-132)",
            covers: names_with(bc_lib, &["attractive perturbation (bh)"]),
            nan: true,
            wrong_b: false,
            wrong_c: false,
        });
    }
    if spec.family == Family::SaftVRMie && chain {
        v.push(Sig {
            id: "C13/saftvrmie-chain-zero-density",
            why: "SAFT-VR Mie with m != 1: zeta_x/rho_s replaced by 0 at rho = 0 in a_disp_chain (src/saftvrmie/eos/dispersion.rs:212-216)",
            covers: names_with(bc_lib, &["chain"]),
            nan: false,
            wrong_b: true,
            wrong_c: true,
        });
    }
    if cross {
        v.push(Sig {
            id: "C13/cross-association-zero-density",
            why: "association term on the iterative solver path returns 0 at rho = 0 (src/association/mod.rs:403-409, src/saftvrmie/eos/association.rs:483)",
            covers: names_with(bc_lib, &["association"]),
            nan: false,
            wrong_b: true,
            wrong_c: true,
        });
    }
    let functional = matches!(
        spec.family,
        Family::PcSaftFunctional
            | Family::GcPcSaftFunctional
            | Family::PetsFunctional
            | Family::FmtFunctional
            | Family::SaftVRQMieFunctional
    );
    let polar_names = names_with(bc_lib, &["dipole", "quadrupole"]);
    if !polar_names.is_empty() && matches!(spec.family, Family::PcSaft | Family::GcPcSaft) {
        v.push(Sig {
            id: "C13/polar-third-virial",
            why: "polar terms fall back to phi2 when phi2^2/(phi2-phi3) is 0/0 at rho = 0: the three-body term phi3 is missing from C (src/pcsaft/eos/polar.rs:231-234, 314-317, 438-441; src/gc_pcsaft/eos/polar.rs:161-164)",
            covers: polar_names,
            nan: false,
            wrong_b: false,
            wrong_c: true,
        });
    }
    if spec.family == Family::PcSaftFunctional && spec.has_polar() {
        v.push(Sig {
            id: "C13/polar-third-virial-functional",
            why: "polar part of the attractive functional falls back to phi2 when phi2^2/(phi2-phi3) is 0/0 at rho = 0 (src/pcsaft/dft/polar.rs:175-180, 263-268, 363-368)",
            covers: names_with(bc_lib, &["attractive"]),
            nan: false,
            wrong_b: false,
            wrong_c: true,
        });
    }
    const DFT: &str = "C13/dft-functional-zero-density";
    if functional && spec.opts.fmt == 2 {
        v.push(Sig {
            id: DFT,
            why: "AntiSymWhiteBear FMT: xi2 = n2v^2/n2^2 is 0/0 at rho = 0 (src/hard_sphere/dft.rs:250, src/pcsaft/dft/pure_saft_functional.rs:94, src/pets/dft/pure_pets_functional.rs:85)",
            covers: names_with(bc_lib, &["fmt"]),
            nan: true,
            wrong_b: false,
            wrong_c: false,
        });
    }
    if spec.family == Family::SaftVRQMieFunctional {
        v.push(Sig {
            id: DFT,
            why: "SAFT-VRQ Mie attractive functional: x_s = rho_i m_i / rho_s is 0/0 at rho = 0 (src/saftvrqmie/eos/dispersion.rs:173 dispersion_energy_density)",
            covers: names_with(bc_lib, &["attractive functional"]),
            nan: true,
            wrong_b: false,
            wrong_c: false,
        });
    }
    if matches!(spec.family, Family::PcSaftFunctional | Family::GcPcSaftFunctional) && chain {
        v.push(Sig {
            id: DFT,
            why: "DFT chain functionals: rho*ln(rho + EPSILON) terms of the ideal-chain and hard-chain contributions have derivatives ~1/eps, 1/eps^2 at rho = 0 that cancel only in exact arithmetic (feos-dft/src/ideal_chain_contribution.rs:41, src/pcsaft/dft/pure_saft_functional.rs:188, src/pcsaft/dft/hard_chain.rs:65); the mixture attractive functional sets m_bar = 1 at rho = 0 (src/pcsaft/dft/dispersion.rs:84-90, src/gc_pcsaft/dft/dispersion.rs:72-78)",
            covers: names_with(bc_lib, &["chain", "attractive functional"]),
            nan: false,
            wrong_b: true,
            wrong_c: true,
        });
    }
    v
}

/// Compare a coefficient with its limit; on mismatch localise per contribution and route
/// through the matching known-finding signatures. Returns true if the comparison was conclusive.
#[allow(clippy::too_many_arguments)]
fn compare_limit(
    obs: &mut Obs,
    what: &str,
    lib_total: f64,
    lim: (f64, f64),
    lib_c: &[(String, f64)],
    lim_c: &[(String, (f64, f64))],
    rtol: f64,
    sigs: &[&Sig],
    ctx_msg: &str,
) -> bool {
    let (l, err) = lim;
    // scale of the limit side: |limit| and the sum over contributions of |limit_c|, counting
    // only contributions whose own extrapolation converged (the ideal-chain term rho*ln(rho)
    // of the functionals has no low-density limit of its own)
    let s_sum: f64 = lim_c
        .iter()
        .filter(|(_, c)| c.0.is_finite() && c.1 <= 1e-2 * c.0.abs())
        .map(|(_, c)| c.0.abs())
        .sum::<f64>();
    let s_lim = l.abs().max(s_sum);
    obs.count();
    if !(err <= rtol * s_lim) {
        obs.inconclusive(format!("{what} limit"));
        return false;
    }
    let sc = if lib_total.is_finite() { s_lim.max(lib_total.abs()) } else { s_lim };
    let covered: Vec<&String> = sigs.iter().flat_map(|s| s.covers.iter()).collect();
    let bad = |v: f64, l: (f64, f64)| !((l.0 - v).abs() <= (50.0 * l.1).max(rtol * sc));
    let mismatch = lib_total.is_finite() && (lib_total - l).abs() > (50.0 * err).max(rtol * sc);
    if lib_total.is_finite() && !mismatch {
        obs.class(format!("ok:{what}"));
        if sigs.is_empty() {
            worst(&format!("|{what} - limit|/S (agreeing cases without a known-finding signature)"), (lib_total - l).abs() / sc);
        }
        worst(&format!("{what} limit error estimate/S (conclusive cases)"), err / s_lim);
    }
    if mismatch {
        obs.class(format!("{what} mismatch"));
        let loc: Vec<String> = lim_c
            .iter()
            .zip(lib_c.iter())
            .filter(|((_, l), (_, v))| bad(*v, *l))
            .map(|((n, l), (_, v))| format!("{n}: rho=0 {v:e} vs limit {:e} (err {:e})", l.0, l.1))
            .collect();
        let msg = format!(
            "{what} = {lib_total:e} vs low-density limit {l:e} (err est {err:e}, scale {sc:e}) {ctx_msg} [contributions: {}]",
            loc.join("; ")
        );
        if sigs.is_empty() {
            obs.fail(msg);
        } else {
            // findings whose covered contributions individually mismatch; all matching ones if
            // the mismatch cannot be localised
            let mut hit: Vec<&&Sig> = sigs
                .iter()
                .filter(|s| {
                    lim_c
                        .iter()
                        .zip(lib_c.iter())
                        .any(|((n, l), (_, v))| s.covers.contains(n) && bad(*v, *l))
                })
                .collect();
            if hit.is_empty() {
                hit = sigs.iter().collect();
            }
            for s in hit {
                obs.known_or_fail(s.id, format!("{msg} [{}]", s.why));
            }
        }
    }
    // masked clause: with a matching signature (mismatch or non-finite total) every
    // contribution that is not covered still has to agree with its own limit
    if !sigs.is_empty() && (mismatch || !lib_total.is_finite()) {
        for ((nm, l), (_, v)) in lim_c.iter().zip(lib_c.iter()) {
            if covered.contains(&nm) {
                continue;
            }
            obs.count();
            if l.1 <= rtol * sc && bad(*v, *l) {
                obs.fail(format!(
                    "{what} contribution {nm} (not covered by a known finding): rho=0 {v:e} vs limit {:e} (err {:e}) {ctx_msg}",
                    l.0, l.1
                ));
            } else if l.1 <= rtol * sc {
                obs.class(format!("masked-ok:{what}"));
            }
        }
    }
    true
}

pub fn check(case: &Case, obs: &mut Obs) {
    let spec = &case.spec;
    obs.class(spec.label());
    let n = spec.n();
    obs.class(format!("n={n}"));
    if has_ions(spec) {
        obs.discard("electrolyte (excluded by the property)");
        return;
    }
    let model = match spec.build() {
        Ok(m) => m,
        Err(e) => {
            obs.discard(format!("build:{}", e.chars().take(40).collect::<String>()));
            return;
        }
    };
    let x = &case.x;
    let t = case.tau * t_scale(spec, &model, x);
    let moles = Moles::from_reduced(Array1::from_vec(x.clone()));
    let temp = Temperature::from_reduced(t);
    if spec.has_association() {
        obs.class("assoc");
    }
    if spec.has_polar() {
        obs.class("polar");
    }
    let chain = spec.pure.iter().any(|p| p["model_record"]["m"].as_f64().unwrap_or(1.0) != 1.0)
        || matches!(spec.family, Family::GcPcSaft | Family::GcPcSaftFunctional);
    if chain {
        obs.class("chain");
    }
    let cross = cross_association_path(spec);
    if cross {
        obs.class("cross-association path");
    }

    // ---------- library values ----------
    let lib = |t: f64| -> Option<[f64; 4]> {
        let tt = Temperature::from_reduced(t);
        Some([
            model.second_virial_coefficient(tt, Some(&moles)).ok()?.to_reduced(),
            model.third_virial_coefficient(tt, Some(&moles)).ok()?.to_reduced(),
            model
                .second_virial_coefficient_temperature_derivative(tt, Some(&moles))
                .ok()?
                .to_reduced(),
            model
                .third_virial_coefficient_temperature_derivative(tt, Some(&moles))
                .ok()?
                .to_reduced(),
        ])
    };
    let Some([b, c, dbdt, dcdt]) = lib(t) else {
        obs.fail("virial coefficient returned Err for a valid composition");
        return;
    };
    let _ = temp;
    let bc_lib = lib_b_contrib(&model, t, x);
    let cc_lib = lib_c_contrib(&model, t, x);
    for (name, _) in &bc_lib {
        obs.class(format!("contribution:{name}"));
    }

    // ---------- signatures ----------
    // only findings listed as open may mask: a fixed entry suppresses nothing
    let mut sigs = signatures(spec, chain, cross, &bc_lib);
    sigs.retain(|s| crate::engine::known_open(s.id));
    for sg in &sigs {
        obs.class(format!("signature:{}", sg.id));
    }
    let ctx_msg = format!("at T={t:.4} K x={x:?}");

    // ---------- (1) finite ----------
    let mut all_finite = true;
    for (name, v) in [("B", b), ("C", c), ("dB/dT", dbdt), ("dC/dT", dcdt)] {
        obs.count();
        if !v.is_finite() {
            all_finite = false;
            let loc: Vec<String> = bc_lib
                .iter()
                .zip(cc_lib.iter())
                .map(|((n, b), (_, c))| format!("{n}: B_c={b:e} C_c={c:e}"))
                .collect();
            let msg = format!("{name} = {v} is not finite {ctx_msg} [{}]", loc.join("; "));
            // every non-finite contribution must be covered by a NaN signature
            let bad: Vec<&String> = bc_lib
                .iter()
                .zip(cc_lib.iter())
                .filter(|((_, b), (_, c))| !b.is_finite() || !c.is_finite())
                .map(|((n, _), _)| n)
                .collect();
            let nan_sigs: Vec<&Sig> = sigs.iter().filter(|s| s.nan).collect();
            let explained = !bad.is_empty() && bad.iter().all(|n| nan_sigs.iter().any(|s| s.covers.contains(n)));
            if explained {
                for s in nan_sigs.iter().filter(|s| bad.iter().any(|n| s.covers.contains(n))) {
                    obs.known_or_fail(s.id, format!("{msg} [{}]", s.why));
                }
            } else {
                obs.fail(msg);
            }
        }
    }
    if all_finite {
        obs.class("all four finite");
    }

    // ---------- (2) low-density limits from states ----------
    let rho_max = if spec.family == Family::FmtFunctional {
        let sig = spec.fmt_sigma().unwrap();
        let v: f64 = x.iter().zip(sig.iter()).map(|(xi, s)| xi * std::f64::consts::FRAC_PI_6 * s.powi(3)).sum();
        spec.opts.max_eta / v
    } else {
        match model.max_density(Some(&moles)) {
            Ok(r) => r.to_reduced(),
            Err(e) => {
                obs.discard(format!("max_density:{e}"));
                return;
            }
        }
    };
    let mut best_b: Option<(usize, Ladder)> = None;
    let mut best_c: Option<(usize, Ladder)> = None;
    let mut z_incons: f64 = 0.0;
    for (i, f0) in LADDERS.iter().enumerate() {
        let Some(l) = ladder(&model, t, x, f0 * rho_max) else { continue };
        z_incons = z_incons.max(l.z_incons);
        if best_c.as_ref().map(|(_, bl)| l.c.1 < bl.c.1).unwrap_or(true) {
            best_c = Some((i, l.clone()));
        }
        if best_b.as_ref().map(|(_, bl)| l.b.1 < bl.b.1).unwrap_or(true) {
            best_b = Some((i, l));
        }
    }
    // Total = 1 + Residual for Z (roundoff of 1 + O(rho B))
    worst("|Z(Total)-1-Z(Residual)|", z_incons);
    obs.ensure(z_incons <= 1e-12, || format!("Z(Total) - 1 differs from Z(Residual) by {z_incons:e}"));
    let (Some((ib, lb)), Some((ic, lc))) = (best_b, best_c) else {
        obs.discard("no low-density state could be built");
        return;
    };
    obs.class(format!("ladder-B:{:e}", LADDERS[ib]));
    obs.class(format!("ladder-C:{:e}", LADDERS[ic]));

    let mut conclusive = 0;
    {
        let lim_c: Vec<(String, (f64, f64))> = lb.contrib.iter().map(|(n, bc, _)| (n.clone(), *bc)).collect();
        let sb: Vec<&Sig> = sigs.iter().filter(|s| s.wrong_b || (s.nan && !b.is_finite())).collect();
        if compare_limit(obs, "B", b, lb.b, &bc_lib, &lim_c, RTOL_B, &sb, &ctx_msg) {
            conclusive += 1;
        }
        let lim_c: Vec<(String, (f64, f64))> = lc.contrib.iter().map(|(n, _, cc)| (n.clone(), *cc)).collect();
        let sc: Vec<&Sig> = sigs.iter().filter(|s| s.wrong_c || (s.nan && !c.is_finite())).collect();
        if compare_limit(obs, "C", c, lc.c, &cc_lib, &lim_c, RTOL_C, &sc, &ctx_msg) {
            conclusive += 1;
        }
    }

    // ---------- (3) temperature derivatives vs Ridders on the coefficient ----------
    if all_finite {
        let s_b: f64 = bc_lib.iter().map(|(_, v)| v.abs()).sum();
        let s_c: f64 = cc_lib.iter().map(|(_, v)| v.abs()).sum();
        for (label, a, idx, s_extra) in [("dB/dT", dbdt, 0usize, s_b / t), ("dC/dT", dcdt, 1usize, s_c / t)] {
            obs.count();
            let mut verdict = DVerdict::Inconclusive;
            let mut info = String::new();
            let mut mism: Vec<(f64, f64)> = vec![];
            for h_rel in [2e-2, 5e-3, 6e-2] {
                let f = |tt: f64| lib(tt).map(|v| v[idx]).filter(|v| v.is_finite());
                match ridders(f, t, h_rel * t) {
                    None => {
                        if info.is_empty() {
                            info = "neighbour evaluation failed".into();
                        }
                    }
                    Some((d, err)) => {
                        let s = a.abs().max(d.abs()).max(s_extra);
                        match derivative_verdict(a, d, err, s, RTOL_DT) {
                            DVerdict::Ok => {
                                verdict = DVerdict::Ok;
                                if !epcsaft_t_dependent(spec) {
                                    worst(&format!("|{label} - Ridders|/S (agreeing cases without a known-finding signature)"), (a - d).abs() / s);
                                }
                                break;
                            }
                            DVerdict::Mismatch => {
                                info = format!("analytic {a:e} vs numeric {d:e} (err est {err:e}, scale {s:e}, h_rel {h_rel})");
                                if mism.iter().any(|(d0, s0)| (d0 - d).abs() <= 100.0 * RTOL_DT * s.max(*s0)) {
                                    verdict = DVerdict::Mismatch;
                                    break;
                                }
                                mism.push((d, s));
                            }
                            DVerdict::Inconclusive => {}
                        }
                    }
                }
            }
            match verdict {
                DVerdict::Ok => {
                    conclusive += 1;
                    obs.class(format!("ok:{label}"));
                }
                DVerdict::Inconclusive => obs.inconclusive(label.to_string()),
                DVerdict::Mismatch => {
                    conclusive += 1;
                    let msg = format!("{label}: {info} at T={t:.4} K x={x:?}");
                    if epcsaft_t_dependent(spec) {
                        obs.known_or_fail("C13/epcsaft-temperature-derivatives", msg);
                    } else {
                        obs.fail(msg);
                    }
                }
            }
        }
    }

    // ---------- (4) composition dependence ----------
    if n >= 2 {
        // families whose mixing rules make B exactly a quadratic form in x (van der Waals
        // one-fluid a and linear b; m = 1 perturbation theories with pair sums; BMCSL hard spheres)
        let quadratic = matches!(
            spec.family,
            Family::PengRobinson | Family::Pets | Family::PetsFunctional | Family::FmtFunctional
        );
        let bs: Vec<Option<(f64, f64)>> = (0..4)
            .map(|k| {
                let s = k as f64 / 3.0;
                let xs: Vec<f64> = x.iter().zip(case.xb.iter()).map(|(a, b)| a + s * (b - a)).collect();
                let m = Moles::from_reduced(Array1::from_vec(xs.clone()));
                let v = model.second_virial_coefficient(Temperature::from_reduced(t), Some(&m)).ok()?.to_reduced();
                let sc: f64 = lib_b_contrib(&model, t, &xs).iter().map(|(_, v)| v.abs()).sum();
                Some((v, sc))
            })
            .collect();
        if let [Some(b0), Some(b1), Some(b2), Some(b3)] = bs[..] {
            let d3 = b0.0 - 3.0 * b1.0 + 3.0 * b2.0 - b3.0;
            let sc = b0.1 + 3.0 * b1.1 + 3.0 * b2.1 + b3.1;
            let dist: f64 = x.iter().zip(case.xb.iter()).map(|(a, b)| (a - b).abs()).sum();
            if d3.is_finite() {
                if quadratic {
                    worst("quadratic form: |third difference|/S", d3.abs() / sc);
                    obs.close_scaled("B(x) quadratic form: third difference along a composition line", d3, 0.0, TOL_QUAD, sc);
                    if dist > 0.1 {
                        obs.class("quadratic-form checked");
                    }
                } else if d3.abs() > 1e-8 * sc {
                    obs.class("B(x) not a quadratic form (one-fluid mixing rules)");
                } else {
                    obs.class("B(x) quadratic within 1e-8");
                }
            }
        }
        // scaling the mole numbers does not change the coefficient
        let m2 = Moles::from_reduced(Array1::from_vec(x.iter().map(|v| v * 7.5).collect()));
        if let Ok(b2) = model.second_virial_coefficient(Temperature::from_reduced(t), Some(&m2)) {
            let s_b: f64 = bc_lib.iter().map(|(_, v)| v.abs()).sum();
            if b.is_finite() {
                obs.close_scaled("B independent of the total amount", b, b2.to_reduced(), 1e-9, s_b);
            }
        }
    }

    let featured = spec.has_association() || spec.has_polar() || chain;
    if conclusive >= 3 && featured && b.is_finite() && b.abs() > 1e-3 {
        obs.nontrivial();
    }
    obs.class(if case.tau < 1.0 { "tau<1" } else if case.tau < 2.0 { "tau 1-2" } else { "tau>2" });
}

/// T-derivatives of ePC-SAFT are a known finding (C01) when sigma or k_ij depend on T.
fn epcsaft_t_dependent(spec: &ModelSpec) -> bool {
    if spec.family != Family::EPcSaft {
        return false;
    }
    let water = spec
        .pure
        .iter()
        .any(|p| p["identifier"]["name"].as_str() == Some("water") || p["identifier"]["cas"].as_str() == Some("7732-18-5"));
    let kij_t = spec.binary.iter().any(|(_, _, b)| {
        b["k_ij"]
            .as_array()
            .map(|a| a.iter().skip(1).any(|v| v.as_f64().unwrap_or(0.0) != 0.0))
            .unwrap_or(false)
    });
    water || kij_t
}

const PART: PartCfg = PartCfg {
    name: "sampled",
    genome_len: 100,
    cases_quick: 10000,
    cases_thorough: 500_000,
    panic: PanicPolicy::Count,
};

/// lattice: every shipped pure record (PC-SAFT files, SAFT-VR Mie, SAFT-VRQ Mie) at two
/// reduced temperatures, default options.
fn lattice_cases() -> Vec<Case> {
    let mut v = vec![];
    let mut push = |family: Family, rec: &Value, source: String| {
        for tau in [0.6, 1.5] {
            v.push(Case {
                spec: ModelSpec {
                    family,
                    pure: vec![rec.clone()],
                    binary: vec![],
                    seg: None,
                    opts: Opts::default(),
                    source: source.clone(),
                },
                tau,
                x: vec![1.0],
                xb: vec![1.0],
            });
        }
    };
    for (f, recs) in &POOLS.pcsaft {
        for r in recs {
            push(Family::PcSaft, r, format!("shipped:{f}"));
        }
    }
    for r in &POOLS.vrmie {
        push(Family::SaftVRMie, r, "shipped:lafitte2013".into());
    }
    for (f, recs) in &POOLS.vrq {
        for r in recs {
            push(Family::SaftVRQMie, r, format!("shipped:{f}"));
        }
    }
    v
}

pub fn run(ctx: &Ctx) {
    ctx.set_rule("shipped-pure (lattice, exhaustive): every pure record of the 9 shipped PC-SAFT files, lafitte2013 (SAFT-VR Mie) and the 3 SAFT-VRQ Mie files at tau in {0.6, 1.5} with default options. sampled: proptest genomes -> (model spec: 13 families incl. the functionals as bulk models, shipped/perturbed/random records, 1-3 components, options; ion-containing ePC-SAFT specs are reduced to their ion-free solvent) x tau = T/T* in [0.5,3] x two open-simplex compositions. Each case: B, C, dB/dT, dC/dT from the Residual trait; (Z-1)/rho from State::compressibility on 7 geometric density ladders (8 states, ratio 2, starting at 3e-2..3e-8 of max_density), Neville extrapolation to rho=0 of y and of its divided differences, the ladder with the smallest error estimate decides; per-contribution limits from the public contributions route; Ridders derivative of B(T), C(T); B at 4 compositions along a line (quadratic form for PR/PeTS/FMT). Non-trivial: model has association, polar or chain contributions, |B| > 1e-3 A^3 and at least 3 of the 4 comparisons were conclusive. Distinct by hash of the canonical case JSON.");
    ctx.assume("verdict rule of DESIGN.md 3.3: limit inconclusive if its error estimate (last Neville correction, and change on dropping the coarsest/finest node) exceeds rtol*S_lim (S_lim from the limit side only); violation iff |coefficient - limit| > max(50*err, rtol*S), rtol 1e-5 (B), 1e-3 (C); S = sum over contributions of |limit_c|");
    ctx.assume("temperature derivatives: Ridders on the public coefficient, rtol 1e-6 of max(|a|,|d|, sum_c|coef_c|/T), mismatch confirmed with a second step size (piecewise-smooth models)");
    ctx.assume("the quadratic-form composition dependence is asserted only for families whose mixing rules imply it (Peng-Robinson, PeTS, FMT); one-fluid SAFT-type models (segment-fraction or m-bar dependent coefficients) are only classified");
    ctx.assume("State::compressibility / pressure derivatives of the states are trusted (validated by C01/C02)");
    ctx.assume("failures matching a signature predicate of a listed known finding are masked per contribution: the contributions not covered by the finding are still compared with their own low-density limits");
    ctx.run_lattice("shipped-pure", lattice_cases(), PanicPolicy::Count, true, &check);
    ctx.run_sampled(&PART, &decode, &check);
    ctx.extra("worst_values", serde_json::json!(*WORST.lock().unwrap()));
}

pub fn replay(ctx: &Ctx, _part: &str, case: &Value) -> bool {
    ctx.replay_case::<Case>(case, &check)
}
