//! C10 — Total = ideal gas + residual; ideal-gas limits and ideal-gas models.
//!
//! Parts
//! * `sampled`    : residual model from the zoo x ideal-gas model (shipped / random Joback and
//!                  DIPPR 100/107/127) x state; every getter with a `Contributions` selector.
//! * `limit`      : zero-density sequence rho_k = rho_0 10^-k down to 1e-12 of the maximum density.
//! * `shipped-ig` : lattice over every shipped ideal-gas record (poling2000, joback1987 via the
//!                  segments of gc_substances) x fixed temperatures, ideal gas only.
use crate::engine::{Ctx, Gen, Obs, PanicPolicy, PartCfg};
use crate::model::*;
use crate::scales::{contrib_abs, PD};
use feos::core::parameter::{ChemicalRecord, Identifier, Parameter, PureRecord, SegmentRecord};
use feos::core::Derivative::{DN, DT, DV};
use feos::core::{Contributions, EquationOfState, IdealGas, NoResidual, ReferenceSystem, Residual, State};
use feos::ideal_gas::{Dippr, DipprRecord, IdealGasModel, Joback, JobackRecord};
use ndarray::Array1;
use quantity::*;
use serde::{Deserialize, Serialize};
use serde_json::{json, Value};
use std::collections::BTreeMap;
use std::sync::{Arc, LazyLock, Mutex};
use typenum::P3;

/// CODATA 2018 molar gas constant, J/(mol K) — the value the property states.
const R_SI: f64 = 8.31446261815324;

// ---------------------------------------------------------------------------------------
// tolerances (reason; measured worst values are written to the evidence, key `worst_ratio`)
// ---------------------------------------------------------------------------------------
/// Total = IG + Res: pure roundoff of one addition per constituent term, relative to the sum
/// of |ideal terms| + sum over contributions |residual terms|.
const TOL_SUM: f64 = 1e-11;
/// selector Residual vs dedicated residual getter: same arithmetic on the same cached values
/// (the cache is filled completely before anything is compared).
const TOL_RES: f64 = 1e-12;
/// residual part of the wrapper vs a state of the bare residual model: two independent
/// evaluations; relative roundoff of dilute states ~ eps/eta (factor 1 + 1e-2/eta as in C02;
/// worst seen: Peng-Robinson near its Boyle temperature at eta = 7e-10, two logarithms of
/// 1 + O(eta) cancel inside the single contribution) and the cross-association solver tolerance
/// (<= 1e-10, seen 3e-11).
const TOL_BARE: f64 = 1e-8;
/// ideal-gas closed forms (rho R T and its V, T, N derivatives), reduced units.
const TOL_IG: f64 = 1e-12;
/// ideal-gas pressure in SI against N R T / V from SI inputs.
const TOL_SI: f64 = 1e-13;
/// heat capacity from A_ig vs correlation (harness reference and library direct call),
/// relative to sum |terms of the correlation| + R.
const TOL_CP: f64 = 2e-10;
/// third-order ideal-gas arm (dc_v/dT, d2S/dT2) vs analytic derivative of the reference.
const TOL_CP3: f64 = 1e-8;
/// Joback: the model's internal gas constant is the CODATA-2014 value (joback.rs `RGAS`), a
/// systematic, documented 3.4e-7 relative offset to R_SI in every caloric ideal-gas property —
/// comparisons against the plain polynomial get 50 x that offset.
const TOL_JOBACK: f64 = 2e-5;
/// caloric differences between two temperatures vs harness-side Gauss-Legendre quadrature.
const TOL_INT: f64 = 1e-10;
/// ideal mixing, Euler relation of the ideal part, isothermal volume change.
const TOL_MIX: f64 = 1e-11;

static WORST: LazyLock<Mutex<BTreeMap<String, (f64, f64)>>> = LazyLock::new(|| Mutex::new(BTreeMap::new()));

/// scaled comparison that also records, per key, the worst used fraction |u-v|/(tol*scale) of the
/// tolerance and the smallest tolerance applied
fn cs(obs: &mut Obs, key: &str, what: &str, u: f64, v: f64, tol: f64, scale: f64) -> bool {
    let d = (u - v).abs();
    let r = if d == 0.0 { 0.0 } else { d / (scale * tol) };
    if r.is_finite() {
        let mut w = WORST.lock().unwrap();
        let e = w.entry(key.to_string()).or_insert((0.0, tol));
        if r > e.0 {
            e.0 = r;
        }
        if tol < e.1 {
            e.1 = tol;
        }
    }
    obs.close_scaled(what, u, v, tol, scale)
}

// ---------------------------------------------------------------------------------------
// Reference correlations (independent implementation)
// ---------------------------------------------------------------------------------------
#[derive(Serialize, Deserialize, Clone, Debug, PartialEq)]
pub enum Corr {
    /// Joback polynomial a + b T + c T^2 + d T^3 + e T^4, J/(mol K)
    Joback([f64; 5]),
    /// DIPPR eq. 100, sum_k c_k T^k, J/(kmol K)
    D100(Vec<f64>),
    /// DIPPR eq. 107, A + B [(C/T)/sinh(C/T)]^2 + D [(E/T)/cosh(E/T)]^2, J/(kmol K)
    D107([f64; 5]),
    /// DIPPR eq. 127, A + sum_{(B,C),(D,E),(F,G)} B (C/T)^2 e^{C/T} / (e^{C/T}-1)^2, J/(kmol K)
    D127([f64; 7]),
}

#[derive(Clone, Copy, Debug, Default)]
struct CpRef {
    /// c_p in J/(mol K)
    cp: f64,
    /// sum of |terms|
    cp_abs: f64,
    /// d c_p / dT in J/(mol K^2)
    dcp: f64,
    dcp_abs: f64,
}

impl CpRef {
    fn add(&mut self, term: f64, dterm: f64) {
        self.cp += term;
        self.cp_abs += term.abs();
        self.dcp += dterm;
        self.dcp_abs += dterm.abs();
    }
}

/// F(u) = (u / sinh u)^2 and dF/du
fn f_sinh(u: f64) -> (f64, f64) {
    let (sh, ch) = (u.sinh(), u.cosh());
    let r = u / sh;
    (r * r, 2.0 * u * (sh - u * ch) / (sh * sh * sh))
}
/// G(u) = (u / cosh u)^2 and dG/du
fn g_cosh(u: f64) -> (f64, f64) {
    let (sh, ch) = (u.sinh(), u.cosh());
    let r = u / ch;
    (r * r, 2.0 * u * (ch - u * sh) / (ch * ch * ch))
}

impl Corr {
    fn eval(&self, t: f64) -> CpRef {
        let mut r = CpRef::default();
        match self {
            Corr::Joback(c) => {
                for (k, ck) in c.iter().enumerate() {
                    let k = k as i32;
                    r.add(ck * t.powi(k), if k == 0 { 0.0 } else { ck * k as f64 * t.powi(k - 1) });
                }
            }
            Corr::D100(c) => {
                for (k, ck) in c.iter().enumerate() {
                    let k = k as i32;
                    let ck = ck * 1e-3;
                    r.add(ck * t.powi(k), if k == 0 { 0.0 } else { ck * k as f64 * t.powi(k - 1) });
                }
            }
            Corr::D107([a, b, c, d, e]) => {
                r.add(a * 1e-3, 0.0);
                let u = c / t;
                let (f, df) = f_sinh(u);
                r.add(b * 1e-3 * f, b * 1e-3 * df * (-u / t));
                let v = e / t;
                let (g, dg) = g_cosh(v);
                r.add(d * 1e-3 * g, d * 1e-3 * dg * (-v / t));
            }
            Corr::D127([a, b, c, d, e, f, g]) => {
                // x^2 e^x/(e^x-1)^2 = ((x/2)/sinh(x/2))^2
                r.add(a * 1e-3, 0.0);
                for (coef, theta) in [(b, c), (d, e), (f, g)] {
                    let u = 0.5 * theta / t;
                    let (ff, dff) = f_sinh(u);
                    r.add(coef * 1e-3 * ff, coef * 1e-3 * dff * (-u / t));
                }
            }
        }
        r
    }
    fn form(&self) -> String {
        match self {
            Corr::Joback(_) => "joback".into(),
            Corr::D100(c) => format!("dippr100/{}-terms", c.len()),
            Corr::D107(_) => "dippr107".into(),
            Corr::D127(_) => "dippr127".into(),
        }
    }
}

/// 16-point Gauss-Legendre rule on [-1, 1] (Newton iteration on P_16)
static GL16: LazyLock<Vec<(f64, f64)>> = LazyLock::new(|| {
    let n = 16usize;
    let mut out = vec![];
    for i in 0..n {
        let mut x = (std::f64::consts::PI * (i as f64 + 0.75) / (n as f64 + 0.5)).cos();
        let mut dp = 0.0;
        for _ in 0..100 {
            let (mut p0, mut p1) = (1.0, x);
            for k in 2..=n {
                let kf = k as f64;
                let p2 = ((2.0 * kf - 1.0) * x * p1 - (kf - 1.0) * p0) / kf;
                p0 = p1;
                p1 = p2;
            }
            dp = n as f64 * (x * p1 - p0) / (x * x - 1.0);
            let dx = p1 / dp;
            x -= dx;
            if dx.abs() < 1e-16 {
                break;
            }
        }
        out.push((x, 2.0 / ((1.0 - x * x) * dp * dp)));
    }
    out
});

/// composite 16-point Gauss-Legendre quadrature with `panels` panels
fn integrate<F: Fn(f64) -> f64>(f: F, a: f64, b: f64, panels: usize) -> f64 {
    let h = (b - a) / panels as f64;
    let mut s = 0.0;
    for p in 0..panels {
        let (lo, hi) = (a + h * p as f64, a + h * (p + 1) as f64);
        let (c, hw) = (0.5 * (lo + hi), 0.5 * (hi - lo));
        for (x, w) in GL16.iter() {
            s += w * hw * f(c + hw * x);
        }
    }
    s
}

// ---------------------------------------------------------------------------------------
// Ideal-gas model spec
// ---------------------------------------------------------------------------------------
#[derive(Serialize, Deserialize, Clone, Debug, PartialEq)]
pub enum IgSpec {
    /// indices into parameters/ideal_gas/poling2000.json
    DipprShipped(Vec<usize>),
    /// random coefficient sets (D100 / D107 / D127 only)
    DipprRandom(Vec<Corr>),
    /// indices into parameters/pcsaft/gc_substances.json, built with
    /// `Joback::from_segments` from parameters/ideal_gas/joback1987.json
    JobackSegments(Vec<usize>),
    /// as JobackSegments, but with a perturbed copy of the group table (salt): every group gets a
    /// non-zero fourth-order coefficient e (all shipped groups have e = 0) and rescaled a..d
    JobackSegmentsPerturbed(Vec<usize>, u32),
    JobackRandom(Vec<[f64; 5]>),
}

fn pr<T>(r: T) -> PureRecord<T> {
    PureRecord::new(Identifier::default(), 1.0, r)
}

impl IgSpec {
    fn n(&self) -> usize {
        match self {
            IgSpec::DipprShipped(v) => v.len(),
            IgSpec::DipprRandom(v) => v.len(),
            IgSpec::JobackSegments(v) | IgSpec::JobackSegmentsPerturbed(v, _) => v.len(),
            IgSpec::JobackRandom(v) => v.len(),
        }
    }
    fn is_joback(&self) -> bool {
        matches!(self, IgSpec::JobackSegments(_) | IgSpec::JobackSegmentsPerturbed(..) | IgSpec::JobackRandom(_))
    }
    fn kind(&self) -> &'static str {
        match self {
            IgSpec::DipprShipped(_) => "ig:dippr-shipped(poling2000)",
            IgSpec::DipprRandom(_) => "ig:dippr-random",
            IgSpec::JobackSegments(_) => "ig:joback-segments(joback1987)",
            IgSpec::JobackSegmentsPerturbed(..) => "ig:joback-segments(perturbed table, e != 0)",
            IgSpec::JobackRandom(_) => "ig:joback-random",
        }
    }
    fn subset(&self, i: usize) -> IgSpec {
        match self {
            IgSpec::DipprShipped(v) => IgSpec::DipprShipped(vec![v[i]]),
            IgSpec::DipprRandom(v) => IgSpec::DipprRandom(vec![v[i].clone()]),
            IgSpec::JobackSegments(v) => IgSpec::JobackSegments(vec![v[i]]),
            IgSpec::JobackSegmentsPerturbed(v, salt) => IgSpec::JobackSegmentsPerturbed(vec![v[i]], *salt),
            IgSpec::JobackRandom(v) => IgSpec::JobackRandom(vec![v[i]]),
        }
    }
    fn build(&self) -> Result<IdealGasModel, String> {
        match self {
            IgSpec::DipprShipped(idx) => dippr_model(idx),
            IgSpec::DipprRandom(cs) => {
                let recs = cs
                    .iter()
                    .map(|c| match c {
                        Corr::D100(v) => Ok(pr(DipprRecord::eq100(v))),
                        Corr::D107([a, b, c, d, e]) => Ok(pr(DipprRecord::eq107(*a, *b, *c, *d, *e))),
                        Corr::D127([a, b, c, d, e, f, g]) => Ok(pr(DipprRecord::eq127(*a, *b, *c, *d, *e, *f, *g))),
                        Corr::Joback(_) => Err("joback correlation in a DIPPR spec".to_string()),
                    })
                    .collect::<Result<Vec<_>, _>>()?;
                Ok(IdealGasModel::Dippr(Arc::new(Dippr::from_records(recs, None).map_err(|e| e.to_string())?)))
            }
            IgSpec::JobackSegments(idx) | IgSpec::JobackSegmentsPerturbed(idx, _) => {
                let chem: Vec<ChemicalRecord> = idx
                    .iter()
                    .map(|&i| serde_json::from_value(POOLS.gc_substances[i % POOLS.gc_substances.len()].clone()).map_err(|e| e.to_string()))
                    .collect::<Result<_, _>>()?;
                let segs: Vec<SegmentRecord<JobackRecord>> = self
                    .joback_table()
                    .iter()
                    .map(|v| serde_json::from_value(v.clone()).map_err(|e| e.to_string()))
                    .collect::<Result<_, _>>()?;
                Ok(IdealGasModel::Joback(Arc::new(
                    Joback::from_segments(chem, segs, None).map_err(|e| e.to_string())?,
                )))
            }
            IgSpec::JobackRandom(cs) => joback_model(cs),
        }
    }
    /// the group table of a group-contribution Joback spec (shipped, or perturbed by the salt)
    fn joback_table(&self) -> Vec<Value> {
        let mut t: Vec<Value> = POOLS.joback_segments.clone();
        if let IgSpec::JobackSegmentsPerturbed(_, salt) = self {
            for (k, r) in t.iter_mut().enumerate() {
                // splitmix-style hash of (salt, group index): deterministic, no RNG of its own
                let mut z = (*salt as u64) << 32 | k as u64;
                let mut u = || {
                    z = z.wrapping_add(0x9E3779B97F4A7C15);
                    let mut x = z;
                    x = (x ^ (x >> 30)).wrapping_mul(0xBF58476D1CE4E5B9);
                    x = (x ^ (x >> 27)).wrapping_mul(0x94D049BB133111EB);
                    ((x ^ (x >> 31)) >> 11) as f64 / (1u64 << 53) as f64
                };
                let m = &mut r["model_record"];
                for key in ["a", "b", "c", "d"] {
                    let v = m[key].as_f64().unwrap_or(0.0);
                    m[key] = json!(v * (0.9 + 0.2 * u()));
                }
                m["e"] = json!((2.0 * u() - 1.0) * 2e-11);
            }
        }
        t
    }
    /// the correlations the model was parameterised with, read by the harness from the JSON
    /// files / the case (never from the library objects)
    fn corr(&self) -> Vec<Corr> {
        match self {
            IgSpec::DipprShipped(idx) => idx
                .iter()
                .map(|&i| {
                    let r = &POOLS.dippr[i % POOLS.dippr.len()]["model_record"];
                    if let Some(a) = r["DIPPR100"].as_array() {
                        Corr::D100(a.iter().map(|v| v.as_f64().unwrap()).collect())
                    } else if let Some(a) = r["DIPPR107"].as_array() {
                        let v: Vec<f64> = a.iter().map(|v| v.as_f64().unwrap()).collect();
                        Corr::D107([v[0], v[1], v[2], v[3], v[4]])
                    } else {
                        let v: Vec<f64> = r["DIPPR127"].as_array().unwrap().iter().map(|v| v.as_f64().unwrap()).collect();
                        Corr::D127([v[0], v[1], v[2], v[3], v[4], v[5], v[6]])
                    }
                })
                .collect(),
            IgSpec::DipprRandom(cs) => cs.clone(),
            IgSpec::JobackSegments(idx) | IgSpec::JobackSegmentsPerturbed(idx, _) => idx
                .iter()
                .map(|&i| {
                    let table = self.joback_table();
                    // Joback & Reid 1987: c_p = sum n_k a_k - 37.93 + (sum n_k b_k + 0.21) T
                    //   + (sum n_k c_k - 3.91e-4) T^2 + (sum n_k d_k + 2.06e-7) T^3
                    let mut c = [-37.93, 0.21, -3.91e-4, 2.06e-7, 0.0];
                    let sub = &POOLS.gc_substances[i % POOLS.gc_substances.len()];
                    for s in sub["segments"].as_array().unwrap() {
                        let name = s.as_str().unwrap();
                        let seg = table
                            .iter()
                            .find(|r| r["identifier"].as_str() == Some(name))
                            .unwrap_or_else(|| panic!("segment {name} not in joback1987.json"));
                        for (k, key) in ["a", "b", "c", "d", "e"].iter().enumerate() {
                            c[k] += seg["model_record"][*key].as_f64().unwrap();
                        }
                    }
                    Corr::Joback(c)
                })
                .collect(),
            IgSpec::JobackRandom(cs) => cs.iter().map(|c| Corr::Joback(*c)).collect(),
        }
    }
}

fn lib_cp(ig: &IdealGasModel, t: Temperature, x: &Array1<f64>) -> Option<f64> {
    let unit = JOULE / MOL / KELVIN;
    match ig {
        IdealGasModel::Joback(j) => j.molar_isobaric_heat_capacity(t, x).ok().map(|c| c.convert_to(unit)),
        IdealGasModel::Dippr(d) => d.molar_isobaric_heat_capacity(t, x).ok().map(|c| c.convert_to(unit)),
        _ => None,
    }
}

fn signed(g: &mut Gen, lo: f64, hi: f64) -> f64 {
    let v = g.log_range(lo, hi);
    if g.bool(0.35) {
        -v
    } else {
        v
    }
}

fn gen_dippr(g: &mut Gen) -> Corr {
    match g.index(3) {
        0 => {
            // 1..7 terms; every term of comparable size at ~1000 K
            let n = 1 + g.index(7);
            let c0 = g.log_range(2e4, 3e5);
            let mut v = vec![c0];
            for k in 1..n {
                v.push(signed(g, 0.02, 1.0) * c0 / 800f64.powi(k as i32));
            }
            Corr::D100(v)
        }
        1 => Corr::D107([
            g.log_range(2e4, 2e5),
            signed(g, 1e3, 4e5),
            g.log_range(100.0, 5000.0),
            signed(g, 1e3, 4e5),
            g.log_range(100.0, 5000.0),
        ]),
        _ => Corr::D127([
            g.log_range(2e4, 2e5),
            signed(g, 1e3, 4e5),
            g.log_range(100.0, 5000.0),
            signed(g, 1e3, 4e5),
            g.log_range(100.0, 5000.0),
            signed(g, 1e3, 4e5),
            g.log_range(100.0, 5000.0),
        ]),
    }
}

fn gen_joback(g: &mut Gen) -> [f64; 5] {
    [
        g.range(-60.0, 150.0),
        g.range(-0.1, 0.9),
        g.range(-8e-4, 4e-4),
        g.range(-3e-7, 3e-7),
        if g.bool(0.5) { g.range(-1e-10, 1e-10) } else { 0.0 },
    ]
}

fn gen_ig(g: &mut Gen, n: usize) -> IgSpec {
    match g.index(4) {
        0 => IgSpec::DipprShipped((0..n).map(|_| g.index(POOLS.dippr.len())).collect()),
        1 => IgSpec::DipprRandom((0..n).map(|_| gen_dippr(g)).collect()),
        2 => {
            let idx = (0..n).map(|_| g.index(POOLS.gc_substances.len())).collect();
            if g.bool(0.5) {
                IgSpec::JobackSegmentsPerturbed(idx, g.index(1_000_000) as u32)
            } else {
                IgSpec::JobackSegments(idx)
            }
        }
        _ => IgSpec::JobackRandom((0..n).map(|_| gen_joback(g)).collect()),
    }
}

// ---------------------------------------------------------------------------------------
// state inputs at an absolute temperature
// ---------------------------------------------------------------------------------------
type Inputs = (Temperature, Volume, Moles<Array1<f64>>);

fn ions(spec: &ModelSpec) -> bool {
    spec.family == Family::EPcSaft && spec.source.starts_with("shipped")
}

/// T in K for the case: [150, 1500] K, except electrolyte solutions (permittivity
/// correlations of the shipped records are fitted to 280-370 K: mapped into that window)
fn temperature_k(spec: &ModelSpec, t_k: f64) -> f64 {
    if ions(spec) {
        280.0 + (t_k - 150.0) / 1350.0 * 90.0
    } else if spec.has_association() {
        // the association floor of the generated temperature (DESIGN 13.0; model::state_inputs applies the same):
        // below eps_AB,max/25 the monomer fractions lose more digits than the 1e-11 sum rules can absorb (seed 503:
        // perturbed p-nitroaniline record, eps_AB = 4669 K, at 150-187 K: separately evaluated association
        // contributions differ by 5e-11 of the scale)
        t_k.max(spec.max_eps_ab() / MAX_EPS_AB_OVER_T)
    } else {
        t_k
    }
}

fn inputs_at(spec: &ModelSpec, model: &Arc<Model>, t_k: f64, f_eta: f64, x: &[f64], lambda: f64) -> Result<Inputs, String> {
    let mut x = x.to_vec();
    neutralise(spec, &mut x);
    let moles = Array1::from_vec(x.iter().map(|xi| xi * lambda).collect()) * MOL;
    let rho = if spec.family == Family::FmtFunctional {
        let sig = spec.fmt_sigma()?;
        let v: f64 = x.iter().zip(sig.iter()).map(|(xi, s)| xi * std::f64::consts::FRAC_PI_6 * s.powi(3)).sum();
        Density::from_reduced(f_eta * spec.opts.max_eta / v)
    } else {
        f_eta * model.max_density(Some(&moles)).map_err(|e| e.to_string())?
    };
    let v = moles.sum() / rho;
    Ok((temperature_k(spec, t_k) * KELVIN, v, moles))
}

// ---------------------------------------------------------------------------------------
// Part 1: sampled
// ---------------------------------------------------------------------------------------
#[derive(Serialize, Deserialize, Clone, Debug)]
pub struct Case {
    pub spec: ModelSpec,
    pub ig: IgSpec,
    /// temperature in K
    pub t_k: f64,
    /// second temperature (caloric differences), K
    pub t2_k: f64,
    /// rho / max_density
    pub f_eta: f64,
    pub x: Vec<f64>,
    /// total moles, mol
    pub lambda: f64,
    /// volume ratio of the isothermal ideal-gas expansion check
    pub v_ratio: f64,
}

pub fn decode(g: &mut Gen) -> Case {
    let spec = gen_model(g, &GenCfg::all(3));
    let n = spec.n();
    let ig = gen_ig(g, n);
    let t_k = g.range(150.0, 1500.0);
    let t2_k = g.range(150.0, 1500.0);
    let dense = g.bool(0.5);
    let u = g.unit();
    let f_eta = if dense {
        0.02 + u * 0.88
    } else {
        (1e-12f64.ln() + u * (0.9f64.ln() - 1e-12f64.ln())).exp()
    };
    let x = g.simplex(n, 1e-3);
    let lambda = g.log_range(1e-3, 1e3);
    let v_ratio = g.log_range(0.25, 4.0);
    Case {
        spec,
        ig,
        t_k,
        t2_k,
        f_eta,
        x,
        lambda,
        v_ratio,
    }
}

use Contributions::{IdealGas as IG, Residual as RES, Total as TOT};

/// mole-fraction average of the reference correlations (J/(mol K))
fn mix_ref(corr: &[Corr], x: &Array1<f64>, t: f64) -> CpRef {
    let mut r = CpRef::default();
    for (c, xi) in corr.iter().zip(x.iter()) {
        let ci = c.eval(t);
        r.cp += xi * ci.cp;
        r.cp_abs += xi * ci.cp_abs;
        r.dcp += xi * ci.dcp;
        r.dcp_abs += xi * ci.dcp_abs;
    }
    r
}

/// ideal-gas caloric checks shared by `sampled` and `shipped-ig`
/// (`s`: state at T, `s2`: optional state at T2 with the same V, N)
fn check_ideal_caloric<E: Residual + IdealGas>(
    obs: &mut Obs,
    igm: &IdealGasModel,
    igs: &IgSpec,
    s: &State<E>,
    s2: Option<&State<E>>,
) {
    let unit = JOULE / MOL / KELVIN;
    let corr = igs.corr();
    let x = &s.molefracs;
    let t = s.temperature.convert_to(KELVIN);
    let r = mix_ref(&corr, x, t);
    let jb = igs.is_joback();
    let tol = if jb { TOL_JOBACK } else { TOL_CP };
    let tol3 = if jb { TOL_JOBACK } else { TOL_CP3 };
    let key = if jb { "joback" } else { "dippr" };
    let ntot = s.total_moles.to_reduced();
    // c_p from the second temperature derivative of A_ig
    let cp = s.molar_isobaric_heat_capacity(IG).convert_to(unit);
    cs(obs, &format!("cp(IG) vs reference/{key}"), "molar_isobaric_heat_capacity(IdealGas) vs harness correlation [J/mol/K]", cp, r.cp, tol, r.cp_abs + R_SI);
    match lib_cp(igm, s.temperature, x) {
        Some(c) => {
            cs(obs, &format!("cp(IG) vs library direct/{key}"), "molar_isobaric_heat_capacity(IdealGas) vs Joback/Dippr::molar_isobaric_heat_capacity", cp, c, TOL_CP, r.cp_abs + R_SI);
            cs(obs, &format!("library direct vs reference/{key}"), "Joback/Dippr::molar_isobaric_heat_capacity vs harness correlation", c, r.cp, tol, r.cp_abs + R_SI);
        }
        None => obs.fail("Joback/Dippr::molar_isobaric_heat_capacity returned Err"),
    }
    // c_v = c_p - R, dS/dT = N c_v / T  (Second(DT) arm)
    let cv = s.molar_isochoric_heat_capacity(IG).convert_to(unit);
    cs(obs, &format!("cv(IG)/{key}"), "molar_isochoric_heat_capacity(IdealGas) = c_p,corr - R", cv, r.cp - R_SI, tol, r.cp_abs + R_SI);
    let ds_dt = s.ds_dt(IG).to_reduced() * t / ntot * R_SI;
    cs(obs, &format!("ds_dt(IG)/{key}"), "T ds_dt(IdealGas)/N = c_p,corr - R", ds_dt, r.cp - R_SI, tol, r.cp_abs + R_SI);
    // Third(DT) arm: dc_v/dT = dc_p,corr/dT ; d2S/dT2 = N (c_p' / T - c_v / T^2)
    let dcv = s.dc_v_dt(IG).convert_to(unit / KELVIN);
    let sc3 = r.dcp_abs + (r.cp_abs + R_SI) / t;
    cs(obs, &format!("dc_v_dt(IG)/{key}"), "dc_v_dt(IdealGas) = d c_p,corr / dT", dcv, r.dcp, tol3, sc3);
    let d2s = s.d2s_dt2(IG).to_reduced() * t / ntot * R_SI;
    cs(obs, &format!("d2s_dt2(IG)/{key}"), "T d2s_dt2(IdealGas)/N = c_p' - c_v/T", d2s, r.dcp - (r.cp - R_SI) / t, tol3, sc3);
    // caloric differences between T and T2 at constant V, N (harness quadrature of the correlation)
    if let Some(s2) = s2 {
        let t2 = s2.temperature.convert_to(KELVIN);
        if (t2 - t).abs() > 1.0 {
            let tol = if jb { TOL_JOBACK } else { TOL_INT };
            let eunit = JOULE / MOL;
            let f_cp = |tt: f64| mix_ref(&corr, x, tt).cp;
            let i_cp = integrate(f_cp, t, t2, 8);
            let i_cp_t = integrate(|tt| (f_cp(tt) - R_SI) / tt, t, t2, 8);
            let i_abs = integrate(|tt| mix_ref(&corr, x, tt).cp_abs + R_SI, t, t2, 8).abs();
            let (h1, h2) = (s.molar_enthalpy(IG).convert_to(eunit), s2.molar_enthalpy(IG).convert_to(eunit));
            cs(obs, &format!("h(IG) difference/{key}"), "molar_enthalpy(IdealGas)(T2) - (T1) = int c_p dT", h2 - h1, i_cp, tol, h1.abs() + h2.abs() + i_abs);
            let (u1, u2) = (s.molar_internal_energy(IG).convert_to(eunit), s2.molar_internal_energy(IG).convert_to(eunit));
            cs(obs, &format!("u(IG) difference/{key}"), "molar_internal_energy(IdealGas)(T2) - (T1) = int (c_p - R) dT", u2 - u1, i_cp - R_SI * (t2 - t), tol, u1.abs() + u2.abs() + i_abs);
            let (e1, e2) = (s.molar_entropy(IG).convert_to(unit), s2.molar_entropy(IG).convert_to(unit));
            let i_abs_t = integrate(|tt| (mix_ref(&corr, x, tt).cp_abs + R_SI) / tt, t, t2, 8).abs();
            cs(obs, &format!("s(IG) difference/{key}"), "molar_entropy(IdealGas)(T2,V) - (T1,V) = int (c_p - R)/T dT", e2 - e1, i_cp_t, tol, e1.abs() + e2.abs() + i_abs_t);
            obs.class("caloric-difference");
        }
    }
    for c in &corr {
        obs.class(format!("form:{}", c.form()));
    }
    obs.class(if t < 300.0 {
        "T:150-300K"
    } else if t < 700.0 {
        "T:300-700K"
    } else {
        "T:700-1500K"
    });
}

pub fn check(case: &Case, obs: &mut Obs) {
    let spec = &case.spec;
    obs.class(spec.label());
    obs.class(format!("n={}", spec.n()));
    obs.class(case.ig.kind());
    let model = match spec.build() {
        Ok(m) => m,
        Err(e) => {
            obs.discard(format!("build:{}", e.chars().take(40).collect::<String>()));
            return;
        }
    };
    let inputs = match inputs_at(spec, &model, case.t_k, case.f_eta, &case.x, case.lambda) {
        Ok(i) => i,
        Err(e) => {
            obs.discard(format!("inputs:{e}"));
            return;
        }
    };
    if case.ig.n() != spec.n() {
        obs.discard("ideal-gas spec with a different number of components");
        return;
    }
    let igm = match case.ig.build() {
        Ok(m) => m,
        Err(e) => {
            obs.discard(format!("ig:{}", e.chars().take(60).collect::<String>()));
            return;
        }
    };
    let eos = full_model(igm, model.clone());
    let s = match build_state(&eos, &inputs) {
        Ok(s) => s,
        Err(e) => {
            obs.discard(format!("state:{e}"));
            return;
        }
    };
    let n = spec.n();
    let nm = s.moles.to_reduced();
    let ntot: f64 = nm.sum();
    let v = s.volume.to_reduced();
    let t = s.temperature.to_reduced();
    let rho = s.density.to_reduced();
    if !s.residual_helmholtz_energy().to_reduced().is_finite() {
        obs.discard(format!("non-finite A_res:{}", spec.label()));
        return;
    }
    // Fill the state's derivative cache completely, highest orders first. Every cache miss
    // overwrites the lower-order entries with the by-products of its own dual-number pass
    // (values differ by roundoff ~ eps/eta and by the cross-association solver tolerance);
    // after this block no miss can occur, so every later read sees the same residual values.
    let _ = (s.d2s_res_dt2(), s.d2p_dv2(Contributions::Residual), s.dp_dt(Contributions::Residual));
    let _ = (s.dp_dni(Contributions::Residual), s.dmu_res_dt(), s.dmu_dni(Contributions::Residual));
    let a_res = s.residual_helmholtz_energy().to_reduced();
    if spec.has_association() {
        obs.class("assoc");
    }
    if ions(spec) {
        obs.class("ions (T mapped to 280-370 K)");
    }
    type S = State<FullModel>;

    // cancellation-safe residual scales: sum over contributions of |d^k A_c|
    let a_0 = contrib_abs(&s, PD::Zeroth);
    let a_v = contrib_abs(&s, PD::First(DV));
    let a_t = contrib_abs(&s, PD::First(DT));
    let a_n: Vec<f64> = (0..n).map(|i| contrib_abs(&s, PD::First(DN(i)))).collect();
    let a_vv = contrib_abs(&s, PD::Second(DV));
    let a_tt = contrib_abs(&s, PD::Second(DT));
    let a_vt = contrib_abs(&s, PD::Mixed(DV, DT));
    let a_vn: Vec<f64> = (0..n).map(|i| contrib_abs(&s, PD::Mixed(DV, DN(i)))).collect();
    let a_tn: Vec<f64> = (0..n).map(|i| contrib_abs(&s, PD::Mixed(DT, DN(i)))).collect();
    let a_nn: Vec<Vec<f64>> = (0..n)
        .map(|i| (0..n).map(|j| contrib_abs(&s, PD::Mixed(DN(i), DN(j)))).collect())
        .collect();
    let a_vvv = contrib_abs(&s, PD::Third(DV));
    let a_ttt = contrib_abs(&s, PD::Third(DT));
    if ![a_0, a_v, a_t, a_vv, a_tt, a_vt, a_vvv, a_ttt].iter().all(|v| v.is_finite()) {
        obs.discard(format!("non-finite residual derivative:{}", spec.label()));
        return;
    }

    // ideal-gas magnitudes of the composite getters
    let a_ig = s.helmholtz_energy(IG).to_reduced().abs();
    let ts_ig = t * s.entropy(IG).to_reduced().abs();
    let pv_ig = ntot * t;

    // Residual quantities of dilute states are O(eta) results of O(1) arithmetic inside the models:
    // two evaluations of the same residual (plain f64 vs real part of a dual-number pass that
    // overwrites the cache entry) differ by relative roundoff ~ eps/eta (same factor as C02).
    let eta = case.f_eta * spec.opts.max_eta;
    let tol_res = TOL_RES;
    let tol_bare = TOL_BARE * (1.0 + 1e-2 / eta);
    // ---- (A) Total = IdealGas + Residual for every getter with a selector ----
    // returns (total, ideal, residual)
    macro_rules! sel {
        ($name:expr, $f:expr, $ig_abs:expr, $res_abs:expr) => {{
            let f = $f;
            let (tot, ig, res): (f64, f64, f64) = (f(&s, TOT), f(&s, IG), f(&s, RES));
            let ig_abs: f64 = $ig_abs;
            let ig_abs = if ig_abs.is_nan() { ig.abs() } else { ig_abs };
            let sc = ig_abs + $res_abs;
            cs(obs, "Total = IG + Res", concat!("Total = IdealGas + Residual: ", $name), tot, ig + res, TOL_SUM, sc);
            (tot, ig, res)
        }};
    }
    // selector Residual vs dedicated residual getter
    macro_rules! ded {
        ($name:expr, $sel:expr, $ded:expr, $res_abs:expr) => {{
            cs(obs, "Residual selector = residual getter", concat!("(Residual) = dedicated getter: ", $name), $sel, $ded, tol_res, $res_abs);
        }};
    }
    let own = f64::NAN; // "use |ideal value| as the ideal scale"
    let u_abs = a_0 + t * a_t;
    let h_abs = u_abs + v * a_v;
    let g_abs = a_0 + v * a_v;
    let (p_tot, p_ig, p_res) = sel!("pressure", |s: &S, c| s.pressure(c).to_reduced(), own, a_v);
    let (_, z_ig, _) = sel!("compressibility", |s: &S, c| s.compressibility(c), own, a_v / (rho * t));
    let (dpdv_tot, dpdv_ig, _) = sel!("dp_dv", |s: &S, c| s.dp_dv(c).to_reduced(), own, a_vv);
    let (_, dpdrho_ig, _) = sel!("dp_drho", |s: &S, c| s.dp_drho(c).to_reduced(), own, v / rho * a_vv);
    let (dpdt_tot, dpdt_ig, _) = sel!("dp_dt", |s: &S, c| s.dp_dt(c).to_reduced(), own, a_vt);
    let (_, d2pdv2_ig, _) = sel!("d2p_dv2", |s: &S, c| s.d2p_dv2(c).to_reduced(), own, a_vvv);
    let (_, d2pdrho2_ig, _) = sel!("d2p_drho2", |s: &S, c| s.d2p_drho2(c).to_reduced(), 4.0 * t / rho, v / (rho * rho) * (v * a_vvv + 2.0 * a_vv));
    let (_, _, a_sel) = sel!("helmholtz_energy", |s: &S, c| s.helmholtz_energy(c).to_reduced(), own, a_0);
    ded!("helmholtz_energy", a_sel, a_res, a_0);
    let (_, _, am_sel) = sel!("molar_helmholtz_energy", |s: &S, c| s.molar_helmholtz_energy(c).to_reduced(), own, a_0 / ntot);
    ded!("molar_helmholtz_energy", am_sel, s.residual_molar_helmholtz_energy().to_reduced(), a_0 / ntot);
    let (_, _, s_sel) = sel!("entropy", |s: &S, c| s.entropy(c).to_reduced(), own, a_t);
    ded!("entropy", s_sel, s.residual_entropy().to_reduced(), a_t);
    let (_, _, sm_sel) = sel!("molar_entropy", |s: &S, c| s.molar_entropy(c).to_reduced(), own, a_t / ntot);
    ded!("molar_entropy", sm_sel, s.residual_molar_entropy().to_reduced(), a_t / ntot);
    let (dsdt_tot, dsdt_ig, dsdt_sel) = sel!("ds_dt", |s: &S, c| s.ds_dt(c).to_reduced(), own, a_tt);
    ded!("ds_dt", dsdt_sel, s.ds_res_dt().to_reduced(), a_tt);
    let (_, d2s_ig, d2s_sel) = sel!("d2s_dt2", |s: &S, c| s.d2s_dt2(c).to_reduced(), own, a_ttt);
    ded!("d2s_dt2", d2s_sel, s.d2s_res_dt2().to_reduced(), a_ttt);
    let (_, _, u_sel) = sel!("internal_energy", |s: &S, c| s.internal_energy(c).to_reduced(), a_ig + ts_ig, u_abs);
    ded!("internal_energy", u_sel, s.residual_internal_energy().to_reduced(), u_abs);
    let (_, _, um_sel) = sel!("molar_internal_energy", |s: &S, c| s.molar_internal_energy(c).to_reduced(), (a_ig + ts_ig) / ntot, u_abs / ntot);
    ded!("molar_internal_energy", um_sel, s.residual_molar_internal_energy().to_reduced(), u_abs / ntot);
    let (_, _, h_sel) = sel!("enthalpy", |s: &S, c| s.enthalpy(c).to_reduced(), a_ig + ts_ig + pv_ig, h_abs);
    ded!("enthalpy", h_sel, s.residual_enthalpy().to_reduced(), h_abs);
    let (_, _, hm_sel) = sel!("molar_enthalpy", |s: &S, c| s.molar_enthalpy(c).to_reduced(), (a_ig + ts_ig + pv_ig) / ntot, h_abs / ntot);
    ded!("molar_enthalpy", hm_sel, s.residual_molar_enthalpy().to_reduced(), h_abs / ntot);
    let (_, _, g_sel) = sel!("gibbs_energy", |s: &S, c| s.gibbs_energy(c).to_reduced(), a_ig + pv_ig, g_abs);
    sel!("molar_gibbs_energy", |s: &S, c| s.molar_gibbs_energy(c).to_reduced(), (a_ig + pv_ig) / ntot, g_abs / ntot);
    // residual_gibbs_energy is documented as the (T,p) residual: A_res + p_res V - N R T ln Z
    let z_tot = p_tot / (rho * t);
    if z_tot > 0.0 {
        let lnz = z_tot.ln();
        cs(obs, "Residual selector = residual getter", "residual_gibbs_energy = gibbs_energy(Residual) - N R T ln Z", s.residual_gibbs_energy().to_reduced(), g_sel - ntot * t * lnz, tol_res, g_abs + ntot * t * (lnz.abs() + (rho * t + a_v) / p_tot.abs()));
    } else {
        obs.class("p<=0: residual_gibbs_energy skipped");
    }
    let (_, cv_ig, cv_sel) = sel!("molar_isochoric_heat_capacity", |s: &S, c| s.molar_isochoric_heat_capacity(c).to_reduced(), own, t * a_tt / ntot);
    ded!("molar_isochoric_heat_capacity", cv_sel, s.residual_molar_isochoric_heat_capacity().to_reduced(), t * a_tt / ntot);
    let dcv_ig_abs = (t * d2s_ig.abs() + dsdt_ig.abs()) / ntot;
    let (_, _, dcv_sel) = sel!("dc_v_dt", |s: &S, c| s.dc_v_dt(c).to_reduced(), dcv_ig_abs, (t * a_ttt + a_tt) / ntot);
    ded!("dc_v_dt", dcv_sel, s.dc_v_res_dt().to_reduced(), (t * a_ttt + a_tt) / ntot);
    if dpdv_tot != 0.0 {
        // c_p divides by dp_dv(Total): every constituent term enters the scale
        let cp_ig_abs = t / ntot * dsdt_ig.abs() + 1.0;
        let cp_res_abs = t / ntot * (a_tt + dpdt_tot * dpdt_tot / dpdv_tot.abs()) + 1.0;
        let (_, _, cp_sel) = sel!("molar_isobaric_heat_capacity", |s: &S, c| s.molar_isobaric_heat_capacity(c).to_reduced(), cp_ig_abs, cp_res_abs);
        ded!("molar_isobaric_heat_capacity", cp_sel, s.residual_molar_isobaric_heat_capacity().to_reduced(), cp_res_abs);
        if model.has_molar_weight() {
            let mw = s.total_molar_weight().to_reduced();
            sel!("specific_isobaric_heat_capacity", |s: &S, c| s.specific_isobaric_heat_capacity(c).to_reduced(), cp_ig_abs / mw, cp_res_abs / mw);
        }
    }
    let _ = dsdt_tot;
    if model.has_molar_weight() {
        let mw = s.total_molar_weight().to_reduced();
        let nm_ = ntot * mw;
        sel!("specific_isochoric_heat_capacity", |s: &S, c| s.specific_isochoric_heat_capacity(c).to_reduced(), own, t * a_tt / nm_);
        sel!("specific_entropy", |s: &S, c| s.specific_entropy(c).to_reduced(), own, a_t / nm_);
        sel!("specific_enthalpy", |s: &S, c| s.specific_enthalpy(c).to_reduced(), (a_ig + ts_ig + pv_ig) / nm_, h_abs / nm_);
        sel!("specific_helmholtz_energy", |s: &S, c| s.specific_helmholtz_energy(c).to_reduced(), own, a_0 / nm_);
        sel!("specific_internal_energy", |s: &S, c| s.specific_internal_energy(c).to_reduced(), (a_ig + ts_ig) / nm_, u_abs / nm_);
        sel!("specific_gibbs_energy", |s: &S, c| s.specific_gibbs_energy(c).to_reduced(), (a_ig + pv_ig) / nm_, g_abs / nm_);
        obs.class("specific getters");
    }
    // array-valued getters
    let mu_res_ded = s.residual_chemical_potential().to_reduced();
    let dmu_res_dt_ded = s.dmu_res_dt().to_reduced();
    let mut mu_ig = vec![0.0; n];
    let mut dmu_dt_ig = vec![0.0; n];
    let mut dpdni_ig = vec![0.0; n];
    for i in 0..n {
        let (_, ig, r) = sel!("chemical_potential[i]", |s: &S, c| s.chemical_potential(c).to_reduced()[i], own, a_n[i]);
        ded!("chemical_potential[i]", r, mu_res_ded[i], a_n[i]);
        mu_ig[i] = ig;
        let (_, ig, r) = sel!("dmu_dt[i]", |s: &S, c| s.dmu_dt(c).to_reduced()[i], own, a_tn[i]);
        ded!("dmu_dt[i]", r, dmu_res_dt_ded[i], a_tn[i]);
        dmu_dt_ig[i] = ig;
        let (_, ig, _) = sel!("dp_dni[i]", |s: &S, c| s.dp_dni(c).to_reduced()[i], own, a_vn[i]);
        dpdni_ig[i] = ig;
    }
    let dmu_dni_ig = s.dmu_dni(IG).to_reduced();
    {
        let (dt, dr) = (s.dmu_dni(TOT).to_reduced(), s.dmu_dni(RES).to_reduced());
        for i in 0..n {
            for j in 0..n {
                let sc = dmu_dni_ig[[i, j]].abs() + a_nn[i][j];
                cs(obs, "Total = IG + Res", "Total = IdealGas + Residual: dmu_dni[i,j]", dt[[i, j]], dmu_dni_ig[[i, j]] + dr[[i, j]], TOL_SUM, sc);
            }
        }
    }
    // chemical_potential_contributions: the Total list is the ideal entry followed by the residual list
    {
        let i = n - 1;
        let lt = s.chemical_potential_contributions(i, TOT);
        let li = s.chemical_potential_contributions(i, IG);
        let lr = s.chemical_potential_contributions(i, RES);
        obs.ensure(lt.len() == li.len() + lr.len() && li.len() == 1, || {
            format!("chemical_potential_contributions: {} total entries vs {} ideal + {} residual", lt.len(), li.len(), lr.len())
        });
        if lt.len() == li.len() + lr.len() && li.len() == 1 {
            for (k, (name, val)) in li.iter().chain(lr.iter()).enumerate() {
                obs.ensure(&lt[k].0 == name, || format!("chemical_potential_contributions name {} vs {}", lt[k].0, name));
                let (u, w) = (lt[k].1.to_reduced(), val.to_reduced());
                cs(obs, "Total = IG + Res", "chemical_potential_contributions entry", u, w, TOL_SUM, u.abs().max(w.abs()));
            }
            let sum: f64 = lt.iter().map(|(_, v)| v.to_reduced()).sum();
            cs(obs, "Total = IG + Res", "sum chemical_potential_contributions(Total) = chemical_potential(Total)", sum, s.chemical_potential(TOT).to_reduced()[i], TOL_SUM, mu_ig[i].abs() + a_n[i]);
            obs.ensure(li[0].0 == eos.ideal_gas_model(), || "ideal entry is not named after the ideal-gas model".to_string());
        }
    }

    // ---- (B) ideal-gas closed forms in reduced units (k_B = 1) ----
    let r_red = RGAS.to_reduced();
    cs(obs, "RGAS reduced", "RGAS in reduced units = 1", r_red, 1.0, 1e-13, 1.0);
    cs(obs, "ideal closed form", "pressure(IdealGas) = rho T", p_ig, rho * t, TOL_IG, rho * t);
    cs(obs, "ideal closed form", "compressibility(IdealGas) = 1", z_ig, 1.0, TOL_IG, 1.0);
    cs(obs, "ideal closed form", "dp_dv(IdealGas) = -rho T / V", dpdv_ig, -rho * t / v, TOL_IG, rho * t / v);
    cs(obs, "ideal closed form", "dp_drho(IdealGas) = T", dpdrho_ig, t, TOL_IG, t);
    cs(obs, "ideal closed form", "dp_dt(IdealGas) = rho", dpdt_ig, rho, TOL_IG, rho);
    cs(obs, "ideal closed form", "d2p_dv2(IdealGas) = 2 rho T / V^2", d2pdv2_ig, 2.0 * rho * t / (v * v), TOL_IG, rho * t / (v * v));
    cs(obs, "ideal closed form", "d2p_drho2(IdealGas) = 0", d2pdrho2_ig, 0.0, TOL_IG, 4.0 * t / rho);
    for i in 0..n {
        cs(obs, "ideal closed form", "dp_dni(IdealGas)[i] = T / V", dpdni_ig[i], t / v, TOL_IG, t / v);
        for j in 0..n {
            let e = if i == j { t / nm[i] } else { 0.0 };
            cs(obs, "ideal closed form", "dmu_dni(IdealGas)[i,j] = delta_ij T / N_i", dmu_dni_ig[[i, j]], e, TOL_IG, t / nm[i]);
        }
    }
    // ---- (C) ideal-gas pressure in SI from SI inputs ----
    {
        let n_si = inputs.2.sum().convert_to(MOL);
        let v_si = inputs.1.convert_to(METER.powi::<P3>());
        let t_si = inputs.0.convert_to(KELVIN);
        let p_si = s.pressure(IG).convert_to(PASCAL);
        cs(obs, "p_ig SI", "pressure(IdealGas) [Pa] = N * 8.31446261815324 * T / V", p_si, n_si * R_SI * t_si / v_si, TOL_SI, p_si.abs());
    }
    // ---- (D) Euler relation of the ideal part: ties the Zeroth / First(DN) / SecondMixed(DT,DN) /
    //          First(DT) arms of the ideal-gas derivative together ----
    {
        let a_ig_s = s.helmholtz_energy(IG).to_reduced();
        let s_ig = s.entropy(IG).to_reduced();
        let mun: f64 = (0..n).map(|i| mu_ig[i] * nm[i]).sum();
        let mun_abs: f64 = (0..n).map(|i| mu_ig[i].abs() * nm[i]).sum();
        cs(obs, "ideal Euler", "A_ig = -p_ig V + sum N_i mu_ig,i", a_ig_s, -ntot * t + mun, TOL_MIX, a_ig + ntot * t + mun_abs);
        let dmn: f64 = (0..n).map(|i| dmu_dt_ig[i] * nm[i]).sum();
        let dmn_abs: f64 = (0..n).map(|i| dmu_dt_ig[i].abs() * nm[i]).sum();
        cs(obs, "ideal Euler", "sum N_i dmu_dt_ig,i = -S_ig + N", dmn, -s_ig + ntot, TOL_MIX, dmn_abs + s_ig.abs() + ntot);
        let _ = cv_ig;
    }
    // ---- (E) heat capacity correlation, third-order arm, caloric differences ----
    let t2 = temperature_k(spec, case.t2_k) * KELVIN;
    let s2 = build_state(&eos, &(t2, inputs.1, inputs.2.clone())).ok();
    check_ideal_caloric(obs, &eos.ideal_gas, &case.ig, &s, s2.as_ref());
    // ---- (F) isothermal expansion of the ideal gas: A_ig(V2) - A_ig(V) = -N T ln(V2/V) ----
    if let Ok(sv) = build_state(&eos, &(inputs.0, inputs.1 * case.v_ratio, inputs.2.clone())) {
        let (a1, a2) = (s.helmholtz_energy(IG).to_reduced(), sv.helmholtz_energy(IG).to_reduced());
        cs(obs, "ideal expansion", "A_ig(T,V2,N) - A_ig(T,V,N) = -N R T ln(V2/V)", a2 - a1, -ntot * t * case.v_ratio.ln(), TOL_MIX, a1.abs() + a2.abs());
    }
    // ---- (G) ideal mixing: mu_ig,i(mixture; T,V,N) - mu_ig(pure i; T,V,sum N) = R T ln x_i ----
    if n > 1 {
        for i in 0..n {
            let pure = match case.ig.subset(i).build() {
                Ok(m) => Arc::new(EquationOfState::ideal_gas(Arc::new(m))),
                Err(e) => {
                    obs.discard(format!("pure ig:{}", e.chars().take(40).collect::<String>()));
                    continue;
                }
            };
            let moles = Moles::from_reduced(Array1::from_vec(vec![ntot]));
            let sp: State<EquationOfState<IdealGasModel, NoResidual>> = match State::new_nvt(&pure, inputs.0, inputs.1, &moles) {
                Ok(s) => s,
                Err(e) => {
                    obs.discard(format!("pure state:{e}"));
                    continue;
                }
            };
            let xi = s.molefracs[i];
            let mu_p = sp.chemical_potential(IG).to_reduced()[0];
            cs(obs, "ideal mixing", "mu_ig,i(mix) - mu_ig(pure i at T,V,N) = R T ln x_i", mu_ig[i] - mu_p, t * xi.ln(), TOL_MIX, mu_ig[i].abs() + mu_p.abs() + t * xi.ln().abs());
            let dmu_p = sp.dmu_dt(IG).to_reduced()[0];
            cs(obs, "ideal mixing", "dmu_dt_ig,i(mix) - dmu_dt_ig(pure i) = R ln x_i", dmu_dt_ig[i] - dmu_p, xi.ln(), TOL_MIX, dmu_dt_ig[i].abs() + dmu_p.abs() + xi.ln().abs());
        }
        obs.class("ideal-mixing");
    }
    // ---- (H) the wrapper's residual part equals the bare residual model ----
    if let Ok(sr) = build_state(&model, &inputs) {
        cs(obs, "wrapper residual = bare model", "A_res of EquationOfState vs bare residual model", a_res, sr.residual_helmholtz_energy().to_reduced(), tol_bare, a_0);
        cs(obs, "wrapper residual = bare model", "p_res of EquationOfState vs bare residual model", p_res, sr.pressure(RES).to_reduced(), tol_bare, a_v);
        cs(obs, "wrapper residual = bare model", "S_res of EquationOfState vs bare residual model", s.residual_entropy().to_reduced(), sr.residual_entropy().to_reduced(), tol_bare, a_t);
    }

    // non-trivial: the residual part is visible in the totals (>= 1000 x the sum tolerance)
    let vis = (p_res.abs() / p_ig.abs()).max(a_res.abs() / a_ig.max(1e-300));
    if vis > 1e3 * TOL_SUM {
        obs.nontrivial();
    } else {
        obs.class("residual below 1e-8 of ideal part");
    }
    obs.class(if case.f_eta < 1e-6 {
        "eta:1e-12..1e-6"
    } else if case.f_eta < 1e-3 {
        "eta:1e-6..1e-3"
    } else if case.f_eta < 0.2 {
        "gas-like"
    } else {
        "dense"
    });
}

// ---------------------------------------------------------------------------------------
// Part 2: zero-density limit
// ---------------------------------------------------------------------------------------
#[derive(Serialize, Deserialize, Clone, Debug)]
pub struct LimitCase {
    pub spec: ModelSpec,
    pub t_k: f64,
    pub x: Vec<f64>,
    /// first density fraction of the sequence f_k = f0 10^-k (last one >= 1e-12)
    pub f0: f64,
}

pub fn decode_limit(g: &mut Gen) -> LimitCase {
    let spec = gen_model(g, &GenCfg::all(3));
    let t_k = g.range(150.0, 1500.0);
    let x = g.simplex(spec.n(), 1e-3);
    let f0 = g.log_range(1e-3, 1e-2);
    LimitCase { spec, t_k, x, f0 }
}

/// below this |A_res/NRT| and |Z-1| the state is taken to be in the second-virial regime
const LINEAR: f64 = 2e-4;
/// absolute roundoff allowance per unit of sum_c |contribution| (50 x 2.2e-16 rounded up)
const NOISE: f64 = 2e-14;
/// ratio tests start at this fraction of the maximum density (third-virial corrections to the
/// ratio are ~ rho C/B: measured <= 0.2 % here, 5 % at 1e-4)
const F_LINEAR: f64 = 1e-7;
/// successive ratio window for a decade in density
const RATIO_LO: f64 = 0.07;
const RATIO_HI: f64 = 0.13;

pub fn check_limit(case: &LimitCase, obs: &mut Obs) {
    let spec = &case.spec;
    obs.class(spec.label());
    obs.class(format!("n={}", spec.n()));
    let model = match spec.build() {
        Ok(m) => m,
        Err(e) => {
            obs.discard(format!("build:{}", e.chars().take(40).collect::<String>()));
            return;
        }
    };
    let n = spec.n();
    // f_k = f0 10^-k >= 1e-12
    let kmax = ((case.f0 / 1e-12).log10().floor() as i32).max(0);
    let names: Vec<String> = ["A_res/NRT", "Z-1", "S_res/NR", "H_res/NRT"]
        .iter()
        .map(|s| s.to_string())
        .chain((0..n).map(|i| format!("mu_res[{i}]/RT")))
        .collect();
    let mut q: Vec<Vec<f64>> = vec![];
    // sum over contributions of |contribution| to each quantity (absolute roundoff scale)
    let mut qabs: Vec<Vec<f64>> = vec![];
    let mut fs: Vec<f64> = vec![];
    for k in 0..=kmax {
        let f = case.f0 * 10f64.powi(-k);
        let inputs = match inputs_at(spec, &model, case.t_k, f, &case.x, 1.0) {
            Ok(i) => i,
            Err(e) => {
                obs.discard(format!("inputs:{e}"));
                return;
            }
        };
        let s = match build_state(&model, &inputs) {
            Ok(s) => s,
            Err(e) => {
                obs.discard(format!("state:{e}"));
                return;
            }
        };
        let t = s.temperature.to_reduced();
        let nt = s.total_moles.to_reduced();
        let mut row = vec![
            s.residual_helmholtz_energy().to_reduced() / (nt * t),
            s.compressibility(RES),
            s.residual_entropy().to_reduced() / nt,
            s.residual_enthalpy().to_reduced() / (nt * t),
        ];
        let mu = s.residual_chemical_potential().to_reduced();
        for i in 0..n {
            row.push(mu[i] / t);
        }
        if !row.iter().all(|v| v.is_finite()) {
            obs.discard(format!("non-finite residual:{}", spec.label()));
            return;
        }
        // Z(Total) - 1 is the same number as Z(Residual)
        let zt = s.compressibility(TOT);
        obs.close_scaled("compressibility(Total) - 1 = compressibility(Residual)", zt - 1.0, row[1], 1e-12, 1.0 + row[1].abs());
        let v = s.volume.to_reduced();
        let (c0, cv, ct) = (contrib_abs(&s, PD::Zeroth), contrib_abs(&s, PD::First(DV)), contrib_abs(&s, PD::First(DT)));
        let mut abs = vec![c0 / (nt * t), v * cv / (nt * t), ct / nt, (c0 + t * ct + v * cv) / (nt * t)];
        for i in 0..n {
            abs.push(contrib_abs(&s, PD::First(DN(i))) / t);
        }
        qabs.push(abs);
        q.push(row);
        fs.push(f);
    }
    let ionic = ions(spec);
    // Ion-containing ePC-SAFT (known findings, masked by signature `ions(spec)`):
    //  * the Born term -lambda_B (eps_r - 1) sum x_i z_i^2/d_i is independent of density, so
    //    A_res, S_res, H_res, mu_res tend to a non-zero constant: only Z-1 is followed;
    //  * the Debye-Hueckel chi(kappa d) is evaluated from O(1) terms that cancel to O((kappa d)^3):
    //    below ~1e-8 rho_max the ionic contribution is roundoff (grows like 1/rho).
    let followed: Vec<usize> = if ionic { vec![1] } else { (0..names.len()).collect() };
    if ionic {
        let last = q.last().unwrap();
        if last[0].abs() > LINEAR {
            obs.known_or_fail(
                "C10/epcsaft-born-term-zero-density",
                format!("A_res/NRT = {:e} at rho/rho_max = {:e} (S_res/NR = {:e}): the residual does not vanish in the zero-density limit", last[0], fs[fs.len() - 1], last[2]),
            );
        }
    }
    // first index in the second-virial regime
    let kstar = (0..q.len()).find(|&k| (ionic || q[k][0].abs() < LINEAR) && q[k][1].abs() < LINEAR);
    let Some(kstar) = kstar else {
        obs.inconclusive("second-virial regime (|A_res/NRT|, |Z-1| < 2e-4) not reached above 1e-12 of max density");
        obs.class("strongly non-ideal down to 1e-12");
        return;
    };
    let (lo, hi) = if ionic {
        // Debye-Hueckel: Z-1 ~ rho^(1/2); other terms ~ rho
        (RATIO_LO, 0.34)
    } else {
        (RATIO_LO, RATIO_HI)
    };
    let mut tested = 0;
    for k in kstar..q.len() - 1 {
        if fs[k] > F_LINEAR {
            continue;
        }
        for &j in &followed {
            let name = &names[j];
            let (a, b) = (q[k][j], q[k + 1][j]);
            // leading coefficient close to zero (Boyle-type temperature of this quantity):
            // the quadratic term decides, the ratio test does not apply
            if a.abs() / fs[k] < 1e-2 && !ionic {
                obs.class("near-zero second-virial coefficient: ratio skipped");
                continue;
            }
            obs.count();
            let r = b / a;
            // absolute roundoff of the O(1) contributions that cancel to the O(eta) residual
            // (e.g. hard-chain vs ideal-chain functional, each ~ (m-1) ln rho)
            let noise = NOISE * (qabs[k + 1][j] + qabs[k][j] + 1.0);
            if noise > 0.0005 * a.abs() {
                obs.class("roundoff-dominated: ratio skipped");
                continue;
            }
            {
                let dev = (r - 0.1).abs() / 0.03;
                if !ionic && dev.is_finite() {
                    let mut w = WORST.lock().unwrap();
                    let e = w.entry(format!("limit: |ratio-0.1|/0.03 at f<{:.0e}", 10f64.powi(fs[k].log10().ceil() as i32))).or_insert((0.0, 1.0));
                    if dev > e.0 {
                        e.0 = dev;
                    }
                }
            }
            let (lo_v, hi_v) = ((lo * a).min(hi * a) - noise, (lo * a).max(hi * a) + noise);
            if !(b >= lo_v && b <= hi_v) {
                let msg = format!(
                    "{name}: residual does not vanish linearly: value {a:e} at rho/rho_max={:e}, {b:e} at {:e}, ratio {r:.4} outside [{lo},{hi}]",
                    fs[k],
                    fs[k + 1]
                );
                if ionic && fs[k + 1] < 1e-8 {
                    obs.known_or_fail("C10/epcsaft-ionic-chi-cancellation", msg);
                } else {
                    obs.fail(msg);
                }
            }
            tested += 1;
        }
    }
    // vanishing: the last member of the sequence is small
    let last = q.last().unwrap();
    let steps = (q.len() - 1 - kstar) as i32;
    for &j in followed.iter().filter(|&&j| j < 2) {
        let bound = LINEAR * hi.powi(steps) * 10.0 + NOISE * (qabs[q.len() - 1][j] + 1.0);
        if !(last[j].abs() <= bound) && steps > 0 {
            let msg = format!("{} = {:e} at rho/rho_max = {:e}: not below {bound:e}", names[j], last[j], fs[fs.len() - 1]);
            if ionic {
                obs.known_or_fail("C10/epcsaft-ionic-chi-cancellation", msg);
            } else {
                obs.fail(msg);
            }
        }
        obs.count();
    }
    if tested >= 4 * followed.len() {
        obs.nontrivial();
    }
    obs.class(format!("linear regime from k={}", kstar.min(6)));
    if ionic {
        obs.class("ions: sqrt(rho) law allowed");
    }
    if spec.has_association() {
        obs.class("assoc");
    }
    let t = temperature_k(spec, case.t_k);
    obs.class(if t < 300.0 {
        "T:150-300K"
    } else if t < 700.0 {
        "T:300-700K"
    } else {
        "T:700-1500K"
    });
}

// ---------------------------------------------------------------------------------------
// Part 3: shipped ideal-gas records, ideal gas only (lattice)
// ---------------------------------------------------------------------------------------
#[derive(Serialize, Deserialize, Clone, Debug)]
pub struct IgCase {
    pub ig: IgSpec,
    pub t_k: f64,
    pub t2_k: f64,
}

pub fn check_ig(case: &IgCase, obs: &mut Obs) {
    obs.class(case.ig.kind());
    let igm = match case.ig.build() {
        Ok(m) => Arc::new(m),
        Err(e) => {
            obs.fail(format!("shipped ideal-gas record does not build: {e}"));
            return;
        }
    };
    let eos = Arc::new(EquationOfState::ideal_gas(igm.clone()));
    let n = case.ig.n();
    let moles = Array1::from_elem(n, 1.0 / n as f64) * MOL;
    let v = 0.024 * METER.powi::<P3>();
    let mk = |t: f64| State::new_nvt(&eos, t * KELVIN, v, &moles);
    let (s, s2) = match (mk(case.t_k), mk(case.t2_k)) {
        (Ok(a), Ok(b)) => (a, b),
        _ => {
            obs.fail("ideal-gas state does not build");
            return;
        }
    };
    check_ideal_caloric(obs, &igm, &case.ig, &s, Some(&s2));
    // no residual: Total = IdealGas exactly, Residual = 0
    let (a_t, a_i, a_r) = (s.helmholtz_energy(TOT).to_reduced(), s.helmholtz_energy(IG).to_reduced(), s.helmholtz_energy(RES).to_reduced());
    obs.close("Total = IdealGas without residual model", a_t, a_i, 1e-15, 0.0);
    obs.close("Residual = 0 without residual model", a_r, 0.0, 0.0, 0.0);
    obs.nontrivial();
}

// ---------------------------------------------------------------------------------------
const PART: PartCfg = PartCfg {
    name: "sampled",
    genome_len: 128,
    cases_quick: 32000,
    cases_thorough: 600_000,
    panic: PanicPolicy::Count,
};

const PART_LIMIT: PartCfg = PartCfg {
    name: "limit",
    genome_len: 96,
    cases_quick: 16000,
    cases_thorough: 300_000,
    panic: PanicPolicy::Count,
};

pub fn run(ctx: &Ctx) {
    ctx.set_rule("sampled: proptest genomes -> (residual model spec from the zoo: 13 families, shipped/perturbed/random records, 1-3 components, options) x (ideal-gas model: poling2000 records by index | random DIPPR eq. 100 with 1-7 terms / 107 / 127 coefficient sets, characteristic temperatures 100-5000 K, coefficients of either sign | Joback via Joback::from_segments(gc_substances x joback1987) | random Joback coefficients) x (T uniform in [150,1500] K, second temperature for caloric differences, rho/rho_max half uniform [0.02,0.9] half log-uniform [1e-12,0.9], open-simplex composition, moles 1e-3..1e3, volume ratio 0.25..4). Non-trivial: the residual part of p or A exceeds 1e-8 of the ideal part (1000 x the sum tolerance). limit: (model spec) x T x composition x f0 in [1e-3,1e-2]: sequence rho_k = f0 10^-k rho_max down to >= 1e-12 rho_max; non-trivial: >= 4 ratio tests per followed quantity. shipped-ig: every poling2000 record and every gc_substances molecule (Joback segments) x 6 temperature pairs, ideal gas only. Distinct by hash of the canonical case JSON.");
    ctx.assume("the derivative cache of the state is filled completely (third order first) before anything is compared, so that all getters read the same residual values; Total = IG + Res compared with 1e-11 of (sum of |ideal constituent terms| + sum over residual contributions of |constituent terms|) in reduced units; Residual selector vs dedicated residual getter 1e-12 of the residual scale; residual part of EquationOfState vs a state of the bare residual model 1e-8 (1+1e-2/eta); residual_gibbs_energy is documented as the (T,p)-residual and is compared with gibbs_energy(Residual) - N R T ln Z");
    ctx.assume("ideal-gas closed forms (rho T, -rho T/V, rho, T/V, 2 rho T/V^2, T, 0, delta_ij T/N_i) 1e-12; SI pressure vs N*8.31446261815324*T/V 1e-13");
    ctx.assume("heat capacity: reference implementation of the Joback polynomial and DIPPR 100/107/127 (sinh/cosh form, analytic T-derivative) in the harness; tolerance 2e-10 (DIPPR) of sum|terms|+R; Joback against the plain polynomial 2e-5 because joback.rs uses the CODATA-2014 gas constant internally (systematic 3.4e-7 offset), against Joback::molar_isobaric_heat_capacity 2e-10; third-order arm (dc_v_dt, d2s_dt2) 1e-8; caloric differences h, u, s between two temperatures against 8x16-point Gauss-Legendre quadrature of the reference correlation 1e-10");
    ctx.assume("zero-density limit: in the second-virial regime (|A_res/NRT| and |Z-1| < 2e-4, rho <= 1e-7 rho_max) every residual quantity (A, Z-1, S, H, mu_i) shrinks by a factor in [0.07,0.13] per decade of density (ion-containing ePC-SAFT, Z-1 only: [0.07,0.34], Debye-Hueckel sqrt law); quantities whose leading coefficient is near zero (|q|/(rho/rho_max) < 1e-2, Boyle-type temperature) are skipped, as are steps where the roundoff of the individual contributions (2e-14 x sum_c |contribution|, e.g. hard-chain vs ideal-chain functional ~ (m-1) ln rho each) exceeds 5e-4 of the value; a model that has not reached the regime at 1e-12 rho_max (strong association at low T) is counted inconclusive. The fixed bound '< 1e-6 at eta = 1e-8' of the design is not asserted: long chains at 150 K have |B| rho above it.");
    ctx.assume("electrolyte ePC-SAFT specs are evaluated at 280-370 K only (permittivity correlations)");
    ctx.run_sampled(&PART, &decode, &check);
    ctx.run_sampled(&PART_LIMIT, &decode_limit, &check_limit);
    // lattice over all shipped ideal-gas records
    let temps = [(150.0, 298.15), (200.0, 1500.0), (298.15, 1000.0), (400.0, 150.0), (700.0, 300.0), (1500.0, 600.0)];
    let mut items = vec![];
    for i in 0..POOLS.dippr.len() {
        for (a, b) in temps {
            items.push(IgCase { ig: IgSpec::DipprShipped(vec![i]), t_k: a, t2_k: b });
        }
    }
    for i in 0..POOLS.gc_substances.len() {
        for (a, b) in temps {
            items.push(IgCase { ig: IgSpec::JobackSegments(vec![i]), t_k: a, t2_k: b });
        }
    }
    // binary mixtures of neighbours (mole-fraction average)
    for i in 0..POOLS.dippr.len() {
        items.push(IgCase { ig: IgSpec::DipprShipped(vec![i, (i + 7) % POOLS.dippr.len()]), t_k: 350.0, t2_k: 900.0 });
    }
    for i in 0..POOLS.gc_substances.len() {
        items.push(IgCase { ig: IgSpec::JobackSegments(vec![i, (i + 7) % POOLS.gc_substances.len()]), t_k: 350.0, t2_k: 900.0 });
    }
    ctx.run_lattice("shipped-ig", items, PanicPolicy::Violation, true, &check_ig);
    let w = WORST.lock().unwrap();
    let m: BTreeMap<String, Value> = w
        .iter()
        .map(|(k, (r, tol))| (k.clone(), json!({"worst_fraction_of_tolerance": r, "base_tolerance": tol, "margin": if *r > 0.0 { 1.0 / r } else { f64::INFINITY }})))
        .collect();
    ctx.extra("worst_ratio", json!(m));
}

pub fn replay(ctx: &Ctx, part: &str, case: &Value) -> bool {
    match part {
        "limit" => ctx.replay_case::<LimitCase>(case, &check_limit),
        "shipped-ig" => ctx.replay_case::<IgCase>(case, &check_ig),
        _ => ctx.replay_case::<Case>(case, &check),
    }
}
