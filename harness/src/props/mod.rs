//! One module per property. Each exposes `run(&Ctx)` and `replay(&Ctx, part, case) -> bool`.
use crate::engine::Ctx;
use serde_json::Value;

pub mod c01;
pub mod c02;
pub mod c03;
pub mod c04;
pub mod c05;
pub mod c06;
pub mod c07;
pub mod c08;
pub mod c09;
pub mod c10;
pub mod c11;
pub mod c12;
pub mod c13;
pub mod c14;
pub mod c15;
pub mod c16;
pub mod c17;
pub mod c18;
pub mod c19;
pub mod c20;

pub struct Prop {
    pub id: &'static str,
    pub run: fn(&Ctx),
    pub replay: fn(&Ctx, &str, &Value) -> bool,
}

pub fn registry() -> Vec<Prop> {
    vec![
        Prop { id: "C01", run: c01::run, replay: c01::replay },
        Prop { id: "C02", run: c02::run, replay: c02::replay },
        Prop { id: "C03", run: c03::run, replay: c03::replay },
        Prop { id: "C04", run: c04::run, replay: c04::replay },
        Prop { id: "C05", run: c05::run, replay: c05::replay },
        Prop { id: "C06", run: c06::run, replay: c06::replay },
        Prop { id: "C07", run: c07::run, replay: c07::replay },
        Prop { id: "C08", run: c08::run, replay: c08::replay },
        Prop { id: "C09", run: c09::run, replay: c09::replay },
        Prop { id: "C10", run: c10::run, replay: c10::replay },
        Prop { id: "C11", run: c11::run, replay: c11::replay },
        Prop { id: "C12", run: c12::run, replay: c12::replay },
        Prop { id: "C13", run: c13::run, replay: c13::replay },
        Prop { id: "C14", run: c14::run, replay: c14::replay },
        Prop { id: "C15", run: c15::run, replay: c15::replay },
        Prop { id: "C16", run: c16::run, replay: c16::replay },
        Prop { id: "C17", run: c17::run, replay: c17::replay },
        Prop { id: "C18", run: c18::run, replay: c18::replay },
        Prop { id: "C19", run: c19::run, replay: c19::replay },
        Prop { id: "C20", run: c20::run, replay: c20::replay },
    ]
}
