//! One module per property. Each exposes `run(&Ctx)` and `replay(&Ctx, part, case) -> bool`.
use crate::engine::Ctx;
use serde_json::Value;

pub mod c01;
pub mod c02;

pub struct Prop {
    pub id: &'static str,
    pub run: fn(&Ctx),
    pub replay: fn(&Ctx, &str, &Value) -> bool,
}

pub fn registry() -> Vec<Prop> {
    vec![
        Prop { id: "C01", run: c01::run, replay: c01::replay },
        Prop { id: "C02", run: c02::run, replay: c02::replay },
    ]
}
