//! C02 — Euler and Gibbs–Duhem relations (extensivity).
use crate::engine::{Ctx, Gen, Obs, PanicPolicy, PartCfg};
use crate::model::*;
use crate::scales::{contrib_abs, PD};
use feos::core::Derivative::{DN, DT, DV};
use feos::core::{Contributions, ReferenceSystem, State};
use quantity::*;
use serde::{Deserialize, Serialize};
use serde_json::Value;

#[derive(Serialize, Deserialize, Clone, Debug)]
pub struct Case {
    pub spec: ModelSpec,
    pub state: StateSpec,
    /// scale factor applied to (V, N)
    pub lambda2: f64,
    /// indices into the DIPPR pool for the ideal-gas part (totals)
    pub ig: Vec<usize>,
    /// a component that is present in the model with exactly zero moles (residual identities only)
    #[serde(default)]
    pub zero: Option<usize>,
    /// amounts of the order of feos' reference amount (1 reduced mole = 1/N_A mol, the default of
    /// State::new when no amount is given) instead of macroscopic ones
    #[serde(default)]
    pub tiny: bool,
}

pub fn decode(g: &mut Gen) -> Case {
    let spec = gen_model(g, &GenCfg::all(3));
    let state = gen_state(g, spec.n());
    let lambda2 = g.log_range(1e-3, 1e3);
    let ig = (0..spec.n()).map(|_| g.index(POOLS.dippr.len())).collect();
    let zero_ok = spec.n() >= 2 && !(spec.family == Family::EPcSaft && spec.source.starts_with("shipped"));
    let zero = if zero_ok && g.bool(0.12) { Some(g.index(spec.n())) } else { None };
    let tiny = g.bool(0.25);
    Case {
        spec,
        state,
        lambda2,
        ig,
        zero,
        tiny,
    }
}

/// identities on one state: tolerance relative to the sum of |constituent terms| taken
/// contribution by contribution (pure roundoff; measured <= 2e-13 on the pinned tree)
const TOL_ID: f64 = 1e-9;
/// same property at (T, V, N) and (T, lV, lN)
const TOL_SC: f64 = 1e-8;

/// effective state of a case (zero-mole component, reference-amount scale)
fn effective_state(case: &Case) -> StateSpec {
    let mut st = case.state.clone();
    if case.tiny {
        st.lambda /= 6.02214076e23;
    }
    if let Some(k) = case.zero {
        let k = k.min(st.x.len() - 1);
        st.x[k] = 0.0;
        let sum: f64 = st.x.iter().sum();
        st.x.iter_mut().for_each(|v| *v /= sum);
    }
    st
}

/// Residual identities and scaling relations for a state in which one component has exactly
/// zero moles (its ideal-gas terms are singular, its residual chemical potential, dp/dN_i and
/// dmu/dN derivatives are the infinite-dilution values and must obey the same relations).
fn check_zero(case: &Case, obs: &mut Obs) {
    let spec = &case.spec;
    obs.class("zero-mole component");
    let Ok(model) = spec.build() else {
        obs.discard("build");
        return;
    };
    let st = effective_state(case);
    let Ok(inputs) = state_inputs(spec, &model, &st) else {
        obs.discard("inputs");
        return;
    };
    let Ok(s) = build_state(&model, &inputs) else {
        obs.discard("state");
        return;
    };
    use Contributions::Residual as RES;
    let n = spec.n();
    let nm = s.moles.to_reduced();
    let ntot: f64 = nm.sum();
    let v = s.volume.to_reduced();
    let t = s.temperature.to_reduced();
    let rho = s.density.to_reduced();
    let a = s.residual_helmholtz_energy().to_reduced();
    if !a.is_finite() {
        obs.discard(format!("non-finite A_res:{}", spec.label()));
        return;
    }
    // The site-fraction iteration of the association term can fail silently for one dual-number type and
    // not for another (seed 305: random SAFT-VR Mie ternary, dense liquid: A_res = -19 NkT from the f64
    // evaluation, NaN from every first-order evaluation, and NaN for A_res itself after a 1-ulp change of the
    // inputs, so that the JSON replay file does not reproduce the case): the same discard as for a
    // non-finite A_res, as in C08/C09 (open finding C11/association-nonconvergence-flips-with-route).
    // Only models with an association term, and only if the first-order scale itself is not a number.
    if spec.has_association() && !(contrib_abs(&s, PD::First(DV)).is_finite() && contrib_abs(&s, PD::First(DT)).is_finite()) {
        obs.discard(format!("association iteration without result for the first-order dual numbers (non-finite scale):{}", spec.label()));
        return;
    }
    let eta = st.f_eta * spec.opts.max_eta;
    let cond = 1.0 + 1e-2 / eta;
    let stiff = if spec.has_association() { super::c08::assoc_stiffness(spec, t, rho, &st.x, eta) } else { 0.0 };
    if !stiff.is_finite() || stiff > 1e12 {
        obs.discard("association strength overflows (rho*Delta > 1e12)");
        return;
    }
    let tol_id = TOL_ID * cond + 1e-12 * stiff;
    let tol_sc = TOL_SC * cond + 1e-12 * stiff;
    let a_0 = contrib_abs(&s, PD::Zeroth);
    let a_v = contrib_abs(&s, PD::First(DV));
    let a_t = contrib_abs(&s, PD::First(DT));
    let a_n: Vec<f64> = (0..n).map(|i| contrib_abs(&s, PD::First(DN(i)))).collect();
    let a_vv = contrib_abs(&s, PD::Second(DV));
    let a_vn: Vec<f64> = (0..n).map(|i| contrib_abs(&s, PD::Mixed(DV, DN(i)))).collect();
    let a_nn: Vec<Vec<f64>> = (0..n).map(|i| (0..n).map(|j| contrib_abs(&s, PD::Mixed(DN(i), DN(j)))).collect()).collect();
    let p_res = s.pressure(RES).to_reduced();
    let mu = s.residual_chemical_potential().to_reduced();
    let dpdn = s.dp_dni(RES).to_reduced();
    let dmu = s.dmu_dni(RES).to_reduced();
    // Euler, Gibbs-Duhem (residual parts)
    {
        let scale = a_0 + v * a_v + (0..n).map(|i| nm[i] * a_n[i]).sum::<f64>();
        obs.close_scaled("zero-mole: Euler A = -pV + sum mu N", a, -p_res * v + (&mu * &nm).sum(), tol_id, scale);
        let t1 = v * s.dp_dv(RES).to_reduced();
        let t2: f64 = (&dpdn * &nm).sum();
        obs.close_scaled("zero-mole: V dp_dv + sum N dp_dni = 0", t1 + t2, 0.0, tol_id, v * a_vv + (0..n).map(|i| nm[i] * a_vn[i]).sum::<f64>());
        for i in 0..n {
            let lhs: f64 = (0..n).map(|j| nm[j] * dmu[[i, j]]).sum();
            let scale = (0..n).map(|j| nm[j] * a_nn[i][j]).sum::<f64>() + v * a_vn[i];
            obs.close_scaled(&format!("zero-mole: sum_j N_j dmu_dni[{i},j] = V dp_dni[{i}]"), lhs, v * dpdn[i], tol_id, scale);
            for j in i + 1..n {
                obs.close_scaled(&format!("zero-mole: dmu_dni symmetric [{i},{j}]"), dmu[[i, j]], dmu[[j, i]], tol_id, a_nn[i][j]);
            }
        }
    }
    // scaling
    let l = case.lambda2;
    let inputs2 = (inputs.0, inputs.1 * l, &inputs.2 * l);
    if let Ok(s2) = build_state(&model, &inputs2) {
        if spec.has_association() && !(s2.residual_helmholtz_energy().to_reduced().is_finite() && s2.pressure(RES).to_reduced().is_finite()) {
            obs.discard(format!("association iteration without result on the scaled state:{}", spec.label()));
            return;
        }
        let mu2 = s2.residual_chemical_potential().to_reduced();
        let dpdn2 = s2.dp_dni(RES).to_reduced();
        let dmu2 = s2.dmu_dni(RES).to_reduced();
        obs.close_scaled("zero-mole: a_res intensive", a / ntot, s2.residual_helmholtz_energy().to_reduced() / (ntot * l), tol_sc, a_0 / ntot);
        obs.close_scaled("zero-mole: p_res intensive", p_res, s2.pressure(RES).to_reduced(), tol_sc, a_v);
        obs.close_scaled("zero-mole: s_res intensive", s.residual_entropy().to_reduced() / ntot, s2.residual_entropy().to_reduced() / (ntot * l), tol_sc, a_t / ntot);
        for i in 0..n {
            obs.close_scaled(&format!("zero-mole: mu_res[{i}] intensive"), mu[i], mu2[i], tol_sc, a_n[i]);
            obs.close_scaled(&format!("zero-mole: dp_dni[{i}] ~ 1/l"), dpdn[i] / l, dpdn2[i], tol_sc, a_vn[i] / l);
            for j in 0..n {
                obs.close_scaled(&format!("zero-mole: dmu_dni[{i},{j}] ~ 1/l"), dmu[[i, j]] / l, dmu2[[i, j]], tol_sc, a_nn[i][j] / l);
            }
        }
        if (l - 1.0).abs() > 0.01 {
            obs.nontrivial();
        }
    } else {
        obs.discard("scaled state");
    }
}

pub fn check(case: &Case, obs: &mut Obs) {
    let spec = &case.spec;
    obs.class(spec.label());
    if case.tiny {
        obs.class("amount of the order of the reference amount (1/N_A mol)");
    }
    if case.zero.is_some() {
        check_zero(case, obs);
        return;
    }
    obs.class(format!("n={}", spec.n()));
    let model = match spec.build() {
        Ok(m) => m,
        Err(e) => {
            obs.discard(format!("build:{}", e.chars().take(40).collect::<String>()));
            return;
        }
    };
    let eff = effective_state(case);
    let inputs = match state_inputs(spec, &model, &eff) {
        Ok(i) => i,
        Err(e) => {
            obs.discard(format!("inputs:{e}"));
            return;
        }
    };
    let ig = match dippr_model(&case.ig) {
        Ok(m) => m,
        Err(e) => {
            obs.discard(format!("ig:{e}"));
            return;
        }
    };
    let eos = full_model(ig, model.clone());
    let s = match build_state(&eos, &inputs) {
        Ok(s) => s,
        Err(e) => {
            obs.discard(format!("state:{e}"));
            return;
        }
    };
    use Contributions::{IdealGas as IG, Residual as RES, Total as TOT};
    let n = spec.n();
    let nm = s.moles.to_reduced();
    let ntot: f64 = nm.sum();
    let v = s.volume.to_reduced();
    let t = s.temperature.to_reduced();
    let rho = s.density.to_reduced();
    let a = s.residual_helmholtz_energy().to_reduced();
    if !a.is_finite() {
        obs.discard(format!("non-finite A_res:{}", spec.label()));
        return;
    }
    // The site-fraction iteration of the association term can fail silently for one dual-number type and
    // not for another (seed 305: random SAFT-VR Mie ternary, dense liquid: A_res = -19 NkT from the f64
    // evaluation, NaN from every first-order evaluation, and NaN for A_res itself after a 1-ulp change of the
    // inputs, so that the JSON replay file does not reproduce the case): the same discard as for a
    // non-finite A_res, as in C08/C09 (open finding C11/association-nonconvergence-flips-with-route).
    // Only models with an association term, and only if the first-order scale itself is not a number.
    if spec.has_association() && !(contrib_abs(&s, PD::First(DV)).is_finite() && contrib_abs(&s, PD::First(DT)).is_finite()) {
        obs.discard(format!("association iteration without result for the first-order dual numbers (non-finite scale):{}", spec.label()));
        return;
    }
    let p_res = s.pressure(RES).to_reduced();
    let mu = s.residual_chemical_potential().to_reduced();
    let dpdv = s.dp_dv(TOT).to_reduced();
    obs.class(if dpdv < 0.0 { "stable" } else { "mech-unstable" });
    if spec.has_association() {
        obs.class("assoc");
    }
    if spec.has_polar() {
        obs.class("polar");
    }
    // Residual quantities of dilute states are O(eta) results of O(1) arithmetic inside the
    // models (ln(1-eta), 1/(1-eta)^k): relative roundoff grows like eps/eta.
    let eta = case.state.f_eta * spec.opts.max_eta;
    let cond = 1.0 + 1e-2 / eta;
    // Strong association: the closed-form monomer fractions (and the Newton solver) lose
    // ~eps x rho*Delta relative accuracy (measured in a 400 000-case run: 2e-8 in cv for a
    // water_3B mixture at eps_AB/T = 21); same estimate as in c08.rs.
    let stiff = if spec.has_association() {
        super::c08::assoc_stiffness(spec, t, rho, &case.state.x, eta)
    } else {
        0.0
    };
    if !stiff.is_finite() || stiff > 1e12 {
        obs.discard("association strength overflows (rho*Delta > 1e12)");
        return;
    }
    let tol_id = TOL_ID * cond + 1e-12 * stiff;
    let tol_sc = TOL_SC * cond + 1e-12 * stiff;

    // cancellation-safe scales: sum over contributions of |derivative of A_c|
    let a_0 = contrib_abs(&s, PD::Zeroth);
    let a_v = contrib_abs(&s, PD::First(DV));
    let a_t = contrib_abs(&s, PD::First(DT));
    let a_n: Vec<f64> = (0..n).map(|i| contrib_abs(&s, PD::First(DN(i)))).collect();
    let a_vv = contrib_abs(&s, PD::Second(DV));
    let a_tt = contrib_abs(&s, PD::Second(DT));
    let a_vt = contrib_abs(&s, PD::Mixed(DV, DT));
    let a_vn: Vec<f64> = (0..n).map(|i| contrib_abs(&s, PD::Mixed(DV, DN(i)))).collect();
    let a_tn: Vec<f64> = (0..n).map(|i| contrib_abs(&s, PD::Mixed(DT, DN(i)))).collect();
    let a_nn: Vec<Vec<f64>> = (0..n)
        .map(|i| (0..n).map(|j| contrib_abs(&s, PD::Mixed(DN(i), DN(j)))).collect())
        .collect();
    let a_vvv = contrib_abs(&s, PD::Third(DV));
    let a_ttt = contrib_abs(&s, PD::Third(DT));

    let mut big_terms = 0;
    // (1) Euler
    {
        let pv = -p_res * v;
        let mun: f64 = (&mu * &nm).sum();
        let scale = a_0 + v * a_v + (0..n).map(|i| nm[i] * a_n[i]).sum::<f64>();
        obs.close_scaled("Euler A = -pV + sum mu N", a, pv + mun, tol_id, scale);
        if pv.abs() > 1e3 * tol_id * scale && mun.abs() > 1e3 * tol_id * scale {
            big_terms += 1;
        }
    }
    // (2) V dp/dV + sum N_i dp/dN_i = 0
    for (c, cn) in [(TOT, "Total"), (RES, "Residual")] {
        let t1 = v * s.dp_dv(c).to_reduced();
        let dpdn = s.dp_dni(c).to_reduced();
        let t2: f64 = (&dpdn * &nm).sum();
        let mut scale = v * a_vv + (0..n).map(|i| nm[i] * a_vn[i]).sum::<f64>();
        if cn == "Total" {
            scale += 2.0 * rho * t;
        }
        obs.close_scaled(&format!("V dp_dv + sum N dp_dni = 0 ({cn})"), t1 + t2, 0.0, tol_id, scale);
    }
    // (3) sum_j N_j dmu_i/dN_j = V dp/dN_i ; symmetry
    for (c, cn) in [(TOT, "Total"), (RES, "Residual")] {
        let dmu = s.dmu_dni(c).to_reduced();
        let dpdn = s.dp_dni(c).to_reduced();
        for i in 0..n {
            let lhs: f64 = (0..n).map(|j| nm[j] * dmu[[i, j]]).sum();
            let rhs = v * dpdn[i];
            let mut scale = (0..n).map(|j| nm[j] * a_nn[i][j]).sum::<f64>() + v * a_vn[i];
            if cn == "Total" {
                scale += 2.0 * t;
            }
            obs.close_scaled(&format!("sum_j N_j dmu_dni[{i},j] = V dp_dni[{i}] ({cn})"), lhs, rhs, tol_id, scale);
            for j in i + 1..n {
                obs.close_scaled(&format!("dmu_dni symmetric [{i},{j}] ({cn})"), dmu[[i, j]], dmu[[j, i]], tol_id, a_nn[i][j]);
            }
        }
    }
    // conditioning of dp_dv and p (cancellation between ideal and residual parts)
    let kap = (rho * t / v + a_vv) / dpdv.abs();
    let p_tot = s.pressure(TOT).to_reduced();
    let kap_p = (rho * t + a_v) / p_tot.abs();
    let well = kap < 1e4;
    let dpdn_abs: Vec<f64> = (0..n).map(|i| t / v + a_vn[i]).collect();
    let dpdt_abs = rho + a_vt;
    // (4) sum_i N_i dlnphi_i/dN_j = 0 at constant T, p ; (5) partial molar properties
    if well {
        let tol = tol_id * kap;
        let dln = (s.dln_phi_dnj() * Moles::from_reduced(1.0)).into_value();
        for j in 0..n {
            let lhs: f64 = (0..n).map(|i| nm[i] * dln[[i, j]]).sum();
            let scale: f64 = (0..n)
                .map(|i| nm[i] * (a_nn[i][j] / t + dpdn_abs[i] * dpdn_abs[j] / dpdv.abs() / t + 1.0 / ntot))
                .sum();
            obs.close_scaled(&format!("sum_i N_i dln_phi_dnj[i,{j}] = 0"), lhs, 0.0, tol, scale);
        }
        let x = &s.molefracs;
        let vbar = s.partial_molar_volume().to_reduced();
        let vm = v / ntot;
        let sc = (0..n).map(|i| x[i] * dpdn_abs[i] / dpdv.abs()).sum::<f64>() + vm;
        obs.close_scaled("sum x_i vbar_i = V/N", (&vbar * x).sum(), vm, tol, sc);
        let sbar = s.partial_molar_entropy().to_reduced();
        let sm = s.molar_entropy(TOT).to_reduced();
        let dmu_dt_ig = s.dmu_dt(IG).to_reduced();
        let s_abs = (s.entropy(IG).to_reduced().abs() + a_t) / ntot;
        let sc_s: f64 = (0..n)
            .map(|i| x[i] * (dmu_dt_ig[i].abs() + a_tn[i] + dpdn_abs[i] * dpdt_abs / dpdv.abs()))
            .sum::<f64>()
            + s_abs;
        obs.close_scaled("sum x_i sbar_i = s", (&sbar * x).sum(), sm, tol, sc_s);
        let hbar = s.partial_molar_enthalpy().to_reduced();
        let hm = s.molar_enthalpy(TOT).to_reduced();
        let mu_ig = s.chemical_potential(IG).to_reduced();
        let h_abs = (s.enthalpy(IG).to_reduced().abs() + a_0 + t * a_t + v * a_v) / ntot;
        let sc_h = sc_s * t + (0..n).map(|i| x[i] * (mu_ig[i].abs() + a_n[i])).sum::<f64>() + h_abs;
        obs.close_scaled("sum x_i hbar_i = h", (&hbar * x).sum(), hm, tol, sc_h);
    } else {
        obs.class("near-spinodal: dp_dv-dependent checks skipped");
    }
    // (6) scaling (V, N) -> (l V, l N)
    let l = case.lambda2;
    let inputs2 = (inputs.0, inputs.1 * l, &inputs.2 * l);
    match build_state(&eos, &inputs2) {
        Err(e) => obs.discard(format!("scaled state:{e}")),
        // the site-fraction iteration (started from 0.2 on every fresh state, convergence test norm(g) < tol on
        // numbers of the order rho*Delta) ends on either side of its test after a 1-ulp change of V and N: a
        // scaled state without result is the same discard as a centre state without result
        Ok(s2) if spec.has_association() && !(s2.residual_helmholtz_energy().to_reduced().is_finite() && s2.pressure(RES).to_reduced().is_finite()) => {
            obs.discard(format!("association iteration without result on the scaled state:{}", spec.label()))
        }
        Ok(s2) => {
            type S = State<FullModel>;
            // getters with a contribution selector: scale = |ideal part| + sum_c |residual contribution|
            macro_rules! sel {
                ($name:expr, $f:expr, $res_abs:expr, $pow:expr) => {{
                    let f = $f;
                    let lp = l.powi($pow);
                    let ra: f64 = $res_abs;
                    let sc = f(&s, IG).abs() + ra;
                    obs.close_scaled($name, f(&s, TOT) * lp, f(&s2, TOT), tol_sc, sc * lp);
                    obs.close_scaled(concat!($name, " (residual)"), f(&s, RES) * lp, f(&s2, RES), tol_sc, ra * lp);
                }};
            }
            let u_abs = a_0 + t * a_t;
            let h_abs = u_abs + v * a_v;
            let g_abs = a_0 + v * a_v;
            sel!("pressure", |s: &S, c| s.pressure(c).to_reduced(), a_v, 0);
            sel!("Z", |s: &S, c| s.compressibility(c), a_v / (rho * t), 0);
            sel!("molar helmholtz", |s: &S, c| s.molar_helmholtz_energy(c).to_reduced(), a_0 / ntot, 0);
            sel!("molar entropy", |s: &S, c| s.molar_entropy(c).to_reduced(), a_t / ntot, 0);
            sel!("molar enthalpy", |s: &S, c| s.molar_enthalpy(c).to_reduced(), h_abs / ntot, 0);
            sel!("molar internal energy", |s: &S, c| s.molar_internal_energy(c).to_reduced(), u_abs / ntot, 0);
            sel!("molar gibbs", |s: &S, c| s.molar_gibbs_energy(c).to_reduced(), g_abs / ntot + t * (1.0 + kap_p.min(1e4)), 0);
            sel!("cv", |s: &S, c| s.molar_isochoric_heat_capacity(c).to_reduced(), t * a_tt / ntot, 0);
            // dc_v/dT = (T d2S/dT2 + dS/dT)/N: the two ideal-gas terms cancel as well
            let ig_abs = (t * s.d2s_dt2(IG).to_reduced().abs() + s.ds_dt(IG).to_reduced().abs()) / ntot;
            sel!("dc_v_dt", |s: &S, c| s.dc_v_dt(c).to_reduced(), (t * a_ttt + a_tt) / ntot + ig_abs, 0);
            sel!("dp_dt", |s: &S, c| s.dp_dt(c).to_reduced(), a_vt, 0);
            sel!("dp_drho", |s: &S, c| s.dp_drho(c).to_reduced(), v / rho * a_vv, 0);
            sel!("d2p_drho2", |s: &S, c| s.d2p_drho2(c).to_reduced(), v / (rho * rho) * (v * a_vvv + 2.0 * a_vv), 0);
            sel!("A extensive", |s: &S, c| s.helmholtz_energy(c).to_reduced(), a_0, 1);
            sel!("S extensive", |s: &S, c| s.entropy(c).to_reduced(), a_t, 1);
            sel!("H extensive", |s: &S, c| s.enthalpy(c).to_reduced(), h_abs, 1);
            sel!("U extensive", |s: &S, c| s.internal_energy(c).to_reduced(), u_abs, 1);
            sel!("ds_dt ~ l", |s: &S, c| s.ds_dt(c).to_reduced(), a_tt, 1);
            sel!("d2s_dt2 ~ l", |s: &S, c| s.d2s_dt2(c).to_reduced(), a_ttt, 1);
            sel!("dp_dv ~ 1/l", |s: &S, c| s.dp_dv(c).to_reduced(), a_vv, -1);
            sel!("d2p_dv2 ~ 1/l^2", |s: &S, c| s.d2p_dv2(c).to_reduced(), a_vvv, -2);
            if model.has_molar_weight() {
                let mw = s.total_molar_weight().to_reduced();
                sel!("specific enthalpy", |s: &S, c| s.specific_enthalpy(c).to_reduced(), h_abs / ntot / mw, 0);
                sel!("specific entropy", |s: &S, c| s.specific_entropy(c).to_reduced(), a_t / ntot / mw, 0);
                obs.close("mass density", s.mass_density().to_reduced(), s2.mass_density().to_reduced(), tol_sc, 0.0);
                obs.close("total mass ~ l", s.total_mass().to_reduced() * l, s2.total_mass().to_reduced(), tol_sc, 0.0);
            }
            obs.close_scaled("residual molar entropy", s.residual_molar_entropy().to_reduced(), s2.residual_molar_entropy().to_reduced(), tol_sc, a_t / ntot);
            obs.close_scaled("residual molar helmholtz", s.residual_molar_helmholtz_energy().to_reduced(), s2.residual_molar_helmholtz_energy().to_reduced(), tol_sc, a_0 / ntot);
            for i in 0..n {
                sel!("mu[i]", |s: &S, c| s.chemical_potential(c).to_reduced()[i], a_n[i], 0);
                sel!("dmu_dt[i]", |s: &S, c| s.dmu_dt(c).to_reduced()[i], a_tn[i], 0);
                sel!("dp_dni[i] ~ 1/l", |s: &S, c| s.dp_dni(c).to_reduced()[i], a_vn[i], -1);
                for j in 0..n {
                    let aij = a_nn[i][j];
                    sel!("dmu_dni[i,j] ~ 1/l", |s: &S, c| s.dmu_dni(c).to_reduced()[[i, j]], aij, -1);
                }
            }
            // ln phi (defined for positive pressure only)
            if p_tot > 0.0 && kap_p < 1e4 {
                let (lp1, lp2) = (s.ln_phi(), s2.ln_phi());
                for i in 0..n {
                    let sc = a_n[i] / t + s.compressibility(TOT).ln().abs() + kap_p;
                    obs.close_scaled(&format!("ln_phi[{i}]"), lp1[i], lp2[i], tol_sc, sc);
                }
            } else {
                obs.class("p<=0 or ill-conditioned p: ln_phi skipped");
            }
            // quantities that divide by dp_dv: tolerance scaled with its conditioning
            if well && kap_p < 1e4 {
                let tol = 10.0 * tol_sc * kap;
                let cp = s.molar_isobaric_heat_capacity(TOT).to_reduced();
                let cv = s.molar_isochoric_heat_capacity(TOT).to_reduced();
                let cv_abs = t * (s.ds_dt(IG).to_reduced().abs() + a_tt) / ntot;
                let cp_abs = cv_abs + t / ntot * dpdt_abs * dpdt_abs / dpdv.abs();
                let a_jt = (v + t * dpdt_abs / dpdv.abs()) / (ntot * cp.abs());
                let kcp = cp_abs / cp.abs();
                let kcv = (cv_abs / cv.abs()).max(1.0);
                obs.close_scaled("cp", cp, s2.molar_isobaric_heat_capacity(TOT).to_reduced(), tol, cp_abs);
                if kcp < 1e4 && kcv < 1e4 {
                    let tol = tol * kcp * kcv;
                    obs.close_scaled("joule_thomson", s.joule_thomson().to_reduced(), s2.joule_thomson().to_reduced(), tol, a_jt);
                    let ks = s.isentropic_compressibility().to_reduced();
                    obs.close("kappa_s", ks, s2.isentropic_compressibility().to_reduced(), tol, 0.0);
                    obs.close("grueneisen", s.grueneisen_parameter(), s2.grueneisen_parameter(), tol, 0.0);
                    if model.has_molar_weight() && dpdv < 0.0 && cp > 0.0 && cv > 0.0 {
                        obs.close("speed of sound", s.speed_of_sound().to_reduced(), s2.speed_of_sound().to_reduced(), tol, 0.0);
                    }
                }
                obs.close("kappa_T", s.isothermal_compressibility().to_reduced(), s2.isothermal_compressibility().to_reduced(), tol, 0.0);
                let al = s.thermal_expansivity().to_reduced();
                obs.close_scaled("alpha_p", al, s2.thermal_expansivity().to_reduced(), tol, dpdt_abs / dpdv.abs() / v);
                obs.close("structure factor", s.structure_factor(), s2.structure_factor(), tol, 0.0);
                let (pv1, pv2) = (s.partial_molar_volume().to_reduced(), s2.partial_molar_volume().to_reduced());
                let (dq1, dq2) = (s.dln_phi_dp().to_reduced(), s2.dln_phi_dp().to_reduced());
                let (dl1, dl2) = (s.dln_phi_dt().to_reduced(), s2.dln_phi_dt().to_reduced());
                let (ps1, ps2) = (s.partial_molar_entropy().to_reduced(), s2.partial_molar_entropy().to_reduced());
                let (ph1, ph2) = (s.partial_molar_enthalpy().to_reduced(), s2.partial_molar_enthalpy().to_reduced());
                let dmu_dt_ig = s.dmu_dt(IG).to_reduced();
                let mu_ig = s.chemical_potential(IG).to_reduced();
                for i in 0..n {
                    let sc_v = dpdn_abs[i] / dpdv.abs();
                    obs.close_scaled(&format!("partial_molar_volume[{i}]"), pv1[i], pv2[i], tol, sc_v);
                    obs.close_scaled(&format!("dln_phi_dp[{i}]"), dq1[i], dq2[i], tol * kap_p, sc_v / t + 1.0 / p_tot.abs());
                    let sc_t = (a_tn[i] + a_n[i] / t + sc_v * dpdt_abs) / t + 1.0 / t;
                    obs.close_scaled(&format!("dln_phi_dt[{i}]"), dl1[i], dl2[i], tol, sc_t);
                    let sc_s = dmu_dt_ig[i].abs() + a_tn[i] + sc_v * dpdt_abs;
                    obs.close_scaled(&format!("partial_molar_entropy[{i}]"), ps1[i], ps2[i], tol, sc_s);
                    obs.close_scaled(&format!("partial_molar_enthalpy[{i}]"), ph1[i], ph2[i], tol, sc_s * t + mu_ig[i].abs() + a_n[i]);
                }
                if n > 1 {
                    let (g1, g2) = (s.thermodynamic_factor(), s2.thermodynamic_factor());
                    for i in 0..n - 1 {
                        for j in 0..n - 1 {
                            let sc = 1.0
                                + nm[i]
                                    * ((a_nn[i][j] + a_nn[i][n - 1]) / t
                                        + dpdn_abs[i] * (dpdn_abs[j] + dpdn_abs[n - 1]) / dpdv.abs() / t
                                        + 2.0 / ntot);
                            obs.close_scaled(&format!("thermodynamic_factor[{i},{j}]"), g1[[i, j]], g2[[i, j]], tol, sc);
                        }
                    }
                }
            }
        }
    }
    let mix_ok = n == 1 || s.molefracs.iter().all(|&x| (0.02..=0.98).contains(&x));
    if big_terms > 0 && mix_ok && (l - 1.0).abs() > 0.01 {
        obs.nontrivial();
    }
    let eta_class = if case.state.f_eta < 1e-3 {
        "dilute"
    } else if case.state.f_eta < 0.2 {
        "gas-like"
    } else {
        "dense"
    };
    obs.class(eta_class);
}

const PART: PartCfg = PartCfg {
    name: "sampled",
    genome_len: 96,
    cases_quick: 30000,
    cases_thorough: 1_000_000,
    panic: PanicPolicy::Count,
};

pub fn run(ctx: &Ctx) {
    ctx.set_rule("sampled: proptest genomes -> (model spec from the zoo: 13 families, shipped/perturbed/random records, 1-3 components, options) x (tau in [0.4,3], eta fraction log-uniform in [2e-6,0.9], composition in the open simplex, moles log-uniform 1e-3..1e3) x scale factor lambda' log-uniform in [1e-3,1e3]. Non-trivial: both -pV and sum mu_i N_i exceed 1e3 x tolerance of the Euler scale, mixtures have all x_i in [0.02,0.98], and lambda' differs from 1 by > 1%. Distinct by hash of the canonical case JSON.");
    ctx.assume("identities are compared in reduced units with tolerance 1e-9*(1+1e-2/eta) + 1e-12*rho*Delta(association stiffness) of the sum over contributions of |constituent terms| (public derive*/contributions route); scaling relations with 1e-8*(1+1e-2/eta) + 1e-12*rho*Delta; quantities dividing by dp_dv get the conditioning factor of dp_dv and are skipped beyond 1e4 (near the spinodal)");
    ctx.assume("ideal-gas part for total properties: DIPPR records from parameters/ideal_gas/poling2000.json");
    ctx.run_sampled(&PART, &decode, &check);
}

pub fn replay(ctx: &Ctx, _part: &str, case: &Value) -> bool {
    ctx.replay_case::<Case>(case, &check)
}
