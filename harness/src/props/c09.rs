//! C09 — results are invariant under relabelling, padding and splitting of components; sub-models
//! behave like directly built models with the same options.
//!
//! Five sampled parts, one per clause of the property. Every comparison goes through the public
//! `State` getters (beta A_res/N, p_res, S_res, mu_res_i, dp/dV, dp/dT, dp/dN_i, dmu_i/dN_j) with
//! the cancellation-safe scales of C08 (`super::c08::{props, compare}`).
use super::c08::{
    assoc_stiffness, compare, density_class, dft_signatures, feature_classes, mr_f64, props, site_moles_fraction,
    split_spec, strip_polar, with_stiffness, with_typed, Inputs, Props, Tol, Visitor, ATOL_A, FLOOR_ASSOC, TOL_ASSOC,
};
use crate::engine::{Ctx, Gen, Obs, PanicPolicy, PartCfg};
use crate::model::*;
use feos::core::{
    Components, Contributions, DensityInitialization, PhaseEquilibrium, ReferenceSystem, Residual, SolverOptions, State,
};
use ndarray::Array1;
use quantity::*;
use serde::{Deserialize, Serialize};
use serde_json::{json, Value};
use std::collections::BTreeMap;
use std::sync::Arc;

#[derive(Serialize, Deserialize, Clone, Copy, Debug, PartialEq, Eq)]
pub enum Clause {
    Permute,
    Pad,
    Split,
    Subset,
    PureQuantities,
}

#[derive(Serialize, Deserialize, Clone, Debug)]
pub struct Case {
    pub clause: Clause,
    /// the full model
    pub spec: ModelSpec,
    /// state of the compared (smaller) system; compositions are expanded / permuted by the check
    pub state: StateSpec,
    /// Pad: components with zero moles. Subset: unused.
    pub absent: Vec<usize>,
    /// Split: component and fraction kept in the first copy
    pub comp: usize,
    pub split: f64,
    /// Subset (n = 4 only): which ordered subsets are visited (indices into the enumeration)
    pub picks: Vec<usize>,
    /// PureQuantities: T / min_i T_c,i and pressure factor over the largest pure vapour pressure
    pub tau_vle: f64,
    pub p_factor: f64,
}

// same value through relabelled / padded / split / sub-model code: summation order only
const TOL_RELABEL: Tol = Tol { rel: 2e-12, round: 2e-12 };
// group-contribution models iterate HashMaps while building (per-process order)
const TOL_RELABEL_GC: Tol = Tol { rel: 1e-11, round: 1e-11 };
/// solver results (saturation pressure, densities, critical point, Henry constant): both sides run the
/// same algorithm with the same tolerances on the same model; measured <= 1e-12, see calibration
const RTOL_SOLVER: f64 = 1e-7;
/// gc-PC-SAFT parameter sets differ at 1e-16 between two builds (HashMap order); saturation pressures
/// of heavy components (p_sat ~ 1e-12 in reduced units) are converged to ~1e-5 relative only
const RTOL_SOLVER_GC: f64 = 1e-3;

/// relabelling tolerance per family
fn base_tol(f: Family) -> Tol {
    match f {
        // a single contribution: repulsion and attraction cancel inside it, which the
        // per-contribution scale cannot see (measured up to 4.5e-11 of |A| over 28 seeds)
        Family::PengRobinson => Tol { rel: 3e-9, round: 1e-12 },
        // HashMap build order (gc) / ionic, Born and permittivity terms / the combined
        // "Dispersion + Chain" contribution of SAFT-VR Mie with internal cancellation (measured 4e-13)
        Family::GcPcSaft | Family::GcPcSaftFunctional | Family::EPcSaft | Family::SaftVRMie => TOL_RELABEL_GC,
        _ => TOL_RELABEL,
    }
}
fn is_gc(f: Family) -> bool {
    matches!(f, Family::GcPcSaft | Family::GcPcSaftFunctional)
}
fn is_functional(f: Family) -> bool {
    matches!(
        f,
        Family::PcSaftFunctional
            | Family::GcPcSaftFunctional
            | Family::PetsFunctional
            | Family::FmtFunctional
            | Family::SaftVRQMieFunctional
    )
}

// ---------------------------------------------------------------------------------------
// Generators
// ---------------------------------------------------------------------------------------
/// Non-default options for every family (the property quantifies over all option structs).
fn force_opts(g: &mut Gen, spec: &mut ModelSpec) {
    let o = &mut spec.opts;
    if g.bool(0.75) {
        o.max_eta = g.range(0.35, 0.65);
    }
    if g.bool(0.5) {
        o.max_iter_cross_assoc = g.int(40, 300) as usize;
        o.tol_cross_assoc = g.log_range(1e-12, 1e-9);
    }
    match spec.family {
        Family::PcSaft | Family::PcSaftFunctional => o.dq44 = g.bool(0.5),
        _ => {}
    }
    if is_functional(spec.family) {
        o.fmt = g.index(3) as u8;
    }
    if matches!(spec.family, Family::SaftVRQMie | Family::SaftVRQMieFunctional) {
        o.inc_nonadd = g.bool(0.5);
    }
    // the revised ePC-SAFT variant has no ionic term by documented design: only without ions
    if spec.family == Family::EPcSaft && !spec.source.starts_with("shipped") {
        o.epc_revised = g.bool(0.5);
    }
}

/// families weighted by cost: functionals of SAFT-VRQ Mie / gc-PC-SAFT are 50-250 ms per state
fn families_weighted() -> Vec<Family> {
    let mut f = vec![];
    for fam in [
        Family::PcSaft,
        Family::PengRobinson,
        Family::SaftVRMie,
        Family::Pets,
        Family::UVTheory,
        Family::EPcSaft,
        Family::GcPcSaft,
        Family::SaftVRQMie,
    ] {
        f.extend([fam; 3]);
    }
    f.extend([Family::PcSaft; 4]);
    f.extend([Family::PcSaftFunctional; 4]);
    f.extend([Family::PetsFunctional, Family::FmtFunctional, Family::FmtFunctional]);
    f.extend([Family::GcPcSaftFunctional, Family::SaftVRQMieFunctional]);
    f
}

fn decode_clause(clause: Clause) -> impl Fn(&mut Gen) -> Case + Sync {
    move |g: &mut Gen| {
        let (min_comp, max_comp) = match clause {
            Clause::Permute | Clause::Pad | Clause::Subset => (2, 4),
            Clause::Split => (1, 3),
            Clause::PureQuantities => (2, 3),
        };
        let families = match clause {
            // phase equilibria of the pure components must exist; equations of state only (the pure
            // vs mixture code paths of the functionals are the subject of the pad clause)
            Clause::PureQuantities => {
                let mut f = vec![Family::PcSaft; 4];
                f.extend([Family::PengRobinson; 3]);
                f.extend([Family::SaftVRMie; 3]);
                f.extend([Family::Pets; 2]);
                f.extend([Family::UVTheory, Family::GcPcSaft, Family::SaftVRQMie]);
                f
            }
            _ => families_weighted(),
        };
        let mut spec = gen_model(g, &GenCfg { families, min_comp, max_comp });
        if clause == Clause::PureQuantities && spec.n() == 3 && g.bool(0.85) {
            // ternaries cost 0.3-3 s each (bubble points, three critical points): one in seven
            spec = spec.subset(&[0, 1]);
        }
        force_opts(g, &mut spec);
        if clause == Clause::Split && spec.family == Family::EPcSaft && spec.source.starts_with("shipped") {
            // `water_sigma_t_comp: Option<usize>`: only ONE component can carry the temperature
            // dependent water diameter, so two copies of that record are not two identical components
            // by construction of the model; use a solvent that is not recognised as "the" water
            spec.pure[0]["model_record"]["m"] = json!(1.21);
            spec.source = format!("{}+solvent with constant sigma", spec.source);
        }
        if clause == Clause::Split && is_gc(spec.family) {
            // group-group k_ij of the binary table act between groups of *different* components only
            // (model definition): (A, A) is not the same fluid as A there
            if let Some((sf, _)) = spec.seg.clone() {
                spec.seg = Some((sf, None));
            }
        }
        let n = spec.n();
        let ions = spec.family == Family::EPcSaft && spec.source.starts_with("shipped");
        let mut absent = vec![];
        let mut comp = 0;
        let mut split = 0.5;
        let mut picks = vec![];
        let n_state = match clause {
            Clause::Pad => {
                if ions {
                    absent = vec![1, 2];
                } else {
                    let k = if n > 2 && g.bool(0.4) { 2 } else { 1 };
                    let perm = g.permutation(n);
                    absent = perm[..k.min(n - 1)].to_vec();
                    absent.sort();
                }
                n - absent.len()
            }
            Clause::Split => {
                comp = if ions { 0 } else { g.index(n) };
                split = g.range(0.02, 0.98);
                n
            }
            Clause::Subset => {
                picks = (0..10).map(|_| g.index(64)).collect();
                n
            }
            _ => n,
        };
        let state = gen_state(g, n_state);
        let tau_vle = g.range(0.55, 0.92);
        let p_factor = g.log_range(1.05, 30.0);
        Case { clause, spec, state, absent, comp, split, picks, tau_vle, p_factor }
    }
}

// ---------------------------------------------------------------------------------------
// Known-finding signatures
// ---------------------------------------------------------------------------------------
/// contributions that contain the association term (the pure-component PC-SAFT functional evaluates
/// it together with FMT) / the dispersion + polar terms, in any family
const ASSOC_NAMES: [&str; 5] =
    ["Association", "Pure FMT+association", "FMT functional (WB)", "FMT functional (KR)", "FMT functional (AntiSymWB)"];
const CHAIN_NAMES: [&str; 4] = ["Ideal chain", "Pure chain", "Hard chain functional", "Hard Chain"];
const POLAR_NAMES: [&str; 6] =
    ["Attractive functional", "Pure attractive", "Dispersion", "Dipole", "Quadrupole", "DipoleQuadrupole"];

/// (finding id, names of the contributions that are left out when the rest is asserted)
fn signatures(l: &ModelSpec, r: &ModelSpec) -> Vec<(String, Vec<&'static str>)> {
    let mut out: Vec<(String, Vec<&'static str>)> = vec![];
    // root causes recorded under C08 (defects of the Helmholtz energy functionals) break the
    // invariances whenever the two sides take different code paths or component indices
    for s in [l, r] {
        for k in dft_signatures(s) {
            let (id, names): (&str, Vec<&'static str>) = match k.id {
                "C08/pcsaft-functional-pure-dipole-quadrupole" => ("C09/pcsaft-functional-pure-dipole-quadrupole", POLAR_NAMES.to_vec()),
                "C08/pcsaft-functional-quadrupole-cross-term" => ("C09/pcsaft-functional-quadrupole-cross-term", POLAR_NAMES.to_vec()),
                "C08/association-functional-strength-of-component-0" => {
                    ("C09/association-functional-strength-of-component-0", ASSOC_NAMES.to_vec())
                }
                "C08/association-functional-drops-c-sites" => ("C09/association-functional-drops-c-sites", ASSOC_NAMES.to_vec()),
                "C08/pcsaft-functional-pure-chain-m-below-1" => ("C09/pcsaft-functional-pure-chain-m-below-1", CHAIN_NAMES.to_vec()),
                _ => continue,
            };
            if !out.iter().any(|(i, _)| i == id) {
                out.push((id.to_string(), names));
            }
        }
    }
    // PC-SAFT equation of state: quadrupole pair term between different components divides by
    // sigma_ii^7 of the lower-index component instead of sigma_ij^7
    for s in [l, r] {
        if s.family == Family::PcSaft {
            let quad: Vec<f64> = s.pure.iter().filter(|p| mr_f64(p, "q") != 0.0).map(|p| mr_f64(p, "sigma")).collect();
            if quad.iter().any(|a| quad.iter().any(|b| a != b)) && !out.iter().any(|(i, _)| i.ends_with("quadrupole-pair-sigma")) {
                out.push(("C09/pcsaft-quadrupole-pair-sigma".to_string(), vec!["Quadrupole"]));
            }
        }
    }
    out
}

// ---------------------------------------------------------------------------------------
// Pair comparison with known-finding handling
// ---------------------------------------------------------------------------------------
struct Side<'a> {
    spec: &'a ModelSpec,
    model: &'a Arc<Model>,
    inp: &'a Inputs,
}

/// tolerance of one pair: relabelling tolerance, widened where an association term is present
/// (iterative solver: converged to tol_cross_assoc from a different start / site order)
fn pair_tol(spec: &ModelSpec, l: &Props, f_eta: f64) -> (Tol, f64, f64) {
    let base = base_tol(spec.family);
    let assoc = l.contributions.iter().any(|(n, v)| (n.contains("ssociation")) && *v > 0.0) || spec.has_association();
    if !assoc {
        return (base, 0.0, 0.0);
    }
    let x = vec![1.0; spec.n()];
    let stiff = assoc_stiffness(spec, l.t, l.ntot / l.vol, &x, f_eta * spec.opts.max_eta);
    let sites = site_moles_fraction(spec).max(4.0);
    let extra = 100.0 * spec.opts.tol_cross_assoc.max(1e-10) * sites;
    (with_stiffness(Tol { rel: 2.0 * TOL_ASSOC.rel, round: TOL_ASSOC.round }, stiff), extra, FLOOR_ASSOC * sites)
}

/// Returns the number of sharp comparisons (see c08::compare), or None when a side failed.
fn pair_compare(obs: &mut Obs, key: &str, l: Side, r: Side, map: &[usize], f_eta: f64) -> Option<u32> {
    let lp = match props(l.model, l.inp, &[]) {
        Ok(p) => p,
        Err(e) => {
            obs.discard(format!("left state:{}", e.chars().take(40).collect::<String>()));
            return None;
        }
    };
    let rp = match props(r.model, r.inp, &[]) {
        Ok(p) => p,
        Err(e) => {
            obs.discard(format!("right state:{}", e.chars().take(40).collect::<String>()));
            return None;
        }
    };
    if !lp.a.0.is_finite() && !rp.a.0.is_finite() {
        obs.discard(format!("non-finite A_res on both sides:{:?}", l.spec.family));
        return None;
    }
    if (!lp.a.0.is_finite() || !rp.a.0.is_finite()) && (l.spec.has_association() || r.spec.has_association()) {
        // NotConverged of the iterative solver is reported as NaN: a failure to return a value (the
        // forced options go down to tol_cross_assoc = 1e-12), not an altered value
        obs.discard(format!("non-finite A_res on one side (cross-association solver not converged):{:?}", l.spec.family));
        return None;
    }
    {
        // a contribution whose derivative overflows (exp(eps_AB/T) at the cold end of the domain)
        // makes the cancellation-safe scale non-finite although the total is finite: nothing to compare
        let finite = |p: &Props| [p.a, p.p, p.s, p.dpdv, p.dpdt].iter().all(|q| q.1.is_finite());
        if !finite(&lp) || !finite(&rp) {
            obs.discard(format!("non-finite scale (a contribution overflows):{:?}", l.spec.family));
            return None;
        }
    }
    let (tol, extra, floor) = pair_tol(l.spec, &lp, f_eta);
    // only findings listed as open may mask: a fixed entry suppresses nothing
    let mut sigs = signatures(l.spec, r.spec);
    sigs.retain(|(id, _)| crate::engine::known_open(id));
    let mut probe = Obs::default();
    let key = &format!("{key}/{:?}", l.spec.family);
    let pkey = if sigs.is_empty() { key.to_string() } else { format!("{key}(probe)") };
    let sharp = compare(&mut probe, &pkey, &lp, &rp, map, tol, extra, floor);
    if probe.fails.is_empty() || sigs.is_empty() {
        obs.comparisons += probe.comparisons;
        for f in probe.fails {
            obs.fail(f);
        }
        return Some(sharp);
    }
    let mut names: Vec<&str> = vec![];
    for (id, nm) in &sigs {
        obs.class(format!("signature:{id}"));
        obs.known_or_fail(id, probe.fails[0].clone());
        names.extend(nm.iter().copied());
    }
    let (Ok(lx), Ok(rx)) = (props(l.model, l.inp, &names), props(r.model, r.inp, &names)) else {
        obs.discard("masked state");
        return None;
    };
    Some(compare(obs, &format!("{key}(masked)"), &lx, &rx, map, tol, extra, floor))
}

macro_rules! try_discard {
    ($obs:expr, $what:expr, $e:expr) => {
        match $e {
            Ok(v) => v,
            Err(e) => {
                let e: String = e;
                $obs.discard(format!("{}:{}", $what, e.chars().take(48).collect::<String>()));
                return;
            }
        }
    };
}

fn all_permutations(n: usize) -> Vec<Vec<usize>> {
    fn rec(cur: &mut Vec<usize>, used: &mut Vec<bool>, n: usize, out: &mut Vec<Vec<usize>>) {
        if cur.len() == n {
            out.push(cur.clone());
            return;
        }
        for i in 0..n {
            if !used[i] {
                used[i] = true;
                cur.push(i);
                rec(cur, used, n, out);
                cur.pop();
                used[i] = false;
            }
        }
    }
    let mut out = vec![];
    rec(&mut vec![], &mut vec![false; n], n, &mut out);
    out
}

/// every non-empty ordered subset of 0..n
fn ordered_subsets(n: usize) -> Vec<Vec<usize>> {
    let mut out = vec![];
    for mask in 1u32..(1 << n) {
        let idx: Vec<usize> = (0..n).filter(|i| mask & (1 << i) != 0).collect();
        for p in all_permutations(idx.len()) {
            out.push(p.iter().map(|&k| idx[k]).collect());
        }
    }
    out
}

// ---------------------------------------------------------------------------------------
// Check
// ---------------------------------------------------------------------------------------
pub fn check(case: &Case, obs: &mut Obs) {
    let spec = &case.spec;
    obs.class(format!("{:?}", spec.family));
    obs.class(format!("n={}", spec.n()));
    obs.class(density_class(case.state.f_eta).to_string());
    let d = Opts::default();
    let o = &spec.opts;
    if o.max_eta != d.max_eta {
        obs.class("option:max_eta");
    }
    if o.tol_cross_assoc != d.tol_cross_assoc || o.max_iter_cross_assoc != d.max_iter_cross_assoc {
        obs.class("option:cross-association solver");
    }
    if o.dq44 && matches!(spec.family, Family::PcSaft | Family::PcSaftFunctional) {
        obs.class("option:DQ44");
    }
    if o.fmt != 0 && is_functional(spec.family) {
        obs.class(format!("option:fmt{}", o.fmt));
    }
    if o.perturbation != 0 && spec.family == Family::UVTheory {
        obs.class(format!("option:perturbation{}", o.perturbation));
    }
    if !o.inc_nonadd && matches!(spec.family, Family::SaftVRQMie | Family::SaftVRQMieFunctional) {
        obs.class("option:inc_nonadd_term=false");
    }
    if o.epc_revised && spec.family == Family::EPcSaft {
        obs.class("option:ePC-SAFT revised");
    }
    if spec.binary.iter().any(|(_, _, b)| b.get("kappa_ab").is_some()) {
        obs.class("binary association override");
    }
    if spec.binary.iter().any(|(_, _, b)| b.get("l_ij").is_some()) {
        obs.class("binary l_ij");
    }
    if !spec.binary.is_empty() {
        obs.class("binary records");
    }
    match case.clause {
        Clause::Permute => check_permute(case, obs),
        Clause::Pad => check_pad(case, obs),
        Clause::Split => check_split(case, obs),
        Clause::Subset => check_subset(case, obs),
        Clause::PureQuantities => check_pure(case, obs),
    }
}

fn check_permute(case: &Case, obs: &mut Obs) {
    let spec = &case.spec;
    let n = spec.n();
    let left = try_discard!(obs, "build", spec.build());
    let inp = try_discard!(obs, "inputs", state_inputs(spec, &left, &case.state));
    let nl = inp.2.to_reduced();
    if let Ok(p) = props(&left, &inp, &[]) {
        feature_classes(obs, "permute", spec, &p);
    }
    let distinct = spec.pure.iter().any(|p| p != &spec.pure[0]);
    let mut sharp_all = true;
    let mut count = 0;
    for perm in all_permutations(n) {
        if perm.iter().enumerate().all(|(k, &p)| k == p) {
            continue;
        }
        let rs = spec.permuted(&perm);
        let right = try_discard!(obs, "build permuted", rs.build());
        let nr: Vec<f64> = perm.iter().map(|&p| nl[p]).collect();
        let inp_r: Inputs = (inp.0, inp.1, Moles::from_reduced(Array1::from_vec(nr)));
        let Some(sharp) = pair_compare(
            obs,
            "permute",
            Side { spec, model: &left, inp: &inp },
            Side { spec: &rs, model: &right, inp: &inp_r },
            &perm,
            case.state.f_eta,
        ) else {
            return;
        };
        // max_density is a scalar result as well
        let (ml, mr) = (left.max_density(Some(&inp.2)), right.max_density(Some(&inp_r.2)));
        if let (Ok(ml), Ok(mr)) = (ml, mr) {
            obs.close("max_density under permutation", ml.to_reduced(), mr.to_reduced(), 1e-12, 0.0);
        }
        sharp_all &= sharp >= 5;
        count += 1;
    }
    obs.class(format!("permutations per case: {count}"));
    if sharp_all && distinct && count > 0 {
        obs.nontrivial();
    }
}

fn check_pad(case: &Case, obs: &mut Obs) {
    let spec = &case.spec;
    let n = spec.n();
    let present: Vec<usize> = (0..n).filter(|i| !case.absent.contains(i)).collect();
    if present.is_empty() || case.state.x.len() != present.len() {
        obs.discard("inconsistent case");
        return;
    }
    obs.class(format!("pad: {} of {} components absent", case.absent.len(), n));
    // right: model built directly from the present components
    let rs = spec.subset(&present);
    let right = try_discard!(obs, "build subset", rs.build());
    let inp_r = try_discard!(obs, "inputs", state_inputs(&rs, &right, &case.state));
    let left = try_discard!(obs, "build", spec.build());
    let nr = inp_r.2.to_reduced();
    let mut nl = vec![0.0; n];
    for (k, &i) in present.iter().enumerate() {
        nl[i] = nr[k];
    }
    let inp_l: Inputs = (inp_r.0, inp_r.1, Moles::from_reduced(Array1::from_vec(nl)));
    if let Ok(p) = props(&right, &inp_r, &[]) {
        feature_classes(obs, "pad", &rs, &p);
    }
    let Some(sharp) = pair_compare(
        obs,
        "pad",
        Side { spec, model: &left, inp: &inp_l },
        Side { spec: &rs, model: &right, inp: &inp_r },
        &present,
        case.state.f_eta,
    ) else {
        return;
    };
    if sharp >= 5 {
        obs.nontrivial();
    }
}

fn check_split(case: &Case, obs: &mut Obs) {
    let spec = &case.spec;
    let n = spec.n();
    let comp = case.comp.min(n - 1);
    // ions of ePC-SAFT: like-charged ions have their mutual dispersion switched off by the model
    // definition, which (A+, A+') does not reproduce: split only neutral components
    if spec.family == Family::EPcSaft && mr_f64(&spec.pure[comp], "z") != 0.0 {
        obs.discard("split of an ion (outside the domain: model definition)");
        return;
    }
    let left = try_discard!(obs, "build", spec.build());
    let inp = try_discard!(obs, "inputs", state_inputs(spec, &left, &case.state));
    let rs = split_spec(spec, comp);
    let right = try_discard!(obs, "build split", rs.build());
    let nl = inp.2.to_reduced();
    let mut nr: Vec<f64> = nl.to_vec();
    nr.push(nl[comp] * (1.0 - case.split));
    nr[comp] = nl[comp] * case.split;
    let inp_r: Inputs = (inp.0, inp.1, Moles::from_reduced(Array1::from_vec(nr)));
    let mut map: Vec<usize> = (0..n).collect();
    map.push(comp);
    if let Ok(p) = props(&left, &inp, &[]) {
        feature_classes(obs, "split", spec, &p);
    }
    let Some(sharp) = pair_compare(
        obs,
        "split",
        Side { spec, model: &left, inp: &inp },
        Side { spec: &rs, model: &right, inp: &inp_r },
        &map,
        case.state.f_eta,
    ) else {
        return;
    };
    if sharp >= 5 {
        obs.nontrivial();
    }
}

struct SubsetVisitor<'a> {
    spec: &'a ModelSpec,
    subsets: &'a [Vec<usize>],
    state: &'a StateSpec,
}
/// per subset: (max_density of the typed sub-model at the state's moles, its props)
impl Visitor for SubsetVisitor<'_> {
    type Out = Vec<Result<(f64, Props), String>>;
    fn visit<E: Residual + 'static>(self, eos: Arc<E>) -> Self::Out {
        self.subsets
            .iter()
            .map(|idx| {
                let ds = self.spec.subset(idx);
                let direct = ds.build()?;
                let mut st = self.state.clone();
                st.x = renorm(&idx.iter().map(|&i| self.state.x[i]).collect::<Vec<_>>());
                let inp = state_inputs(&ds, &direct, &st)?;
                let sub = Arc::new(eos.subset(idx));
                let md = sub.max_density(Some(&inp.2)).map_err(|e| e.to_string())?.to_reduced();
                Ok((md, props(&sub, &inp, &[])?))
            })
            .collect()
    }
}

fn renorm(x: &[f64]) -> Vec<f64> {
    let s: f64 = x.iter().sum();
    x.iter().map(|v| v / s).collect()
}

fn check_subset(case: &Case, obs: &mut Obs) {
    let spec = &case.spec;
    let n = spec.n();
    let all = ordered_subsets(n);
    // n <= 3: every subset in every order (15); n = 4: 10 of the 64, chosen by the genome
    let subsets: Vec<Vec<usize>> = if n <= 3 {
        all
    } else {
        let mut v: Vec<Vec<usize>> = vec![];
        for &p in &case.picks {
            let s = all[p % all.len()].clone();
            if !v.contains(&s) {
                v.push(s);
            }
        }
        v
    };
    let full = try_discard!(obs, "build", spec.build());
    let typed = try_discard!(obs, "typed build", with_typed(spec, SubsetVisitor { spec, subsets: &subsets, state: &case.state }));
    let mut nontrivial = false;
    let mut visited = 0;
    for (idx, t) in subsets.iter().zip(typed) {
        let ds = spec.subset(idx);
        let direct = try_discard!(obs, "build direct", ds.build());
        let mut st = case.state.clone();
        st.x = renorm(&idx.iter().map(|&i| case.state.x[i]).collect::<Vec<_>>());
        let inp = try_discard!(obs, "inputs", state_inputs(&ds, &direct, &st));
        let d = try_discard!(obs, "direct state", props(&direct, &inp, &[]));
        if !d.a.0.is_finite() || !d.a.1.is_finite() {
            // (a NaN scale with a finite value: the f64 route of the association solver did not
            // converge while the dual-number route did - finding C11/association-nonconvergence-flips-with-route)
            obs.discard(format!("non-finite A_res:{:?}", spec.family));
            continue;
        }
        let md_direct = try_discard!(obs, "max_density", direct.max_density(Some(&inp.2)).map_err(|e| e.to_string())).to_reduced();
        let sub_e = Arc::new(full.subset(idx));
        let e = try_discard!(obs, "enum subset state", props(&sub_e, &inp, &[]));
        let md_e = try_discard!(obs, "max_density", sub_e.max_density(Some(&inp.2)).map_err(|e| e.to_string())).to_reduced();
        let (md_t, t) = try_discard!(obs, "typed subset state", t);
        let map: Vec<usize> = (0..idx.len()).collect();
        let (tol, extra, floor) = pair_tol(&ds, &d, st.f_eta);
        let mut o2 = Obs::default();
        let mut s1 = compare(&mut o2, "subset/enum(probe)", &e, &d, &map, tol, extra, floor);
        let mut s2 = compare(&mut o2, "subset/typed(probe)", &t, &d, &map, tol, extra, floor);
        obs.comparisons += o2.comparisons;
        if o2.fails.is_empty() {
            // calibration record of the passing comparisons
            let fam = format!("{:?}", spec.family);
            compare(&mut Obs::default(), &format!("subset/enum/{fam}"), &e, &d, &map, tol, extra, floor);
            compare(&mut Obs::default(), &format!("subset/typed/{fam}"), &t, &d, &map, tol, extra, floor);
        }
        // ePC-SAFT switches the dispersion between like ions off only when a binary-record matrix
        // is passed (even an all-default one, as `Parameter::subset` does): a sub-model with ions
        // differs from the model built from the same records without binary records
        let like_ion_rule = spec.family == Family::EPcSaft
            && ds.binary.is_empty()
            && !spec.binary.is_empty()
            && idx.iter().any(|&i| mr_f64(&spec.pure[i], "z") != 0.0);
        if like_ion_rule && !o2.fails.is_empty() {
            obs.class("signature:C09/epcsaft-like-ion-rule-needs-binary-matrix");
            obs.known_or_fail("C09/epcsaft-like-ion-rule-needs-binary-matrix", format!("subset {idx:?}: {}", o2.fails[0]));
            let (Ok(ex), Ok(tx), Ok(dx)) =
                (props(&sub_e, &inp, &["Dispersion"]), props(&Arc::new(full.subset(idx)), &inp, &["Dispersion"]), props(&direct, &inp, &["Dispersion"]))
            else {
                continue;
            };
            s1 = compare(obs, "subset/enum(masked)", &ex, &dx, &map, tol, extra, floor);
            s2 = compare(obs, "subset/typed(masked)", &tx, &dx, &map, tol, extra, floor);
        } else {
            for f in o2.fails.iter().take(2) {
                obs.fail(format!("subset {idx:?}: {f}"));
            }
        }
        // compute_max_density sees the options of the sub-model
        for (what, md) in [("ResidualModel::subset", md_e), ("typed subset", md_t)] {
            obs.count();
            if (md - md_direct).abs() > 1e-12 * md_direct.abs() {
                let msg = format!(
                    "max_density of {what}({idx:?}) = {md:e} vs directly built model with the same options = {md_direct:e} (max_eta = {})",
                    spec.opts.max_eta
                );
                if spec.family == Family::SaftVRMie && spec.opts.max_eta != 0.5 {
                    obs.class("signature:C09/saftvrmie-subset-drops-options");
                    obs.known_or_fail("C09/saftvrmie-subset-drops-options", msg);
                } else {
                    obs.fail(msg);
                }
            }
        }
        visited += 1;
        let sorted = idx.windows(2).all(|w| w[0] < w[1]);
        if idx.len() < n && !sorted && s1 >= 5 && s2 >= 5 {
            nontrivial = true;
        }
        if !sorted {
            obs.class("subset in non-sorted order");
        }
        obs.class(format!("subset size {}", idx.len()));
    }
    obs.class(format!("subsets per case: {visited}"));
    let d = Opts::default();
    let non_default = spec.opts.max_eta != d.max_eta;
    if nontrivial && non_default {
        obs.nontrivial();
    }
}

// ---------------------------------------------------------------------------------------
// (v) pure-component quantities derived inside mixture algorithms
// ---------------------------------------------------------------------------------------
/// (rtol, family label or None when the case matches a known-finding signature: not calibrated)
#[derive(Clone)]
struct SolverTol(f64, Option<String>);

fn solver_close(obs: &mut Obs, st: &SolverTol, what: &str, u: f64, v: f64) {
    let d = (u - v).abs() / u.abs().max(v.abs()).max(1e-300);
    if let Some(f) = &st.1 {
        let q = what.split('[').next().unwrap();
        let q = q.split(' ').next().unwrap();
        super::c08::track(&format!("pure/{f}/{q}"), d / st.0, d);
    }
    obs.close(what, u, v, st.0, 0.0);
}

fn check_pure(case: &Case, obs: &mut Obs) {
    let mut inner = Obs::default();
    // SaftVRMie::subset rebuilds the sub-model with default options: with non-default options the
    // pure-component solvers of the mixture algorithms start from a different max_density
    let d = Opts::default();
    let o = &case.spec.opts;
    let f2 = case.spec.family == Family::SaftVRMie
        && (o.max_eta != d.max_eta || o.tol_cross_assoc != d.tol_cross_assoc || o.max_iter_cross_assoc != d.max_iter_cross_assoc);
    check_pure2(case, &mut inner, f2);
    let mut fails = std::mem::take(&mut inner.fails);
    if !fails.is_empty() && !f2 {
        // Two builds of the same model are not bitwise identical (group-contribution models sum
        // over HashMaps whose iteration order differs per instance), and an equilibrium solver
        // on a knife edge between the solution and a near-trivial one (C05 findings) then ends
        // differently from run to run. A sub-model that really differs from the directly built
        // model fails in every repetition; if one of three repetitions with freshly built models
        // agrees completely, the deviation is not a property of the sub-model.
        for _ in 0..3 {
            let mut again = Obs::default();
            check_pure2(case, &mut again, f2);
            if again.fails.is_empty() {
                obs.class("solver result not reproducible between two builds of the same model (knife-edge start): not attributed to the sub-model");
                fails.clear();
                break;
            }
        }
    }
    obs.classes.extend(inner.classes);
    obs.discards.extend(inner.discards);
    obs.comparisons += inner.comparisons;
    obs.nontrivial |= inner.nontrivial;
    if f2 && !fails.is_empty() {
        obs.class("signature:C09/saftvrmie-subset-drops-options");
        obs.known_or_fail("C09/saftvrmie-subset-drops-options", fails[0].clone());
    } else {
        for f in fails {
            obs.fail(f);
        }
    }
}
fn check_pure2(case: &Case, obs: &mut Obs, f2: bool) {
    let spec = &case.spec;
    let st = SolverTol(
        if is_gc(spec.family) { RTOL_SOLVER_GC } else { RTOL_SOLVER },
        if f2 { None } else { Some(format!("{:?}", spec.family)) },
    );
    let n = spec.n();
    let eos = try_discard!(obs, "build", spec.build());
    let pures: Vec<Arc<Model>> = {
        let mut v = vec![];
        for i in 0..n {
            v.push(try_discard!(obs, "build pure", spec.subset(&[i]).build()));
        }
        v
    };
    let tcs: Vec<f64> = (0..n).map(|i| pure_tc(spec, &eos, i)).collect();
    // T = tau x (lowest pure T_c) but not below half the highest pure T_c: pure-component VLE far
    // below 0.5 T_c (p_sat ~ 1e-15 in reduced units) is converged to ~1e-5 relative only and two
    // builds of one gc-PC-SAFT model (HashMap order, 1e-16) then differ by that much
    let (tc_min, tc_max) = (tcs.iter().cloned().fold(f64::INFINITY, f64::min), tcs.iter().cloned().fold(0.0, f64::max));
    let t = (case.tau_vle * tc_min).max(0.5 * tc_max) * KELVIN;
    obs.class(if case.tau_vle * tc_min >= 0.5 * tc_max { "T = tau x min T_c" } else { "T = 0.5 max T_c (light component near- or supercritical)" });
    let mut done = 0;

    // vapor_pressure / vle_pure_comps
    let pv = PhaseEquilibrium::vapor_pressure(&eos, t);
    let vles = PhaseEquilibrium::vle_pure_comps(&eos, t);
    let mut p_sat: Vec<Option<f64>> = vec![];
    for i in 0..n {
        let direct = PhaseEquilibrium::pure(&pures[i], t, None, SolverOptions::default());
        match (&pv[i], &direct) {
            (Some(p), Ok(d)) => {
                let pd = d.vapor().pressure(Contributions::Total).to_reduced();
                solver_close(obs, &st, &format!("vapor_pressure[{i}]"), p.to_reduced(), pd);
                p_sat.push(Some(pd));
                done += 1;
            }
            (None, Err(_)) => {
                obs.class("pure VLE not found on both sides");
                p_sat.push(None);
            }
            (a, b) => {
                obs.fail(format!(
                    "vapor_pressure[{i}] at {t}: sub-model {} but the directly built pure model {}",
                    if a.is_some() { "converged" } else { "failed" },
                    if b.is_ok() { "converged" } else { "failed" }
                ));
                p_sat.push(None);
            }
        }
        if let (Some(v), Ok(_)) = (&vles[i], &direct) {
            if spec.has_association() && v.vapor().density.to_reduced() < 1e-12 {
                // the iterative association solver returns 0 below a total site density of f64::EPSILON
                // (candidate F4 of C13): the padded vapour state in the full model loses its association
                obs.class("vle_pure_comps: vapour density below the zero-density guard of the association solver (skipped)");
                continue;
            }
        }
        if let (Some(v), Ok(d)) = (&vles[i], &direct) {
            solver_close(obs, &st, &format!("vle_pure_comps[{i}] vapor density"), v.vapor().density.to_reduced(), d.vapor().density.to_reduced());
            solver_close(obs, &st, &format!("vle_pure_comps[{i}] liquid density"), v.liquid().density.to_reduced(), d.liquid().density.to_reduced());
            solver_close(
                obs,
                &st,
                &format!("vle_pure_comps[{i}] pressure"),
                v.vapor().pressure(Contributions::Total).to_reduced(),
                d.vapor().pressure(Contributions::Total).to_reduced(),
            );
            // the states live in the full model with zero moles of the other components
            obs.ensure(v.vapor().moles.len() == n && v.vapor().molefracs[i] == 1.0, || {
                format!("vle_pure_comps[{i}]: vapor state is not the pure component in the full model")
            });
        } else if vles[i].is_some() != direct.is_ok() {
            obs.fail(format!("vle_pure_comps[{i}] at {t}: convergence differs from the directly built pure model"));
        }
    }

    // critical_point_pure
    match State::critical_point_pure(&eos, None, SolverOptions::default()) {
        Ok(cps) => {
            for (i, cp) in cps.iter().enumerate() {
                match State::critical_point(&pures[i], None, None, SolverOptions::default()) {
                    Ok(d) => {
                        solver_close(obs, &st, &format!("critical_point_pure[{i}] T"), cp.temperature.to_reduced(), d.temperature.to_reduced());
                        solver_close(obs, &st, &format!("critical_point_pure[{i}] density"), cp.density.to_reduced(), d.density.to_reduced());
                        done += 1;
                    }
                    Err(_) => obs.fail(format!("critical_point_pure[{i}] converged but the directly built pure model failed")),
                }
            }
        }
        Err(_) => {
            let any_fail = (0..n).any(|i| State::critical_point(&pures[i], None, None, SolverOptions::default()).is_err());
            obs.ensure(any_fail, || "critical_point_pure failed although every directly built pure model converges".to_string());
            obs.class("critical_point_pure: Err on both routes");
        }
    }

    // ln_phi_pure_liquid / ln_symmetric_activity_coefficient at (T, p, x), p above every pure vapour pressure
    let pmax = p_sat.iter().flatten().cloned().fold(0.0, f64::max);
    if pmax > 0.0 {
        let p = Pressure::from_reduced(pmax * case.p_factor);
        let moles = Moles::from_reduced(Array1::from_vec(case.state.x.clone()));
        if let Ok(s) = State::new_npt(&eos, t, p, &moles, DensityInitialization::Liquid) {
            let p_state = s.pressure(Contributions::Total);
            let direct: Vec<Result<f64, String>> = (0..n)
                .map(|i| {
                    State::new_npt(&pures[i], t, p_state, &Moles::from_reduced(Array1::from_vec(vec![1.0])), DensityInitialization::Liquid)
                        .map(|st| st.ln_phi()[0])
                        .map_err(|e| e.to_string())
                })
                .collect();
            match s.ln_phi_pure_liquid() {
                Ok(lp) => {
                    for i in 0..n {
                        match &direct[i] {
                            Ok(d) if !d.is_finite() && !lp[i].is_finite() => obs.class("ln_phi_pure_liquid: non-finite on both routes"),
                            Ok(d) => {
                                let sc = lp[i].abs().max(d.abs()).max(1.0);
                                obs.close_scaled(&format!("ln_phi_pure_liquid[{i}]"), lp[i], *d, st.0, sc);
                                done += 1;
                            }
                            Err(e) => obs.fail(format!("ln_phi_pure_liquid[{i}] returned a value but the direct pure state failed: {e}")),
                        }
                    }
                    if let Ok(g) = s.ln_symmetric_activity_coefficient() {
                        let lphi = s.ln_phi();
                        for i in 0..n {
                            if let Ok(d) = &direct[i] {
                                if !g[i].is_finite() && !(lphi[i] - d).is_finite() {
                                    obs.class("ln_symmetric_activity_coefficient: non-finite on both routes");
                                    continue;
                                }
                                let sc = lphi[i].abs().max(d.abs()).max(1.0);
                                obs.close_scaled(&format!("ln_symmetric_activity_coefficient[{i}]"), g[i], lphi[i] - d, st.0, sc);
                            }
                        }
                    }
                }
                Err(_) => {
                    obs.ensure(direct.iter().any(|d| d.is_err()), || {
                        "ln_phi_pure_liquid failed although every direct pure liquid state exists".to_string()
                    });
                }
            }
        } else {
            obs.class("no liquid mixture state at (T, p)");
        }
    }

    // henrys_law_constant: component `comp` is the solute (x = 0), the others are the solvent
    let solute = case.comp.min(n - 1);
    let solvent: Vec<usize> = (0..n).filter(|&i| i != solute).collect();
    let xs = renorm(&solvent.iter().map(|&i| case.state.x[i]).collect::<Vec<_>>());
    let mut xfull = vec![0.0; n];
    for (k, &i) in solvent.iter().enumerate() {
        xfull[i] = xs[k];
    }
    let xfull = Array1::from_vec(xfull);
    let lib = State::henrys_law_constant(&eos, t, &xfull);
    let recipe = (|| -> Result<f64, String> {
        let smodel = spec.subset(&solvent).build()?;
        let xs = Array1::from_vec(xs.clone());
        let vle = if solvent.len() == 1 {
            PhaseEquilibrium::pure(&smodel, t, None, SolverOptions::default())
        } else {
            PhaseEquilibrium::bubble_point(&smodel, t, &xs, None, None, Default::default())
        }
        .map_err(|e| e.to_string())?;
        let liquid = State::new_nvt(&eos, t, vle.liquid().volume, &(xfull.clone() * vle.liquid().total_moles)).map_err(|e| e.to_string())?;
        let mut xv = xfull.clone();
        for (k, &i) in solvent.iter().enumerate() {
            xv[i] = vle.vapor().molefracs[k];
        }
        let vapor = State::new_nvt(&eos, t, vle.vapor().volume, &(xv * vle.vapor().total_moles)).map_err(|e| e.to_string())?;
        let p = vle.vapor().pressure(Contributions::Total).to_reduced();
        Ok((liquid.ln_phi()[solute] - vapor.ln_phi()[solute]).exp() * p)
    })();
    match (lib, recipe) {
        (Ok(h), Ok(r)) if !h.to_reduced()[0].is_finite() && !r.is_finite() => obs.class("henry: non-finite on both routes"),
        (Ok(h), Ok(r)) => {
            solver_close(obs, &st, "henrys_law_constant", h.to_reduced()[0], r);
            obs.class(format!("henry: {} solvent component(s)", solvent.len()));
            done += 1;
        }
        (Err(_), Err(_)) => obs.class("henry: Err on both routes"),
        (a, b) => obs.fail(format!(
            "henrys_law_constant: library {} but the same recipe on directly built solvent model {}",
            if a.is_ok() { "converged" } else { "failed" },
            if b.is_ok() { "converged" } else { "failed" }
        )),
    }
    if done >= 2 * n && spec.opts != Opts::default() {
        obs.nontrivial();
    }
}

// ---------------------------------------------------------------------------------------
// Parts
// ---------------------------------------------------------------------------------------
const fn part(name: &'static str, quick: u32, thorough: u32) -> PartCfg {
    PartCfg { name, genome_len: 128, cases_quick: quick, cases_thorough: thorough, panic: PanicPolicy::Count }
}
const PARTS: [(Clause, PartCfg); 5] = [
    (Clause::Permute, part("permute", 2400, 160_000)),
    (Clause::Pad, part("pad", 4800, 240_000)),
    (Clause::Split, part("split", 6000, 240_000)),
    (Clause::Subset, part("subset", 1200, 80_000)),
    (Clause::PureQuantities, part("pure-quantities", 400, 40_000)),
];

pub fn run(ctx: &Ctx) {
    ctx.set_rule("five sampled parts, one per clause; model spec from the zoo (13 families, shipped / perturbed / random records, binary records incl. k_ij, association overrides, l_ij) with non-default options forced in 75 % of the cases (max_eta 0.35-0.65, cross-association solver limits, DQ variant, FMT version, perturbation, inc_nonadd_term, ePC-SAFT variant); states of DESIGN 3.2. permute: n = 2-4, EVERY permutation != id of each case (records + binary matrix + moles permuted together); pad: one or two components with N_k = 0 vs the model built directly from the present components; split: component A -> (A, A) at (sN, (1-s)N), s in (0.02, 0.98); subset: every non-empty ordered subset for n <= 3 (15), 10 of the 64 for n = 4, `Components::subset` on the typed model and on ResidualModel vs the model built from records[idx] with the same options, incl. max_density; pure-quantities: vapor_pressure, vle_pure_comps, critical_point_pure, ln_phi_pure_liquid, ln_symmetric_activity_coefficient, henrys_law_constant vs directly built pure / solvent models. Non-trivial: >= 5 compared quantities exceed 1e3 x their allowed deviation and (permute) records not all identical, (subset) a proper subset in non-sorted order with max_eta != default, (pure-quantities) >= 2n solver results compared with non-default options. Distinct by hash of the canonical case JSON.");
    ctx.assume("allowed deviation = rel * min(S_l,S_r) + round * max(S_l,S_r) with S = sum over contributions of |d^k A_c|: rel = round = 2e-12 (1e-11 group-contribution models: HashMap build order, ePC-SAFT and SAFT-VR Mie; 3e-9 Peng-Robinson: single contribution with internal cancellation); where an association term is present rel 2e-8 (+1e-14 x rho Delta), atol 100 x tol_cross_assoc x sites on beta A/N and 2e-14 x sites of the ideal-like scale (iterative solver started from a different site order)");
    ctx.assume("solver results of clause (v) agree to 1e-8 relative: both routes run the same algorithm on nominally the same model");
    ctx.assume("outside the domain by model definition: splitting an ion of ePC-SAFT (like-charged ions have no mutual dispersion), splitting with the gc-PC-SAFT group-group k_ij table (k_ij act between different components only)");
    for (clause, cfg) in PARTS.iter() {
        ctx.run_sampled(cfg, &decode_clause(*clause), &check);
    }
    let w = super::c08::WORST.lock().unwrap();
    let cal: BTreeMap<String, Value> = w
        .iter()
        .map(|(k, (ratio, rel))| (k.clone(), json!({"worst_diff_over_allowed": ratio, "worst_diff_over_min_scale": rel})))
        .collect();
    ctx.extra("calibration", json!(cal));
}

pub fn replay(ctx: &Ctx, _part: &str, case: &Value) -> bool {
    ctx.replay_case::<Case>(case, &check)
}

#[allow(dead_code)]
fn _unused() {
    let _ = (strip_polar, ATOL_A);
}
