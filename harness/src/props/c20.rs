//! C20 — transport properties (entropy scaling) and the parameter estimator.
//!
//! Parts
//! * `transport` : PC-SAFT / SAFT-VRQ Mie records with correlation coefficients x fluid states.
//! * `loss`      : every `Loss` x scaling factor x residual against the documented closed form.
//! * `estimator` : every `DataSet` type: predict vs the library call it wraps, targets in the
//!                 implied unit, zero difference / zero cost for model-generated targets,
//!                 `DataSet::cost` and `Estimator::cost` composition for estimators built by `new` and by
//!                 generated `new` + `add_data` sequences.
use crate::engine::{Ctx, Gen, Obs, PanicPolicy, PartCfg};
use crate::model::*;
use feos::core::{
    Contributions, DensityInitialization, PhaseDiagram, PhaseEquilibrium, ReferenceSystem, Residual, SolverOptions, State,
};
use feos::estimator as est;
use feos::estimator::{DataSet, Estimator, Loss, Phase};
use ndarray::{arr1, Array1};
use quantity::*;
use serde::{Deserialize, Serialize};
use serde_json::{json, Value};
use std::collections::BTreeMap;
use std::sync::{Arc, LazyLock, Mutex};
use typenum::{P2, P3};

// ---------------------------------------------------------------------------------------
// tolerances
// ---------------------------------------------------------------------------------------
/// value = reference * exp(ln_reduced): one multiplication and one exp
const TOL_PROD: f64 = 1e-13;
/// Chapman-Enskog reference recomputed by the harness in SI (sqrt, powf, exp, sin)
const TOL_CE: f64 = 1e-11;
/// mixture with vanishing second component vs pure: x2 = 0 exactly (mixing rules and residual
/// entropy reduce to the pure fluid up to roundoff) ...
const TOL_VANISH: f64 = 1e-10;
/// ... and x2 = 1e-12: deviation x2 * |d ln(eta)/d x2|, tolerance 3e-8 (1 + |ln eta_reduced|)
/// (logarithmic sensitivity of 1e1..1e4 seen; partner molecules with very different m, coefficients)
const TOL_VANISH_12: f64 = 3e-8;
/// equal residual entropy => equal reduced property (second state from a harness bisection)
const TOL_ISO: f64 = 1e-9;
/// predict vs the wrapped library call converted by the harness (same deterministic computation)
const TOL_PRED: f64 = 1e-13;
/// extrapolated vapour pressure exp(a + b/T): |a|, |b/T| ~ 10-30 amplify the roundoff of ln(pc/p0)
const TOL_EXTRA: f64 = 1e-10;
/// relative difference / cost of model-generated targets
const TOL_ZERO: f64 = 1e-12;
/// cost composition (loss of the relative difference / N, normalised weights)
const TOL_COST: f64 = 1e-12;
/// squared loss vs f^2 rho(r^2/f^2): relative part and absolute floor (in units of f^2) for the
/// cancellation in sqrt(1+z)-1 and ln(1+z) at small z (one rounding of 1+z: 1.1e-16)
const TOL_LOSS: f64 = 1e-12;
const FLOOR_LOSS: f64 = 1e-13;

static WORST: LazyLock<Mutex<BTreeMap<String, (f64, f64)>>> = LazyLock::new(|| Mutex::new(BTreeMap::new()));

fn track(key: &str, frac: f64, tol: f64) {
    if frac.is_finite() {
        let mut w = WORST.lock().unwrap();
        let e = w.entry(key.to_string()).or_insert((0.0, tol));
        if frac > e.0 {
            e.0 = frac;
        }
    }
}

/// |u-v| <= tol*(max(|u|,|v|) + floor); both NaN counts as equal (NaN policy is part of the contract)
fn close(obs: &mut Obs, key: &str, what: &str, u: f64, v: f64, tol: f64, floor: f64) -> bool {
    obs.count();
    if u.is_nan() && v.is_nan() {
        return true;
    }
    let sc = u.abs().max(v.abs()) + floor;
    let d = (u - v).abs();
    let ok = d <= tol * sc;
    if d > 0.0 && sc > 0.0 {
        track(key, d / (tol * sc), tol);
    }
    if !ok || u.is_nan() || v.is_nan() {
        obs.fail(format!("{what}: {u:e} vs {v:e} (diff {d:e} > {tol:e} * {sc:e})"));
        return false;
    }
    true
}

fn close_vec(obs: &mut Obs, key: &str, what: &str, u: &[f64], v: &[f64], tol: f64, floor: f64) -> bool {
    if u.len() != v.len() {
        obs.fail(format!("{what}: length {} vs {}", u.len(), v.len()));
        return false;
    }
    let mut ok = true;
    for (i, (a, b)) in u.iter().zip(v.iter()).enumerate() {
        ok &= close(obs, key, &format!("{what}[{i}]"), *a, *b, tol, floor);
    }
    ok
}

// ---------------------------------------------------------------------------------------
// Part 1: transport properties
// ---------------------------------------------------------------------------------------
#[derive(Serialize, Deserialize, Clone, Debug)]
pub struct TCase {
    /// one-component spec (PcSaft or SaftVRQMie) whose record carries correlation coefficients
    pub spec: ModelSpec,
    /// second pure record of the same family with viscosity coefficients
    pub partner: Value,
    /// T / T_c in [0.5, 2]
    pub tau: f64,
    /// rho / max_density
    pub f_eta: f64,
    /// mole fraction of the vanishing second component: 0 or 1e-12
    pub x2: f64,
    /// T / T_c of the second state with equal residual entropy
    pub tau2: f64,
}

fn gen_coeffs(g: &mut Gen, rec: &mut Value, keep_viscosity: bool) {
    let mr = &mut rec["model_record"];
    if !keep_viscosity || mr.get("viscosity").is_none() {
        mr["viscosity"] = json!([g.range(-2.0, 0.5), g.range(-4.0, -0.5), g.range(-1.0, 0.2), g.range(-0.3, 0.05)]);
    }
    mr["diffusion"] = json!([g.range(-0.5, 0.5), g.range(-0.2, 1.0), g.range(0.0, 0.5), g.range(0.0, 0.01), g.range(0.0, 1e-5)]);
    mr["thermal_conductivity"] = json!([g.range(-1.0, 1.0), g.range(-1.0, 0.0), g.range(-1.0, 1.0), g.range(-0.2, 0.2)]);
}

fn lin2018() -> &'static Vec<Value> {
    &POOLS.pcsaft.iter().find(|(f, _)| *f == "loetgeringlin2018.json").unwrap().1
}

fn gen_transport_record(g: &mut Gen, vrq: bool, k: usize, vrq_file: usize) -> (Value, String) {
    if vrq {
        // both components from one file: Feynman-Hibbs orders 1 and 2 cannot be combined
        let (fname, recs) = &POOLS.vrq[vrq_file];
        let mut r = recs[g.index(recs.len())].clone();
        gen_coeffs(g, &mut r, false);
        (r, format!("vrq:{fname}+random-coefficients"))
    } else {
        match g.index(3) {
            0 => {
                let recs = lin2018();
                let mut r = recs[g.index(recs.len())].clone();
                gen_coeffs(g, &mut r, true);
                (r, "shipped:loetgeringlin2018".to_string())
            }
            1 => {
                let recs = lin2018();
                let mut r = recs[g.index(recs.len())].clone();
                gen_coeffs(g, &mut r, false);
                (r, "loetgeringlin2018+random-viscosity".to_string())
            }
            _ => {
                let mut r = random_pcsaft_record(g, k);
                gen_coeffs(g, &mut r, false);
                (r, "random".to_string())
            }
        }
    }
}

pub fn decode_transport(g: &mut Gen) -> TCase {
    let vrq = g.bool(0.3);
    let vrq_file = g.index(POOLS.vrq.len());
    let (rec, source) = gen_transport_record(g, vrq, 0, vrq_file);
    let (partner, _) = gen_transport_record(g, vrq, 1, vrq_file);
    let mut opts = Opts::default();
    if !vrq {
        opts.dq44 = g.bool(0.3);
    } else {
        opts.inc_nonadd = !g.bool(0.3);
    }
    let spec = ModelSpec {
        family: if vrq { Family::SaftVRQMie } else { Family::PcSaft },
        pure: vec![rec],
        binary: vec![],
        seg: None,
        opts,
        source,
    };
    let tau = g.range(0.5, 2.0);
    let dense = g.bool(0.5);
    let u = g.unit();
    let f_eta = if dense { 0.05 + 0.8 * u } else { (1e-5f64.ln() + u * (0.5f64.ln() - 1e-5f64.ln())).exp() };
    let x2 = if g.bool(0.5) { 1e-12 } else { 0.0 };
    let tau2 = g.range(0.5, 2.0);
    TCase { spec, partner, tau, f_eta, x2, tau2 }
}

fn omega22_neufeld(ts: f64) -> f64 {
    // Neufeld, Janzen, Aziz 1972
    1.16145 / ts.powf(0.14874) + 0.52487 / (0.77320 * ts).exp() + 2.16178 / (2.43787 * ts).exp()
        - 6.435e-4 * ts.powf(0.14874) * (18.0323 / ts.powf(0.76830) - 7.27371).sin()
}

/// Chapman-Enskog viscosity in Pa s of a pure fluid of molar mass mw (g/mol), sigma (A), eps/k (K)
fn chapman_enskog_si(t: f64, mw: f64, sigma: f64, eps_k: f64) -> f64 {
    const KB: f64 = 1.380649e-23;
    const NAV: f64 = 6.02214076e23;
    let m = mw * 1e-3 / NAV;
    let s = sigma * 1e-10;
    5.0 / 16.0 * (m * KB * t / std::f64::consts::PI).sqrt() / (s * s * omega22_neufeld(t / eps_k))
}

type TInputs = (Temperature, Volume, Moles<Array1<f64>>);

fn pure_inputs(model: &Arc<Model>, t_k: f64, f_eta: f64) -> Result<TInputs, String> {
    let moles = arr1(&[1.0]) * MOL;
    let rho = f_eta * model.max_density(Some(&moles)).map_err(|e| e.to_string())?;
    Ok((t_k * KELVIN, moles.sum() / rho, moles))
}

struct Tp {
    value: f64,
    reference: f64,
    ln_reduced: f64,
}

fn transport<E: Residual + feos::core::EntropyScaling>(s: &State<E>, which: usize) -> Result<Tp, String> {
    let e = |e: feos::core::EosError| e.to_string();
    Ok(match which {
        0 => Tp {
            value: s.viscosity().map_err(e)?.convert_to(PASCAL * SECOND),
            reference: s.viscosity_reference().map_err(e)?.convert_to(PASCAL * SECOND),
            ln_reduced: s.ln_viscosity_reduced().map_err(e)?,
        },
        1 => Tp {
            value: s.diffusion().map_err(e)?.convert_to(METER.powi::<P2>() / SECOND),
            reference: s.diffusion_reference().map_err(e)?.convert_to(METER.powi::<P2>() / SECOND),
            ln_reduced: s.ln_diffusion_reduced().map_err(e)?,
        },
        _ => Tp {
            value: s.thermal_conductivity().map_err(e)?.convert_to(WATT / METER / KELVIN),
            reference: s.thermal_conductivity_reference().map_err(e)?.convert_to(WATT / METER / KELVIN),
            ln_reduced: s.ln_thermal_conductivity_reduced().map_err(e)?,
        },
    })
}

const TNAMES: [&str; 3] = ["viscosity", "diffusion", "thermal_conductivity"];

pub fn check_transport(case: &TCase, obs: &mut Obs) {
    let spec = &case.spec;
    let vrq = spec.family == Family::SaftVRQMie;
    obs.class(spec.label());
    obs.class(format!("source:{}", spec.source));
    let model = match spec.build() {
        Ok(m) => m,
        Err(e) => {
            obs.discard(format!("build:{}", e.chars().take(40).collect::<String>()));
            return;
        }
    };
    let tc = pure_tc(spec, &model, 0);
    let tmin = if vrq { 15.0 } else { 0.0 };
    let t_k = (case.tau * tc).max(tmin);
    let inputs = match pure_inputs(&model, t_k, case.f_eta) {
        Ok(i) => i,
        Err(e) => {
            obs.discard(format!("inputs:{e}"));
            return;
        }
    };
    let s = match build_state(&model, &inputs) {
        Ok(s) => s,
        Err(e) => {
            obs.discard(format!("state:{e}"));
            return;
        }
    };
    let s_res = s.residual_molar_entropy().to_reduced();
    if !s_res.is_finite() {
        obs.discard("non-finite residual entropy");
        return;
    }
    let dpdv = s.dp_dv(Contributions::Total).to_reduced();
    obs.class(if dpdv < 0.0 { "mechanically stable" } else { "inside spinodal" });
    obs.class(if case.tau < 1.0 { "T<Tc" } else { "T>Tc" });
    obs.class(if case.f_eta < 0.02 {
        "gas-like"
    } else if case.f_eta < 0.3 {
        "intermediate"
    } else {
        "liquid-like"
    });
    // ---- value = reference * exp(ln reduced); positive and finite ----
    let mut pure_vals = vec![];
    for w in 0..3 {
        match transport(&s, w) {
            Err(e) => {
                obs.fail(format!("{} of a one-component fluid state failed: {e}", TNAMES[w]));
                pure_vals.push(None);
            }
            Ok(tp) => {
                if !tp.ln_reduced.is_finite() || tp.ln_reduced.abs() > 200.0 {
                    // s_res/m far outside the range of any fitted correlation (random records with
                    // |s_res/m| > 10 or positive s_res): exp() leaves the f64 range by construction
                    // of the polynomial; nothing is asserted for such a state
                    obs.discard(format!("ln {} reduced beyond +-200", TNAMES[w]));
                    pure_vals.push(None);
                    continue;
                }
                close(obs, "value = reference*exp(ln reduced)", &format!("{} = reference * exp(ln_{}_reduced)", TNAMES[w], TNAMES[w]), tp.value, tp.reference * tp.ln_reduced.exp(), TOL_PROD, 0.0);
                // known finding: the thermal-conductivity reference lambda_CE + lambda_ts * alpha
                // has lambda_ts < 0 for T/(eps m) < 0.3552 and the sum turns negative for long chains
                let tr_m = t_k / (spec.pure[0]["model_record"]["epsilon_k"].as_f64().unwrap_or(f64::NAN) * spec.pure[0]["model_record"]["m"].as_f64().unwrap_or(1.0));
                let tc_ref_signature = w == 2 && tr_m < 0.0167141 / 0.0470581;
                let pos_v = tp.value.is_finite() && tp.value > 0.0;
                let pos_r = tp.reference.is_finite() && tp.reference > 0.0;
                obs.count();
                if !pos_v || !pos_r {
                    let msg = format!("{} = {:e} (reference {:e}, ln reduced {:e}) is not positive and finite at T/Tc={}, rho/rho_max={}", TNAMES[w], tp.value, tp.reference, tp.ln_reduced, case.tau, case.f_eta);
                    if tc_ref_signature && tp.reference.is_finite() && tp.reference <= 0.0 {
                        obs.known_or_fail("C20/thermal-conductivity-reference-negative", msg);
                    } else {
                        obs.fail(msg);
                    }
                }
                pure_vals.push(Some(tp));
            }
        }
    }
    // ---- the reduced properties are the documented correlation functions of s = s_res/(R m)
    //      (Loetgering-Lin & Gross 2018; Hopp, Mele & Gross 2018; Hopp & Gross 2019), evaluated by
    //      the harness from the record's coefficients and the state's residual entropy ----
    {
        let mrec = &spec.pure[0]["model_record"];
        let m = mrec["m"].as_f64().unwrap_or(1.0);
        let sr = s_res / m;
        let coef = |key: &str| -> Vec<f64> { mrec[key].as_array().map(|a| a.iter().map(|v| v.as_f64().unwrap()).collect()).unwrap_or_default() };
        let (cv, cd, ct) = (coef("viscosity"), coef("diffusion"), coef("thermal_conductivity"));
        let terms: [Vec<f64>; 3] = [
            vec![cv[0], cv[1] * sr, cv[2] * sr * sr, cv[3] * sr * sr * sr],
            vec![cd[0], cd[1] * sr, -cd[2] * (1.0 - sr.exp()) * sr * sr, -cd[3] * sr.powi(4), -cd[4] * sr.powi(8)],
            vec![ct[0], ct[1] * sr, ct[2] * (1.0 - sr.exp()), ct[3] * sr * sr],
        ];
        for w in 0..3 {
            if let Some(tp) = &pure_vals[w] {
                let val: f64 = terms[w].iter().sum();
                let abs: f64 = terms[w].iter().map(|v| v.abs()).sum();
                obs.count();
                let d = (tp.ln_reduced - val).abs();
                track("ln reduced = correlation(s_res/m)", d / (1e-12 * (abs + 1.0)), 1e-12);
                if !(d <= 1e-12 * (abs + 1.0)) {
                    obs.fail(format!("ln_{}_reduced = {:e} vs correlation polynomial {:e} at s_res/(R m) = {:e}", TNAMES[w], tp.ln_reduced, val, sr));
                }
            }
        }
    }
    // ---- PC-SAFT: the viscosity reference is the Chapman-Enskog viscosity of the segment
    //      parameters (Loetgering-Lin & Gross 2018), recomputed in SI ----
    let mr = &spec.pure[0]["model_record"];
    let mw = spec.pure[0]["molarweight"].as_f64().unwrap_or(f64::NAN);
    if !vrq {
        if let Some(tp) = &pure_vals[0] {
            let ce = chapman_enskog_si(t_k, mw, mr["sigma"].as_f64().unwrap(), mr["epsilon_k"].as_f64().unwrap());
            close(obs, "viscosity reference = Chapman-Enskog", "viscosity_reference [Pa s] vs Chapman-Enskog (Neufeld collision integral)", tp.reference, ce, TOL_CE, 0.0);
        }
    }
    // ---- same transport values through the EquationOfState wrapper ----
    if let Ok(ig) = dippr_model(&[0]) {
        let eos = full_model(ig, model.clone());
        if let Ok(sw) = build_state(&eos, &inputs) {
            for w in 0..3 {
                if let (Some(tp), Ok(tw)) = (&pure_vals[w], transport(&sw, w)) {
                    close(obs, "wrapper", &format!("{} through EquationOfState", TNAMES[w]), tw.value, tp.value, 1e-13, 0.0);
                }
            }
        }
    }
    // ---- mixture with a vanishing second component (viscosity is the only mixture property) ----
    {
        let mut bspec = spec.clone();
        bspec.pure.push(case.partner.clone());
        match bspec.build() {
            Err(e) => obs.discard(format!("binary build:{}", e.chars().take(40).collect::<String>())),
            Ok(bm) => {
                let n1 = inputs.2.get(0);
                let moles = Moles::from_vec(vec![n1, n1 * case.x2]);
                match State::new_nvt(&bm, inputs.0, inputs.1, &moles) {
                    Err(e) => obs.discard(format!("binary state:{e}")),
                    Ok(sb) => {
                        obs.class(format!("x2={:e}", case.x2));
                        if let Some(tp) = &pure_vals[0] {
                            match transport(&sb, 0) {
                                Err(e) => obs.fail(format!("viscosity of the binary with x2={:e} failed: {e}", case.x2)),
                                Ok(tb) => {
                                    // x2 = 1e-12: deviation x2 * d ln(eta)/d x2; the logarithmic sensitivity grows
                                    // with |ln eta_reduced| (s = s_res/m_mix enters with powers up to 3)
                                    let (key, tv) = if case.x2 == 0.0 { ("vanishing component x2=0", TOL_VANISH) } else { ("vanishing component x2=1e-12", TOL_VANISH_12 * (1.0 + tp.ln_reduced.abs())) };
                                    close(obs, key, "viscosity(x2 -> 0) vs pure", tb.value, tp.value, tv, 0.0);
                                    close(obs, key, "viscosity_reference(x2 -> 0) vs pure", tb.reference, tp.reference, tv, 0.0);
                                    close(obs, key, "ln_viscosity_reduced(x2 -> 0) vs pure", tb.ln_reduced, tp.ln_reduced, tv, 1.0);
                                    if tb.ln_reduced.abs() <= 200.0 {
                                        close(obs, "value = reference*exp(ln reduced)", "binary: viscosity = reference * exp(ln reduced)", tb.value, tb.reference * tb.ln_reduced.exp(), TOL_PROD, 0.0);
                                    }
                                }
                            }
                        }
                        // diffusion / thermal conductivity are defined for pure fluids only: clean Err
                        obs.ensure(sb.diffusion().is_err() && sb.thermal_conductivity().is_err(), || {
                            "diffusion / thermal_conductivity of a two-component model did not return Err".to_string()
                        });
                    }
                }
            }
        }
    }
    // ---- two states with equal residual entropy have equal reduced properties ----
    let t2_k = (case.tau2 * tc).max(tmin);
    let mut partner_found = false;
    if (t2_k - t_k).abs() > 1e-3 * t_k {
        let moles = arr1(&[1.0]) * MOL;
        let rho_max = model.max_density(Some(&moles)).map(|r| r.to_reduced()).unwrap_or(f64::NAN);
        let sres_at = |f: f64| -> Option<f64> {
            let rho = Density::from_reduced(f * rho_max);
            State::new_nvt(&model, t2_k * KELVIN, moles.sum() / rho, &moles)
                .ok()
                .map(|st| st.residual_molar_entropy().to_reduced())
                .filter(|v| v.is_finite())
        };
        // bisection in ln f on [1e-9, 0.95]; s_res decreases with density for these models
        let (mut lo, mut hi) = (1e-9f64.ln(), 0.95f64.ln());
        if let (Some(flo), Some(fhi)) = (sres_at(lo.exp()), sres_at(hi.exp())) {
            if (flo - s_res) * (fhi - s_res) < 0.0 {
                let lo_above = flo > s_res;
                for _ in 0..200 {
                    let mid = 0.5 * (lo + hi);
                    if mid == lo || mid == hi {
                        break;
                    }
                    match sres_at(mid.exp()) {
                        Some(fm) => {
                            if (fm > s_res) == lo_above {
                                lo = mid;
                            } else {
                                hi = mid;
                            }
                        }
                        None => break,
                    }
                }
                let f2 = (0.5 * (lo + hi)).exp();
                let rho = Density::from_reduced(f2 * rho_max);
                if let Ok(s2) = State::new_nvt(&model, t2_k * KELVIN, moles.sum() / rho, &moles) {
                    let ds = (s2.residual_molar_entropy().to_reduced() - s_res).abs();
                    if ds <= 1e-12 * (s_res.abs() + 1e-3) {
                        partner_found = true;
                        for w in 0..3 {
                            if let (Some(tp), Ok(t2)) = (&pure_vals[w], transport(&s2, w)) {
                                if !(t2.ln_reduced.abs() <= 200.0) {
                                    continue;
                                }
                                close(obs, "equal s_res => equal reduced property", &format!("ln_{}_reduced at equal residual entropy (T {t_k:.2} K vs {t2_k:.2} K)", TNAMES[w]), t2.ln_reduced, tp.ln_reduced, TOL_ISO, 1.0);
                                close(obs, "value = reference*exp(ln reduced)", &format!("{} = reference * exp(ln reduced) (second state)", TNAMES[w]), t2.value, t2.reference * t2.ln_reduced.exp(), TOL_PROD, 0.0);
                            }
                        }
                    } else {
                        obs.inconclusive("bisection on residual entropy did not reach 1e-12");
                    }
                }
            } else {
                obs.class("no state of equal s_res at T2");
            }
        }
    }
    if partner_found {
        obs.class("equal-entropy partner");
    }
    if pure_vals.iter().all(|v| v.is_some()) && s_res.abs() > 1e-6 {
        obs.nontrivial();
    }
}

// ---------------------------------------------------------------------------------------
// Part 2: loss functions
// ---------------------------------------------------------------------------------------
#[derive(Serialize, Deserialize, Clone, Copy, Debug, PartialEq)]
pub enum LossSpec {
    Linear,
    SoftL1(f64),
    Huber(f64),
    Cauchy(f64),
    Arctan(f64),
}

impl LossSpec {
    fn lib(&self) -> Loss {
        match *self {
            LossSpec::Linear => Loss::Linear,
            LossSpec::SoftL1(f) => Loss::softl1(f),
            LossSpec::Huber(f) => Loss::huber(f),
            LossSpec::Cauchy(f) => Loss::cauchy(f),
            LossSpec::Arctan(f) => Loss::arctan(f),
        }
    }
    fn f(&self) -> f64 {
        match *self {
            LossSpec::Linear => 1.0,
            LossSpec::SoftL1(f) | LossSpec::Huber(f) | LossSpec::Cauchy(f) | LossSpec::Arctan(f) => f,
        }
    }
    /// documented closed form: cost^2 = f^2 rho(z), z = r^2/f^2 (evaluated without cancellation)
    fn square(&self, r: f64) -> f64 {
        let f = self.f();
        let z = (r / f) * (r / f);
        let rho = match self {
            LossSpec::Linear => z,
            LossSpec::SoftL1(_) => 2.0 * z / ((1.0 + z).sqrt() + 1.0),
            LossSpec::Huber(_) => {
                if z <= 1.0 {
                    z
                } else {
                    2.0 * z.sqrt() - 1.0
                }
            }
            LossSpec::Cauchy(_) => z.ln_1p(),
            LossSpec::Arctan(_) => z.atan(),
        };
        f * f * rho
    }
    fn name(&self) -> &'static str {
        match self {
            LossSpec::Linear => "Linear",
            LossSpec::SoftL1(_) => "SoftL1",
            LossSpec::Huber(_) => "Huber",
            LossSpec::Cauchy(_) => "Cauchy",
            LossSpec::Arctan(_) => "Arctan",
        }
    }
}

fn gen_loss(g: &mut Gen) -> LossSpec {
    let k = g.index(5);
    let f = g.log_range(1e-3, 1e2);
    match k {
        0 => LossSpec::Linear,
        1 => LossSpec::SoftL1(f),
        2 => LossSpec::Huber(f),
        3 => LossSpec::Cauchy(f),
        _ => LossSpec::Arctan(f),
    }
}

/// |lib|^2 vs f^2 rho(z)
fn check_loss_value(obs: &mut Obs, l: &LossSpec, r: f64, lib: f64) {
    obs.count();
    let f = l.f();
    let (a, b) = (lib * lib, l.square(r));
    let allowed = TOL_LOSS * a.abs().max(b.abs()) + FLOOR_LOSS * f * f;
    let d = (a - b).abs();
    if d > 0.0 {
        track(&format!("loss {}", l.name()), d / allowed, TOL_LOSS);
    }
    if !(d <= allowed) {
        obs.fail(format!("{:?}: apply({r:e})^2 = {a:e} vs f^2 rho(r^2/f^2) = {b:e} (diff {d:e} > {allowed:e})", l));
    }
}

#[derive(Serialize, Deserialize, Clone, Debug)]
pub struct LCase {
    pub loss: LossSpec,
    pub r: Vec<f64>,
}

pub fn decode_loss(g: &mut Gen) -> LCase {
    let loss = gen_loss(g);
    let n = 1 + g.index(24);
    let f = loss.f();
    let r = (0..n)
        .map(|_| {
            let m = match g.index(3) {
                // around the Huber switch |r| = f
                0 => f * g.range(0.5, 2.0),
                // the full range of the quantifier
                1 => g.log_range(1e-6, 1e3),
                _ => g.range(0.0, 1e3),
            };
            if g.bool(0.5) {
                -m
            } else {
                m
            }
        })
        .collect();
    LCase { loss, r }
}

pub fn check_loss(case: &LCase, obs: &mut Obs) {
    obs.class(case.loss.name());
    let mut arr = Array1::from_vec(case.r.clone());
    case.loss.lib().apply(&mut arr);
    obs.ensure(arr.len() == case.r.len(), || "Loss::apply changed the length".to_string());
    let f = case.loss.f();
    let (mut below, mut above) = (false, false);
    for (r, v) in case.r.iter().zip(arr.iter()) {
        check_loss_value(obs, &case.loss, *r, *v);
        if r.abs() < f {
            below = true;
        } else {
            above = true;
        }
    }
    if below && above {
        obs.class("both sides of |r| = f");
        obs.nontrivial();
    }
    obs.class(if f < 0.1 {
        "f:1e-3..0.1"
    } else if f < 3.0 {
        "f:0.1..3"
    } else {
        "f:3..100"
    });
}

// ---------------------------------------------------------------------------------------
// Part 3: data sets and the estimator
// ---------------------------------------------------------------------------------------
#[derive(Serialize, Deserialize, Clone, Debug)]
pub enum DsSpec {
    /// temperatures as fractions of T_c (may exceed 1), optional critical-temperature guess (fraction)
    VaporPressure { tr: Vec<f64>, extrapolate: bool, tc_guess: Option<f64> },
    LiquidDensity { tr: Vec<f64>, p_bar: Vec<f64> },
    EquilibriumLiquidDensity { tr: Vec<f64> },
    /// which: 0 viscosity, 1 diffusion, 2 thermal conductivity; phase: None | per point 0 vapor / 1 liquid
    Transport { which: usize, tr: Vec<f64>, p_bar: Vec<f64>, phase: Option<Vec<u8>> },
    /// binary: T as fraction of the lower T_c, liquid composition; (p, y) from the model's bubble point,
    /// multiplied by (1+dp), (1+dy)
    ChemicalPotential { tr: Vec<f64>, x: Vec<f64>, dp: Vec<f64>, dy: Vec<f64> },
    /// binary: bubble (liquid) or dew (vapor) pressure; pressure guess = model value * guess factor
    VlePressure { tr: Vec<f64>, x: Vec<f64>, vapor: bool, guess: Vec<f64> },
    /// binary phase diagram at constant T (fraction of the lower T_c) or p (bar). Data point i is
    /// (tp_i, x_i, y_i): the point at parameter `s` on segment `seg` of the model's bubble and dew
    /// polylines (which share their tp vertices), shifted by (dx_liquid, dx_vapor, relative dtp);
    /// `liquid` / `vapor`: which mole-fraction columns are handed to the data set
    DiagramT { tr: f64, npoints: usize, points: Vec<(usize, f64, f64, f64, f64)>, liquid: bool, vapor: bool },
    DiagramP { p_bar: f64, npoints: usize, points: Vec<(usize, f64, f64, f64, f64)>, liquid: bool, vapor: bool },
}

impl DsSpec {
    fn name(&self) -> String {
        match self {
            DsSpec::VaporPressure { extrapolate, .. } => format!("VaporPressure(extrapolate={extrapolate})"),
            DsSpec::LiquidDensity { .. } => "LiquidDensity".into(),
            DsSpec::EquilibriumLiquidDensity { .. } => "EquilibriumLiquidDensity".into(),
            DsSpec::Transport { which, phase, .. } => format!("{}(phase {})", ["Viscosity", "Diffusion", "ThermalConductivity"][*which], if phase.is_some() { "given" } else { "None" }),
            DsSpec::ChemicalPotential { .. } => "BinaryVleChemicalPotential".into(),
            DsSpec::VlePressure { vapor, .. } => format!("BinaryVlePressure({})", if *vapor { "Vapor" } else { "Liquid" }),
            DsSpec::DiagramT { .. } => "BinaryPhaseDiagram(T)".into(),
            DsSpec::DiagramP { .. } => "BinaryPhaseDiagram(p)".into(),
        }
    }
}

#[derive(Serialize, Deserialize, Clone, Debug)]
pub struct DsEntry {
    pub ds: DsSpec,
    pub weight: f64,
    pub loss: LossSpec,
    /// relative perturbation of the model-generated targets (data sets with explicit targets)
    pub delta: Vec<f64>,
}

#[derive(Serialize, Deserialize, Clone, Debug)]
pub struct ECase {
    pub spec: ModelSpec,
    pub sets: Vec<DsEntry>,
    /// how the second estimator of the case is built: the first `n_new` data sets (with their raw,
    /// un-normalised weights) go through `Estimator::new`, the remaining ones through successive
    /// `Estimator::add_data` calls (0 = empty estimator + add_data only). None (old replay files):
    /// everything through `new`.
    #[serde(default)]
    pub n_new: Option<usize>,
}

const ALKANES: [&str; 8] = ["propane", "butane", "pentane", "hexane", "heptane", "octane", "isobutane", "isopentane"];

fn gross2001(name: &str) -> Value {
    POOLS.pcsaft[0].1.iter().find(|r| r["identifier"]["name"].as_str() == Some(name)).unwrap_or_else(|| panic!("{name} not in gross2001")).clone()
}

fn gen_points(g: &mut Gen, lo: f64, hi: f64, n: usize) -> Vec<f64> {
    (0..n).map(|_| g.range(lo, hi)).collect()
}

fn gen_diagram_points(g: &mut Gen, npoints: usize) -> Vec<(usize, f64, f64, f64, f64)> {
    let n = 1 + g.index(6);
    let exact = g.bool(0.4);
    (0..n)
        .map(|_| {
            (
                g.index(npoints.saturating_sub(3).max(1)),
                g.range(0.15, 0.85),
                if exact { 0.0 } else { g.range(-0.05, 0.05) },
                if exact { 0.0 } else { g.range(-0.05, 0.05) },
                if exact { 0.0 } else { g.range(-0.05, 0.05) },
            )
        })
        .collect()
}

fn gen_columns(g: &mut Gen) -> (bool, bool) {
    match g.index(3) {
        0 => (true, true),
        1 => (true, false),
        _ => (false, true),
    }
}

pub fn decode_estimator(g: &mut Gen) -> ECase {
    let binary = g.bool(0.3);
    let nsets = 1 + g.index(3);
    let mut opts = Opts::default();
    let spec;
    if binary {
        let i = g.index(ALKANES.len());
        let mut j = g.index(ALKANES.len() - 1);
        if j >= i {
            j += 1;
        }
        let pure = vec![gross2001(ALKANES[i]), gross2001(ALKANES[j])];
        let mut bin = vec![];
        if let Some(b) = shipped_binary(&POOLS.pcsaft_binary, &pure[0], &pure[1]) {
            bin.push((0, 1, b));
        } else if g.bool(0.5) {
            bin.push((0, 1, json!({"k_ij": g.range(-0.03, 0.03)})));
        }
        spec = ModelSpec { family: Family::PcSaft, pure, binary: bin, seg: None, opts, source: "shipped:gross2001 alkane pair".into() };
    } else {
        let mut rec = match g.index(2) {
            0 => {
                let recs = lin2018();
                recs[g.index(recs.len())].clone()
            }
            _ => {
                let recs = &POOLS.pcsaft[0].1;
                recs[g.index(recs.len())].clone()
            }
        };
        gen_coeffs(g, &mut rec, true);
        opts.dq44 = g.bool(0.2);
        spec = ModelSpec { family: Family::PcSaft, pure: vec![rec], binary: vec![], seg: None, opts, source: "shipped:loetgeringlin2018|gross2001".into() };
    }
    let mut sets = vec![];
    for _ in 0..nsets {
        let n = 1 + g.index(20);
        let ds = if binary {
            match g.index(5) {
                0 => {
                    let n = n.min(6);
                    // exact: (p, y) are the model's own bubble point => zero chemical-potential residual
                    let exact = g.bool(0.4);
                    let z = |v: Vec<f64>| -> Vec<f64> { if exact { vec![0.0; v.len()] } else { v } };
                    DsSpec::ChemicalPotential { tr: gen_points(g, 0.6, 0.9, n), x: gen_points(g, 0.05, 0.95, n), dp: z(gen_points(g, -0.03, 0.03, n)), dy: z(gen_points(g, -0.05, 0.05, n)) }
                }
                1 | 2 => {
                    let n = n.min(8);
                    DsSpec::VlePressure { tr: gen_points(g, 0.6, 0.9, n), x: gen_points(g, 0.05, 0.95, n), vapor: g.bool(0.5), guess: gen_points(g, 0.8, 1.25, n) }
                }
                3 => {
                    let npoints = 8 + g.index(18);
                    let (liquid, vapor) = gen_columns(g);
                    DsSpec::DiagramT { tr: g.range(0.6, 0.9), npoints, points: gen_diagram_points(g, npoints), liquid, vapor }
                }
                _ => {
                    let npoints = 8 + g.index(18);
                    let (liquid, vapor) = gen_columns(g);
                    DsSpec::DiagramP { p_bar: g.log_range(1.0, 8.0), npoints, points: gen_diagram_points(g, npoints), liquid, vapor }
                }
            }
        } else {
            match g.index(7) {
                0 => DsSpec::VaporPressure { tr: gen_points(g, 0.5, 1.25, n), extrapolate: false, tc_guess: if g.bool(0.5) { Some(g.range(0.8, 1.2)) } else { None } },
                1 => DsSpec::VaporPressure { tr: gen_points(g, 0.5, 1.25, n), extrapolate: true, tc_guess: if g.bool(0.5) { Some(g.range(0.8, 1.2)) } else { None } },
                2 => DsSpec::LiquidDensity { tr: gen_points(g, 0.5, 0.95, n), p_bar: (0..n).map(|_| g.log_range(0.05, 500.0)).collect() },
                3 => DsSpec::EquilibriumLiquidDensity { tr: gen_points(g, 0.5, 1.05, n) },
                k => {
                    let phase = if g.bool(0.5) { Some((0..n).map(|_| g.index(2) as u8).collect()) } else { None };
                    DsSpec::Transport { which: k - 4, tr: gen_points(g, 0.6, 1.6, n), p_bar: (0..n).map(|_| g.log_range(0.5, 300.0)).collect(), phase }
                }
            }
        };
        let nd = 40;
        let delta = (0..nd)
            .map(|_| {
                let v = g.log_range(1e-4, 0.5);
                if g.bool(0.5) {
                    -v
                } else {
                    v
                }
            })
            .collect();
        sets.push(DsEntry { ds, weight: g.log_range(1e-3, 1e3), loss: gen_loss(g), delta });
    }
    // construction sequence of the second estimator (drawn last: earlier genes keep their meaning)
    let n_new = Some(g.index(nsets + 1));
    ECase { spec, sets, n_new }
}

type DS = Arc<dyn DataSet<Model>>;
/// what a data set should predict (harness-side wrapped library calls), or why it must fail
type Oracle = Result<Vec<f64>, String>;

fn es(e: feos::core::EosError) -> String {
    e.to_string()
}

fn init_of(p: u8) -> (Phase, DensityInitialization) {
    if p == 0 {
        (Phase::Vapor, DensityInitialization::Vapor)
    } else {
        (Phase::Liquid, DensityInitialization::Liquid)
    }
}

/// Build (a) the library call results in the data set's implied unit and (b) a constructor that
/// makes the data set for given targets (in the implied unit, as plain numbers).
#[allow(clippy::type_complexity)]
fn realise(
    ds: &DsSpec,
    model: &Arc<Model>,
    tcs: &[f64],
    obs: &mut Obs,
) -> Result<(Oracle, Box<dyn Fn(&[f64]) -> DS>, bool, Option<Vec<f64>>), String> {
    let one = Moles::from_reduced(arr1(&[1.0]));
    let so = SolverOptions::default();
    match ds.clone() {
        DsSpec::VaporPressure { tr, extrapolate, tc_guess } => {
            let tc = tcs[0];
            let t: Vec<f64> = tr.iter().map(|r| r * tc).collect();
            let guess = tc_guess.map(|f| f * tc * KELVIN);
            // --- the documented procedure, recomputed in SI ---
            let tmax = guess.unwrap_or(t.iter().cloned().fold(f64::MIN, f64::max) * KELVIN);
            let oracle: Oracle = (|| {
                let cp = State::critical_point(model, None, Some(tmax), so).or_else(|_| State::critical_point(model, None, None, so)).map_err(es)?;
                let tck = cp.temperature.convert_to(KELVIN);
                let pc = cp.pressure(Contributions::Total).convert_to(PASCAL);
                let t0 = 0.9 * tck;
                let p0 = PhaseEquilibrium::pure(model, t0 * KELVIN, None, so).map_err(es)?.vapor().pressure(Contributions::Total).convert_to(PASCAL);
                let b = (pc / p0).ln() / (1.0 / tck - 1.0 / t0);
                let a = pc.ln() - b / tck;
                Ok(t.iter()
                    .map(|&ti| match PhaseEquilibrium::vapor_pressure(model, ti * KELVIN)[0] {
                        Some(p) => p.convert_to(PASCAL),
                        None => {
                            if extrapolate {
                                (a + b / ti).exp()
                            } else {
                                f64::NAN
                            }
                        }
                    })
                    .collect())
            })();
            if let Ok(v) = &oracle {
                let above = t.iter().zip(v.iter()).filter(|(ti, _)| **ti > tc).count();
                if above > 0 {
                    obs.class(if extrapolate { "vapor pressure: extrapolated points above T_c" } else { "vapor pressure: NaN points above T_c" });
                }
            }
            let tt = t.clone();
            // targets are handed over in bar: the data set must store them in Pa
            let mk = move |target_pa: &[f64]| -> DS {
                let target = Array1::from_vec(target_pa.iter().map(|p| p * 1e-5).collect()) * BAR;
                Arc::new(est::VaporPressure::new(target, Array1::from_vec(tt.clone()) * KELVIN, extrapolate, guess, None))
            };
            Ok((oracle, Box::new(mk), true, None))
        }
        DsSpec::LiquidDensity { tr, p_bar } => {
            let t: Vec<f64> = tr.iter().map(|r| r * tcs[0]).collect();
            let oracle: Oracle = Ok(t
                .iter()
                .zip(p_bar.iter())
                .map(|(&ti, &pi)| match State::new_npt(model, ti * KELVIN, pi * BAR, &one, DensityInitialization::Liquid) {
                    Ok(s) => s.mass_density().convert_to(KILOGRAM / METER.powi::<P3>()),
                    Err(_) => f64::NAN,
                })
                .collect());
            let (tt, pp) = (t.clone(), p_bar.clone());
            // targets handed over in g/cm^3
            let mk = move |target: &[f64]| -> DS {
                let target = Array1::from_vec(target.iter().map(|r| r * 1e-3).collect()) * (GRAM / (CENTI * METER).powi::<P3>());
                Arc::new(est::LiquidDensity::new(target, Array1::from_vec(tt.clone()) * KELVIN, Array1::from_vec(pp.clone()) * BAR))
            };
            Ok((oracle, Box::new(mk), true, None))
        }
        DsSpec::EquilibriumLiquidDensity { tr } => {
            let t: Vec<f64> = tr.iter().map(|r| r * tcs[0]).collect();
            let oracle: Oracle = Ok(t
                .iter()
                .map(|&ti| match PhaseEquilibrium::pure(model, ti * KELVIN, None, so) {
                    Ok(v) => v.liquid().mass_density().convert_to(KILOGRAM / METER.powi::<P3>()),
                    Err(_) => f64::NAN,
                })
                .collect());
            let tt = t.clone();
            let mk = move |target: &[f64]| -> DS {
                let target = Array1::from_vec(target.to_vec()) * (KILOGRAM / METER.powi::<P3>());
                Arc::new(est::EquilibriumLiquidDensity::new(target, Array1::from_vec(tt.clone()) * KELVIN, None))
            };
            Ok((oracle, Box::new(mk), true, None))
        }
        DsSpec::Transport { which, tr, p_bar, phase } => {
            let t: Vec<f64> = tr.iter().map(|r| r * tcs[0]).collect();
            let oracle: Oracle = t
                .iter()
                .zip(p_bar.iter())
                .enumerate()
                .map(|(i, (&ti, &pi))| {
                    let init = match &phase {
                        None => DensityInitialization::None,
                        Some(ph) => init_of(ph[i]).1,
                    };
                    let s = State::new_npt(model, ti * KELVIN, pi * BAR, &one, init).map_err(es)?;
                    // implied units: mPa s, cm^2/s, W/m/K
                    Ok(match which {
                        0 => s.viscosity().map_err(es)?.convert_to(PASCAL * SECOND) * 1e3,
                        1 => s.diffusion().map_err(es)?.convert_to(METER.powi::<P2>() / SECOND) * 1e4,
                        _ => s.thermal_conductivity().map_err(es)?.convert_to(WATT / METER / KELVIN),
                    })
                })
                .collect();
            let (tt, pp) = (t.clone(), p_bar.clone());
            let ph: Option<Vec<Phase>> = phase.as_ref().map(|v| v.iter().map(|&p| init_of(p).0).collect());
            let mk = move |target: &[f64]| -> DS {
                let (tk, pb) = (Array1::from_vec(tt.clone()) * KELVIN, Array1::from_vec(pp.clone()) * BAR);
                match which {
                    // targets handed over in Pa s / m^2/s / W/m/K
                    0 => Arc::new(est::Viscosity::new(Array1::from_vec(target.iter().map(|v| v * 1e-3).collect()) * (PASCAL * SECOND), tk, pb, ph.as_ref())),
                    1 => Arc::new(est::Diffusion::new(Array1::from_vec(target.iter().map(|v| v * 1e-4).collect()) * (METER.powi::<P2>() / SECOND), tk, pb, ph.as_ref())),
                    _ => Arc::new(est::ThermalConductivity::new(Array1::from_vec(target.to_vec()) * (WATT / METER / KELVIN), tk, pb, ph.as_ref())),
                }
            };
            Ok((oracle, Box::new(mk), true, None))
        }
        DsSpec::ChemicalPotential { tr, x, dp, dy } => {
            let tl = tcs[0].min(tcs[1]);
            let n = tr.len();
            let mut t = vec![];
            let mut p = vec![];
            let mut y = vec![];
            for i in 0..n {
                let ti = tr[i] * tl;
                let vle = PhaseEquilibrium::bubble_point(model, ti * KELVIN, &arr1(&[x[i], 1.0 - x[i]]), None, None, Default::default()).map_err(|e| format!("input generation (bubble point): {e}"))?;
                t.push(ti);
                p.push(vle.vapor().pressure(Contributions::Total).convert_to(PASCAL) * (1.0 + dp[i]));
                y.push((vle.vapor().molefracs[0] * (1.0 + dy[i])).clamp(1e-6, 1.0 - 1e-6));
            }
            if dp.iter().zip(dy.iter()).all(|(a, b)| *a == 0.0 && *b == 0.0) {
                obs.class("chemical potential: exact equilibrium inputs");
            }
            // formula of the data set recomputed from public getters (reduced units, 500 K scale)
            let oracle: Oracle = (|| {
                let mut out = vec![];
                for i in 0..n {
                    let l = State::new_npt(model, t[i] * KELVIN, p[i] * PASCAL, &Moles::from_reduced(arr1(&[x[i], 1.0 - x[i]])), DensityInitialization::Liquid).map_err(es)?;
                    let v = State::new_npt(model, t[i] * KELVIN, p[i] * PASCAL, &Moles::from_reduced(arr1(&[y[i], 1.0 - y[i]])), DensityInitialization::Vapor).map_err(es)?;
                    let (ml, mv) = (l.residual_chemical_potential().to_reduced(), v.residual_chemical_potential().to_reduced());
                    let (rl, rv) = (l.partial_density.to_reduced(), v.partial_density.to_reduced());
                    for k in 0..2 {
                        out.push(1.0 + (ml[k] - mv[k] + t[i] * (rl[k] / rv[k]).ln()) / 500.0);
                    }
                }
                Ok(out)
            })();
            let (tt, pp, xx, yy) = (t.clone(), p.clone(), x.clone(), y.clone());
            let mk = move |_target: &[f64]| -> DS {
                Arc::new(est::BinaryVleChemicalPotential::new(Array1::from_vec(tt.clone()) * KELVIN, Array1::from_vec(pp.clone()) * PASCAL, Array1::from_vec(xx.clone()), Array1::from_vec(yy.clone())))
            };
            Ok((oracle, Box::new(mk), false, None))
        }
        DsSpec::VlePressure { tr, x, vapor, guess } => {
            let tl = tcs[0].min(tcs[1]);
            let t: Vec<f64> = tr.iter().map(|r| r * tl).collect();
            // pressure guesses: model value (no guess) times the guess factor
            let mut pg = vec![];
            for i in 0..t.len() {
                let z = arr1(&[x[i], 1.0 - x[i]]);
                let vle = if vapor {
                    PhaseEquilibrium::dew_point(model, t[i] * KELVIN, &z, None, None, Default::default())
                } else {
                    PhaseEquilibrium::bubble_point(model, t[i] * KELVIN, &z, None, None, Default::default())
                }
                .map_err(|e| format!("input generation (bubble/dew point): {e}"))?;
                pg.push(vle.vapor().pressure(Contributions::Total).convert_to(PASCAL) * guess[i]);
            }
            let oracle: Oracle = t
                .iter()
                .enumerate()
                .map(|(i, &ti)| {
                    let z = arr1(&[x[i], 1.0 - x[i]]);
                    let vle = if vapor {
                        PhaseEquilibrium::dew_point(model, ti * KELVIN, &z, Some(pg[i] * PASCAL), None, Default::default())
                    } else {
                        PhaseEquilibrium::bubble_point(model, ti * KELVIN, &z, Some(pg[i] * PASCAL), None, Default::default())
                    }
                    .map_err(es)?;
                    Ok(vle.vapor().pressure(Contributions::Total).convert_to(PASCAL))
                })
                .collect();
            // the data set has no separate target: target == the given pressure (in Pa). The
            // pressure doubles as initial value of the solver, so it is handed over in Pa (bitwise
            // the same initial value as in the harness-side call).
            let (tt, xx) = (t.clone(), x.clone());
            let mk = move |target_pa: &[f64]| -> DS {
                Arc::new(est::BinaryVlePressure::new(
                    Array1::from_vec(tt.clone()) * KELVIN,
                    Array1::from_vec(target_pa.to_vec()) * PASCAL,
                    Array1::from_vec(xx.clone()),
                    if vapor { Phase::Vapor } else { Phase::Liquid },
                ))
            };
            Ok((oracle, Box::new(mk), true, Some(pg.clone())))
        }
        DsSpec::DiagramT { tr, npoints, points, liquid, vapor } => {
            let t = tr * tcs[0].min(tcs[1]);
            let dia = PhaseDiagram::binary_vle(model, t * KELVIN, Some(npoints), None, Default::default()).map_err(|e| format!("input generation (binary_vle): {e}"))?;
            let xl: Vec<f64> = dia.liquid().molefracs().column(0).to_vec();
            let xv: Vec<f64> = dia.vapor().molefracs().column(0).to_vec();
            let tp: Vec<f64> = dia.vapor().iter().map(|s| s.pressure(Contributions::Total).convert_to(PASCAL)).collect();
            let (oracle, pts) = diagram_oracle(&xl, &xv, &tp, &points, liquid, vapor, obs);
            let mk = move |_t: &[f64]| -> DS {
                Arc::new(est::BinaryPhaseDiagram::new(
                    t * KELVIN,
                    Array1::from_vec(pts.tp.clone()) * PASCAL,
                    if liquid { Some(Array1::from_vec(pts.x.clone())) } else { None },
                    if vapor { Some(Array1::from_vec(pts.y.clone())) } else { None },
                    Some(npoints),
                ))
            };
            Ok((oracle, Box::new(mk), false, None))
        }
        DsSpec::DiagramP { p_bar, npoints, points, liquid, vapor } => {
            let dia = PhaseDiagram::binary_vle(model, p_bar * BAR, Some(npoints), None, Default::default()).map_err(|e| format!("input generation (binary_vle): {e}"))?;
            let xl: Vec<f64> = dia.liquid().molefracs().column(0).to_vec();
            let xv: Vec<f64> = dia.vapor().molefracs().column(0).to_vec();
            let tp: Vec<f64> = dia.vapor().iter().map(|s| s.temperature.convert_to(KELVIN)).collect();
            let (oracle, pts) = diagram_oracle(&xl, &xv, &tp, &points, liquid, vapor, obs);
            let mk = move |_t: &[f64]| -> DS {
                Arc::new(est::BinaryPhaseDiagram::new(
                    p_bar * BAR,
                    Array1::from_vec(pts.tp.clone()) * KELVIN,
                    if liquid { Some(Array1::from_vec(pts.x.clone())) } else { None },
                    if vapor { Some(Array1::from_vec(pts.y.clone())) } else { None },
                    Some(npoints),
                ))
            };
            Ok((oracle, Box::new(mk), false, None))
        }
    }
}

#[derive(Clone, Default)]
struct Pts {
    tp: Vec<f64>,
    x: Vec<f64>,
    y: Vec<f64>,
}

/// Experimental points (tp_i, x_i, y_i) for a binary phase diagram (on / near the model's
/// polylines) and the expected prediction (liquid pairs first, then vapor pairs): for a point ON
/// an interior part of a segment the distance is zero (prediction (1, 1)); for shifted points
/// NaN marks "not asserted by value" (structural check only: the predicted point lies on the
/// polyline).
fn diagram_oracle(xl: &[f64], xv: &[f64], tp: &[f64], points: &[(usize, f64, f64, f64, f64)], liquid: bool, vapor: bool, obs: &mut Obs) -> (Oracle, Pts) {
    let mut pts = Pts::default();
    let nseg = tp.len().saturating_sub(1);
    let mut exact = vec![];
    for &(seg, s, dxl, dxv, dtp) in points {
        if nseg == 0 {
            continue;
        }
        let k = seg % nseg;
        let x = xl[k] + s * (xl[k + 1] - xl[k]);
        let y = xv[k] + s * (xv[k + 1] - xv[k]);
        let t = tp[k] + s * (tp[k + 1] - tp[k]);
        // degenerate segments carry no interior point
        let dt_rel = ((tp[k + 1] - tp[k]) / tp[k]).abs();
        let ok_l = (xl[k + 1] - xl[k]).abs() > 1e-9 || dt_rel > 1e-9;
        let ok_v = (xv[k + 1] - xv[k]).abs() > 1e-9 || dt_rel > 1e-9;
        let (xe, ye) = ((x + dxl).clamp(1e-6, 1.0 - 1e-6), (y + dxv).clamp(1e-6, 1.0 - 1e-6));
        pts.tp.push(t * (1.0 + dtp));
        pts.x.push(xe);
        pts.y.push(ye);
        exact.push((dtp == 0.0 && dxl == 0.0 && xe == x && ok_l, dtp == 0.0 && dxv == 0.0 && ye == y && ok_v));
    }
    let mut out = vec![];
    for (col, on) in [(0usize, liquid), (1usize, vapor)] {
        if !on {
            continue;
        }
        for e in &exact {
            let is_exact = if col == 0 { e.0 } else { e.1 };
            if is_exact {
                out.extend([1.0, 1.0]);
                obs.class("diagram: point on the model's polyline");
            } else {
                out.extend([f64::NAN, f64::NAN]);
                obs.class("diagram: shifted point");
            }
        }
    }
    (Ok(out), pts)
}

/// distance of (x, y) to the polyline (xs, ys)
fn polyline_distance(xs: &[f64], ys: &[f64], x: f64, y: f64) -> f64 {
    let mut best = f64::INFINITY;
    for k in 0..xs.len() - 1 {
        let (dx, dy) = (xs[k + 1] - xs[k], ys[k + 1] - ys[k]);
        let l2 = dx * dx + dy * dy;
        let t = if l2 > 0.0 { (((x - xs[k]) * dx + (y - ys[k]) * dy) / l2).clamp(0.0, 1.0) } else { 0.0 };
        let (px, py) = (xs[k] + t * dx, ys[k] + t * dy);
        best = best.min(((px - x).powi(2) + (py - y).powi(2)).sqrt());
    }
    best
}

fn losses_for(f: f64) -> Vec<LossSpec> {
    vec![LossSpec::Linear, LossSpec::SoftL1(f), LossSpec::Huber(f), LossSpec::Cauchy(f), LossSpec::Arctan(f)]
}

pub fn check_estimator(case: &ECase, obs: &mut Obs) {
    let spec = &case.spec;
    obs.class(if spec.n() == 1 { "pure model" } else { "binary model" });
    let model = match spec.build() {
        Ok(m) => m,
        Err(e) => {
            obs.discard(format!("build:{}", e.chars().take(40).collect::<String>()));
            return;
        }
    };
    let tcs: Vec<f64> = (0..spec.n()).map(|i| pure_tc(spec, &model, i)).collect();
    let mut data: Vec<DS> = vec![];
    let mut weights = vec![];
    let mut losses = vec![];
    let mut expected_cost: Vec<Vec<f64>> = vec![];
    let mut expected_pred: Vec<Vec<f64>> = vec![];
    let mut distinct_inputs = false;
    for entry in &case.sets {
        let name = entry.ds.name();
        obs.class(format!("dataset:{name}"));
        let (oracle, mk, explicit_targets, fixed) = match realise(&entry.ds, &model, &tcs, obs) {
            Ok(r) => r,
            Err(e) => {
                obs.discard(format!("{name}: {}", e.chars().take(60).collect::<String>()));
                continue;
            }
        };
        // ---- (1) predict equals the wrapped library call in the implied unit ----
        let npts = match &oracle {
            Ok(v) => v.len(),
            Err(_) => 1,
        };
        // probe targets: the oracle itself where finite, 1 otherwise
        let probe_targets: Vec<f64> = match (&fixed, &oracle) {
            (Some(f), _) => f.clone(),
            (None, Ok(v)) => v.iter().map(|p| if p.is_finite() { *p } else { 1.0 }).collect(),
            (None, Err(_)) => vec![1.0; entry_len(&entry.ds)],
        };
        let probe = mk(&probe_targets);
        let pred = probe.predict(&model);
        let pred = match (pred, &oracle) {
            (Err(e), Err(_)) => {
                obs.class(format!("{name}: library call and predict both fail"));
                let _ = e;
                continue;
            }
            (Err(e), Ok(_)) => {
                obs.fail(format!("{name}: predict failed ({e}) although every wrapped library call succeeded"));
                continue;
            }
            (Ok(p), Err(e)) => {
                obs.fail(format!("{name}: predict returned {:?} although the wrapped library call fails ({e})", p.to_vec()));
                continue;
            }
            (Ok(p), Ok(_)) => p.to_vec(),
        };
        let oracle = oracle.unwrap();
        let is_diagram = matches!(entry.ds, DsSpec::DiagramT { .. } | DsSpec::DiagramP { .. });
        if !is_diagram {
            let tol = match entry.ds {
                DsSpec::VaporPressure { extrapolate: true, .. } => TOL_EXTRA,
                // formula recomputed in reduced units with a different operation order
                DsSpec::ChemicalPotential { .. } => 1e-11,
                _ => TOL_PRED,
            };
            // chemical-potential residual: 1 + dmu/(500 K R) can cancel, compare on the scale 1
            let floor = if matches!(entry.ds, DsSpec::ChemicalPotential { .. }) { 1.0 } else { 0.0 };
            close_vec(obs, &format!("predict {name}"), &format!("{name}: predict vs library call"), &pred, &oracle, tol, floor);
        } else {
            if pred.len() != oracle.len() {
                obs.fail(format!("{name}: predict has {} entries, expected {}", pred.len(), oracle.len()));
                continue;
            }
            for (i, (p, o)) in pred.iter().zip(oracle.iter()).enumerate() {
                if o.is_finite() {
                    close(obs, &format!("predict {name}"), &format!("{name}: point on the model's own diagram, prediction[{i}]"), *p, *o, 1e-9, 0.0);
                } else {
                    obs.ensure(p.is_finite(), || format!("{name}: prediction[{i}] = {p} for a point near the diagram"));
                }
            }
            check_diagram_structure(obs, &entry.ds, &model, &tcs, &pred);
        }
        // ---- (2) target(), datapoints() in the implied unit ----
        let tgt = probe.target().to_vec();
        obs.ensure(probe.datapoints() == tgt.len(), || format!("{name}: datapoints() {} vs target length {}", probe.datapoints(), tgt.len()));
        if explicit_targets {
            close_vec(obs, "target unit", &format!("{name}: stored target in the implied unit"), &tgt, &probe_targets, 1e-13, 0.0);
        } else {
            obs.ensure(tgt.iter().all(|v| *v == 1.0) && tgt.len() == pred.len(), || format!("{name}: target is not a vector of ones of the prediction's length"));
        }
        let _ = npts;
        // ---- (3) model-generated targets: zero relative difference, zero cost for every loss ----
        let all_finite = pred.iter().all(|p| p.is_finite());
        let exact_inputs = match &entry.ds {
            DsSpec::ChemicalPotential { dp, dy, .. } => dp.iter().zip(dy.iter()).all(|(a, b)| *a == 0.0 && *b == 0.0),
            DsSpec::DiagramT { .. } | DsSpec::DiagramP { .. } => oracle.iter().all(|o| o.is_finite()) && !oracle.is_empty(),
            DsSpec::VlePressure { guess, .. } => guess.iter().all(|g| *g == 1.0),
            _ => true,
        };
        if all_finite && !pred.is_empty() && (explicit_targets || exact_inputs) && !matches!(entry.ds, DsSpec::VlePressure { .. }) {
            let exact = mk(&pred);
            // inputs generated by a solver (bubble point / diagram) carry the solver tolerance
            let tz = if explicit_targets { TOL_ZERO } else { 1e-6 };
            match exact.relative_difference(&model) {
                Err(e) => obs.fail(format!("{name}: relative_difference with model-generated targets failed: {e}")),
                Ok(rd) => {
                    for (i, r) in rd.iter().enumerate() {
                        obs.count();
                        track(&format!("zero relative difference ({})", if explicit_targets { "explicit targets" } else { "solver-generated inputs" }), r.abs() / tz, tz);
                        if !(r.abs() <= tz) {
                            obs.fail(format!("{name}: relative_difference[{i}] = {r:e} for a target generated by the model"));
                        }
                    }
                    let mard = exact.mean_absolute_relative_difference(&model).unwrap_or(f64::NAN);
                    obs.ensure(mard.abs() <= tz, || format!("{name}: mean_absolute_relative_difference = {mard:e} for model-generated targets"));
                    for l in losses_for(entry.loss.f()) {
                        match exact.cost(&model, l.lib()) {
                            Err(e) => obs.fail(format!("{name}: cost failed: {e}")),
                            Ok(c) => {
                                for (i, ci) in c.iter().enumerate() {
                                    obs.count();
                                    // loss(r)/N with |r| <= tz: every loss is bounded by |r|
                                    if !(ci.abs() <= tz) {
                                        obs.fail(format!("{name}: cost[{i}] = {ci:e} under {:?} for model-generated targets", l));
                                    }
                                }
                            }
                        }
                    }
                    obs.class(format!("zero-cost:{name}"));
                }
            }
        }
        // ---- (4) perturbed targets: relative difference, cost = loss(rel diff)/N ----
        let final_ds: DS = if explicit_targets && !matches!(entry.ds, DsSpec::VlePressure { .. }) {
            let targets: Vec<f64> = pred.iter().enumerate().map(|(i, p)| if p.is_finite() { p * (1.0 + entry.delta[i % entry.delta.len()]) } else { 1.0 }).collect();
            mk(&targets)
        } else {
            probe.clone()
        };
        let tgt = final_ds.target().to_vec();
        // BinaryVlePressure: the given pressure is target and initial value at once — predictions
        // are re-derived through predict (checked against the library call above)
        let pred2 = match final_ds.predict(&model) {
            Ok(p) => p.to_vec(),
            Err(e) => {
                obs.fail(format!("{name}: second predict failed: {e}"));
                continue;
            }
        };
        if !matches!(entry.ds, DsSpec::VlePressure { .. }) {
            close_vec(obs, "predict independent of targets", &format!("{name}: predict does not depend on the targets"), &pred2, &pred, 1e-14, 0.0);
        }
        let rd_ref: Vec<f64> = pred2.iter().zip(tgt.iter()).map(|(p, t)| (p - t) / t).collect();
        match final_ds.relative_difference(&model) {
            Err(e) => {
                obs.fail(format!("{name}: relative_difference failed: {e}"));
                continue;
            }
            Ok(rd) => {
                close_vec(obs, "relative difference", &format!("{name}: relative_difference = (prediction - target)/target"), &rd.to_vec(), &rd_ref, TOL_COST, 1e-3);
            }
        }
        let fin: Vec<f64> = rd_ref.iter().cloned().filter(|v| v.is_finite()).collect();
        let mard_ref = if fin.is_empty() { 0.0 } else { fin.iter().map(|v| v.abs()).sum::<f64>() / fin.len() as f64 };
        if let Ok(m) = final_ds.mean_absolute_relative_difference(&model) {
            close(obs, "mean abs rel diff", &format!("{name}: mean_absolute_relative_difference (finite entries)"), m, mard_ref, 1e-12, 1e-6);
        } else {
            obs.fail(format!("{name}: mean_absolute_relative_difference failed"));
        }
        let n = rd_ref.len() as f64;
        match (final_ds.cost(&model, entry.loss.lib()), final_ds.relative_difference(&model)) {
            (Ok(c), Ok(rd)) => {
                let c: Vec<f64> = c.to_vec();
                obs.ensure(c.len() == rd.len(), || format!("{name}: cost has {} entries for {} data points", c.len(), rd.len()));
                // N * |cost_i| = sqrt(f^2 rho(r_i^2/f^2)) (magnitudes: the linear branches keep the sign)
                for (ci, ri) in c.iter().zip(rd.iter()) {
                    if ri.is_nan() {
                        obs.ensure(ci.is_nan(), || format!("{name}: cost {ci} for a NaN relative difference"));
                    } else {
                        check_loss_value(obs, &entry.loss, *ri, ci * n);
                    }
                }
                expected_cost.push(c);
            }
            (Err(e), _) | (_, Err(e)) => {
                obs.fail(format!("{name}: cost failed: {e}"));
                continue;
            }
        }
        if pred2.len() >= 3 {
            distinct_inputs = true;
        }
        expected_pred.push(pred2);
        data.push(final_ds);
        weights.push(entry.weight);
        losses.push(entry.loss);
    }
    // ---- (5) Estimator: cost = concatenation of w_i/sum(w) * DataSet::cost_i ----
    if data.is_empty() {
        return;
    }
    let wsum: f64 = weights.iter().sum();
    let estimator = Estimator::new(data.clone(), weights.clone(), losses.iter().map(|l| l.lib()).collect());
    match estimator.cost(&model) {
        Err(e) => obs.fail(format!("Estimator::cost failed although every DataSet::cost succeeded: {e}")),
        Ok(c) => {
            let expect: Vec<f64> = expected_cost.iter().zip(weights.iter()).flat_map(|(c, w)| c.iter().map(move |ci| ci * w / wsum)).collect();
            let scale = expect.iter().fold(0.0f64, |a, b| a.max(b.abs()));
            close_vec(obs, "Estimator::cost", "Estimator::cost = concat(w_i / sum w * DataSet::cost_i)", &c.to_vec(), &expect, TOL_COST, 1e-3 * scale);
        }
    }
    // ---- (5b) the same data sets entered through `new` (first k) + `add_data` (the rest), raw
    //      weights: the cost must use w_i / sum(w) over ALL stored weights, whatever the history ----
    let k = case.n_new.unwrap_or(data.len()).min(data.len());
    if k < data.len() {
        let mut e2 = Estimator::new(data[..k].to_vec(), weights[..k].to_vec(), losses[..k].iter().map(|l| l.lib()).collect());
        for i in k..data.len() {
            e2.add_data(&data[i], weights[i], losses[i].lib());
        }
        obs.class(format!("estimator built by new({k}) + {} x add_data", data.len() - k));
        obs.ensure(e2.datasets().len() == data.len(), || format!("new({k}) + add_data: {} data sets stored, expected {}", e2.datasets().len(), data.len()));
        match e2.cost(&model) {
            Err(e) => obs.fail(format!("Estimator::cost of an estimator built by new({k}) + add_data failed: {e}")),
            Ok(c) => {
                let expect: Vec<f64> = expected_cost.iter().zip(weights.iter()).flat_map(|(c, w)| c.iter().map(move |ci| ci * w / wsum)).collect();
                let scale = expect.iter().fold(0.0f64, |a, b| a.max(b.abs()));
                close_vec(obs, "Estimator::cost (new + add_data)", &format!("Estimator::cost after new({k}) + {} x add_data = concat(w_i / sum w * DataSet::cost_i)", data.len() - k), &c.to_vec(), &expect, TOL_COST, 1e-3 * scale);
            }
        }
        match e2.predict(&model) {
            Err(e) => obs.fail(format!("Estimator::predict (new + add_data) failed: {e}")),
            Ok(p) => {
                obs.ensure(p.len() == expected_pred.len(), || "Estimator::predict (new + add_data): wrong number of data sets".to_string());
                for (a, b) in p.iter().zip(expected_pred.iter()) {
                    close_vec(obs, "Estimator::predict", "Estimator::predict (new + add_data) = DataSet::predict", &a.to_vec(), b, 1e-14, 0.0);
                }
            }
        }
    } else {
        obs.class("estimator built by new only");
    }
    match estimator.predict(&model) {
        Err(e) => obs.fail(format!("Estimator::predict failed: {e}")),
        Ok(p) => {
            obs.ensure(p.len() == expected_pred.len(), || "Estimator::predict: wrong number of data sets".to_string());
            for (a, b) in p.iter().zip(expected_pred.iter()) {
                close_vec(obs, "Estimator::predict", "Estimator::predict = DataSet::predict", &a.to_vec(), b, 1e-14, 0.0);
            }
        }
    }
    obs.ensure(estimator.datasets().len() == data.len(), || "Estimator::datasets length".to_string());
    let wmax = weights.iter().cloned().fold(f64::MIN, f64::max);
    let wmin = weights.iter().cloned().fold(f64::MAX, f64::min);
    if weights.len() > 1 && wmax / wmin > 1.01 {
        obs.class("non-uniform weights");
    }
    if distinct_inputs {
        obs.nontrivial();
    }
    obs.class(format!("{} data sets", data.len()));
}

fn entry_len(ds: &DsSpec) -> usize {
    match ds {
        DsSpec::VaporPressure { tr, .. } | DsSpec::LiquidDensity { tr, .. } | DsSpec::EquilibriumLiquidDensity { tr } | DsSpec::Transport { tr, .. } | DsSpec::VlePressure { tr, .. } => tr.len(),
        DsSpec::ChemicalPotential { tr, .. } => 2 * tr.len(),
        DsSpec::DiagramT { points, liquid, vapor, .. } | DsSpec::DiagramP { points, liquid, vapor, .. } => 2 * points.len() * (*liquid as usize + *vapor as usize),
    }
}

/// every predicted point (x0, y0 * tp_exp) of a BinaryPhaseDiagram lies on the model's polyline
fn check_diagram_structure(obs: &mut Obs, ds: &DsSpec, model: &Arc<Model>, tcs: &[f64], pred: &[f64]) {
    let (xl, xv, tp, points, liquid, vapor) = match ds {
        DsSpec::DiagramT { tr, npoints, points, liquid, vapor } => {
            let t = tr * tcs[0].min(tcs[1]);
            let Ok(dia) = PhaseDiagram::binary_vle(model, t * KELVIN, Some(*npoints), None, Default::default()) else { return };
            let tp: Vec<f64> = dia.vapor().iter().map(|s| s.pressure(Contributions::Total).convert_to(PASCAL)).collect();
            (dia.liquid().molefracs().column(0).to_vec(), dia.vapor().molefracs().column(0).to_vec(), tp, points.clone(), *liquid, *vapor)
        }
        DsSpec::DiagramP { p_bar, npoints, points, liquid, vapor } => {
            let Ok(dia) = PhaseDiagram::binary_vle(model, *p_bar * BAR, Some(*npoints), None, Default::default()) else { return };
            let tp: Vec<f64> = dia.vapor().iter().map(|s| s.temperature.convert_to(KELVIN)).collect();
            (dia.liquid().molefracs().column(0).to_vec(), dia.vapor().molefracs().column(0).to_vec(), tp, points.clone(), *liquid, *vapor)
        }
        _ => return,
    };
    // re-create the experimental points exactly as in `diagram_oracle`
    let mut dummy = Obs::default();
    let (_, pts) = diagram_oracle(&xl, &xv, &tp, &points, liquid, vapor, &mut dummy);
    let mut k = 0;
    for (xs, xe, on) in [(&xl, &pts.x, liquid), (&xv, &pts.y, vapor)] {
        if !on {
            continue;
        }
        for (i, xe) in xe.iter().enumerate() {
            if k + 1 >= pred.len() {
                return;
            }
            let (x0, y0) = (pred[k] + xe - 1.0, pred[k + 1]);
            // in the data set's scaled coordinates (x, tp/tp_exp)
            let ys: Vec<f64> = tp.iter().map(|t| t / pts.tp[i]).collect();
            let d = polyline_distance(xs, &ys, x0, y0);
            obs.count();
            track("diagram: predicted point on polyline", d / 1e-9, 1e-9);
            if !(d <= 1e-9) {
                obs.fail(format!("BinaryPhaseDiagram: predicted point ({x0}, {y0}) for data point ({xe}, 1) is {d:e} away from the model's phase boundary"));
            }
            k += 2;
        }
    }
}

// ---------------------------------------------------------------------------------------
const PART_T: PartCfg = PartCfg {
    name: "transport",
    genome_len: 96,
    cases_quick: 15000,
    cases_thorough: 500_000,
    panic: PanicPolicy::Violation,
};

const PART_L: PartCfg = PartCfg {
    name: "loss",
    genome_len: 64,
    cases_quick: 20000,
    cases_thorough: 500_000,
    panic: PanicPolicy::Violation,
};

const PART_E: PartCfg = PartCfg {
    name: "estimator",
    genome_len: 400,
    cases_quick: 1500,
    cases_thorough: 40_000,
    panic: PanicPolicy::Count,
};

pub fn run(ctx: &Ctx) {
    ctx.set_rule("transport: proptest genomes -> (PC-SAFT record: loetgeringlin2018 with its shipped viscosity coefficients | loetgeringlin2018 with random viscosity coefficients | random physical record; always random diffusion and thermal-conductivity coefficients; DQ35/DQ44) or (SAFT-VRQ Mie record of aasen2019 / aasen2019_fh2 / hammer2023 with random coefficients; T >= 15 K) x T/Tc in [0.5,2] x rho/rho_max (half uniform 0.05-0.85, half log-uniform 1e-5-0.5) x second record for the binary with x2 in {0, 1e-12} x second temperature for the state of equal residual entropy (harness bisection on residual_molar_entropy). Non-trivial: all three properties evaluated and |s_res| > 1e-6 k_B. loss: Loss kind x scaling factor log-uniform 1e-3..1e2 x 1-24 residuals (around |r| = f, log-uniform 1e-6..1e3, uniform 0..1e3, either sign); non-trivial: residuals on both sides of |r| = f. estimator: pure model (loetgeringlin2018 / gross2001 record + random transport coefficients) with 1-3 data sets out of VaporPressure(+-extrapolate, T up to 1.25 Tc, optional T_c guess), LiquidDensity, EquilibriumLiquidDensity, Viscosity, Diffusion, ThermalConductivity (phase None / given), or a gross2001 alkane pair with 1-3 of BinaryVleChemicalPotential, BinaryVlePressure (Liquid / Vapor), BinaryPhaseDiagram (T / p specification); 1-20 points; weights log-uniform 1e-3..1e3 (never normalised by the harness); loss of any kind; two estimators per case: all data sets through Estimator::new, and a generated split: the first k (0..=n) through new, the rest through successive add_data calls; targets = model prediction x (1 + delta), |delta| log-uniform 1e-4..0.5. Non-trivial: at least one data set with >= 3 points. Distinct by hash of the canonical case JSON.");
    ctx.assume("transport: value vs reference*exp(ln reduced) 1e-13; ln reduced vs the documented correlation functions (viscosity A+Bs+Cs^2+Ds^3, diffusion A+Bs-C(1-e^s)s^2-Ds^4-Es^8, thermal conductivity A+Bs+C(1-e^s)+Ds^2, s = s_res/(R m)) evaluated by the harness 1e-12 of sum|terms|+1; PC-SAFT viscosity reference vs the Chapman-Enskog viscosity with the Neufeld collision integral recomputed by the harness in SI 1e-11 (extension of the stated property: pins the unit of the reference); vanishing second component 1e-10 for x2 = 0 and 3e-8 (1+|ln eta_reduced|) for x2 = 1e-12; states whose |ln reduced| exceeds 200 (random records with |s_res/m| > 10 or positive s_res, outside any fitted range: exp() overflows by construction) are discarded and counted; equal residual entropy 1e-9 after a bisection converged to 1e-12; diffusion / thermal conductivity exist for one-component models only (clean Err for two components is asserted)");
    ctx.assume("loss: |apply(r)|^2 vs f^2 rho(r^2/f^2) with rho evaluated without cancellation; 1e-12 relative + 1e-13 f^2 absolute (sqrt(1+z)-1 and ln(1+z) lose the digits of z below 1e-16 in the library's direct evaluation)");
    ctx.assume("estimator: predict vs wrapped library call 1e-13 (extrapolated vapour pressure 1e-10); NaN / Err policies of the data sets are mirrored (NaN for failing points of VaporPressure, LiquidDensity, EquilibriumLiquidDensity; Err of the whole prediction for transport and binary data sets); targets handed over in bar, g/cm3, Pa s, m2/s, kPa and compared in the implied units Pa, kg/m3, mPa s, cm2/s, Pa; zero relative difference 1e-12 for explicit targets, 1e-6 where the *inputs* come from a bubble-point / phase-diagram solver (BinaryVleChemicalPotential, BinaryPhaseDiagram); BinaryPhaseDiagram: points on the model's own polyline predict (1,1) within 1e-9, every predicted point lies on the polyline (1e-9); library results used as inputs are trusted (C04/C05)");
    // VERIF_PARTS=transport,loss restricts a (calibration) run to some parts; default: all
    let parts = std::env::var("VERIF_PARTS").unwrap_or_default();
    let on = |p: &str| parts.is_empty() || parts.split(',').any(|q| q == p);
    if on("transport") {
        ctx.run_sampled(&PART_T, &decode_transport, &check_transport);
    }
    if on("loss") {
        ctx.run_sampled(&PART_L, &decode_loss, &check_loss);
    }
    if on("estimator") {
        ctx.run_sampled(&PART_E, &decode_estimator, &check_estimator);
    }
    let w = WORST.lock().unwrap();
    let m: BTreeMap<String, Value> = w
        .iter()
        .map(|(k, (r, tol))| (k.clone(), json!({"worst_fraction_of_tolerance": r, "tolerance": tol, "margin": if *r > 0.0 { 1.0 / r } else { f64::INFINITY }})))
        .collect();
    ctx.extra("worst_ratio", json!(m));
}

pub fn replay(ctx: &Ctx, part: &str, case: &Value) -> bool {
    match part {
        "loss" => ctx.replay_case::<LCase>(case, &check_loss),
        "estimator" => ctx.replay_case::<ECase>(case, &check_estimator),
        _ => ctx.replay_case::<TCase>(case, &check_transport),
    }
}
