//! C16 — a uniform fluid is an exact solution of the discretised DFT in every geometry.
//!
//! Oracle: the bulk equation of state (feos-core `State` evaluated through the bulk route of
//! the functional) plus an independent geometric reference for the volume of every grid.
use crate::engine::{Ctx, Gen, Obs, PanicPolicy, PartCfg};
use crate::model::*;
use feos::core::{Contributions, ReferenceSystem, State};
use feos_dft::adsorption::{ExternalPotential, Pore1D, Pore2D, Pore3D, PoreProfile, PoreSpecification};
use feos_dft::solvation::{PairCorrelation, SolvationProfile};
use feos_dft::{Axis, DFTProfile, Geometry, Grid, HelmholtzEnergyFunctional};
use ndarray::{arr2, Array, Array1, Array2, ArrayD, Dimension, IxDyn, RemoveAxis};
use ndarray::{Ix1, Ix2, Ix3};
use quantity::*;
use serde::{Deserialize, Serialize};
use serde_json::Value;
use std::f64::consts::PI;

#[derive(Serialize, Deserialize, Clone, Copy, Debug, PartialEq, Eq)]
pub enum GridKind {
    Cartesian1,
    Spherical,
    Polar,
    Cartesian2,
    Periodical2,
    Cylindrical,
    Cartesian3,
    Periodical3,
}

impl GridKind {
    pub fn dim(&self) -> usize {
        match self {
            Self::Cartesian1 | Self::Spherical | Self::Polar => 1,
            Self::Cartesian2 | Self::Periodical2 | Self::Cylindrical => 2,
            Self::Cartesian3 | Self::Periodical3 => 3,
        }
    }
    pub fn has_polar_axis(&self) -> bool {
        matches!(self, Self::Polar | Self::Cylindrical)
    }
}

pub const KINDS: [GridKind; 8] = [
    GridKind::Cartesian1,
    GridKind::Spherical,
    GridKind::Polar,
    GridKind::Cartesian2,
    GridKind::Periodical2,
    GridKind::Cylindrical,
    GridKind::Cartesian3,
    GridKind::Periodical3,
];

/// Serialisable description of a grid. `n`, `len` per axis (Angstrom), `angles` in degrees
/// (Periodical2: [alpha]; Periodical3: [alpha, beta, gamma]), `offset`: potential offset of a
/// Cartesian1 axis (Angstrom, 0 = none).
#[derive(Serialize, Deserialize, Clone, Debug, PartialEq)]
pub struct GridSpec {
    pub kind: GridKind,
    pub n: Vec<usize>,
    pub len: Vec<f64>,
    pub angles: Vec<f64>,
    pub offset: f64,
}

fn gram(a: &[f64]) -> f64 {
    let (ca, cb, cg) = (a[0].to_radians().cos(), a[1].to_radians().cos(), a[2].to_radians().cos());
    1.0 - ca * ca - cb * cb - cg * cg + 2.0 * ca * cb * cg
}

pub fn gen_grid(g: &mut Gen, kinds: &[GridKind], n1_max: usize, n2_max: usize, n3_max: usize) -> GridSpec {
    let kind = g.pick(kinds);
    let d = kind.dim();
    let (lo, hi) = match d {
        1 => (16.0, n1_max as f64 + 0.999),
        2 => (8.0, n2_max as f64 + 0.999),
        _ => (8.0, n3_max as f64 + 0.999),
    };
    let mut n = vec![];
    let mut len = vec![];
    for _ in 0..d {
        n.push(((g.log_range(lo, hi) + 1e-9).floor() as usize).max(lo as usize));
        len.push(g.log_range(10.0, 300.0));
    }
    let mut angles = vec![];
    match kind {
        GridKind::Periodical2 => angles.push(90.0 + g.range(-60.0, 60.0) * if g.bool(0.8) { 1.0 } else { 0.0 }),
        GridKind::Periodical3 => {
            let ortho = !g.bool(0.8);
            for _ in 0..3 {
                let a = 90.0 + g.range(-45.0, 45.0);
                angles.push(if ortho { 90.0 } else { a });
            }
            // a valid cell needs a positive Gram determinant: pull towards 90 degrees otherwise
            while gram(&angles) < 0.1 {
                for a in angles.iter_mut() {
                    *a = 90.0 + 0.5 * (*a - 90.0);
                }
            }
        }
        _ => {}
    }
    let offset = if kind == GridKind::Cartesian1 && g.bool(0.25) {
        g.range(1.0, 10.0)
    } else {
        0.0
    };
    GridSpec {
        kind,
        n,
        len,
        angles,
        offset,
    }
}

impl GridSpec {
    fn ax(&self, i: usize) -> Axis {
        Axis::new_cartesian(self.n[i], self.len[i] * ANGSTROM, None)
    }
    pub fn build(&self) -> Grid {
        match self.kind {
            GridKind::Cartesian1 => Grid::Cartesian1(Axis::new_cartesian(
                self.n[0],
                self.len[0] * ANGSTROM,
                if self.offset > 0.0 { Some(self.offset) } else { None },
            )),
            GridKind::Spherical => Grid::Spherical(Axis::new_spherical(self.n[0], self.len[0] * ANGSTROM)),
            GridKind::Polar => Grid::Polar(Axis::new_polar(self.n[0], self.len[0] * ANGSTROM)),
            GridKind::Cartesian2 => Grid::Cartesian2(self.ax(0), self.ax(1)),
            GridKind::Periodical2 => Grid::Periodical2(self.ax(0), self.ax(1), self.angles[0] * DEGREES),
            GridKind::Cylindrical => Grid::Cylindrical {
                r: Axis::new_polar(self.n[0], self.len[0] * ANGSTROM),
                z: self.ax(1),
            },
            GridKind::Cartesian3 => Grid::Cartesian3(self.ax(0), self.ax(1), self.ax(2)),
            GridKind::Periodical3 => Grid::Periodical3(
                self.ax(0),
                self.ax(1),
                self.ax(2),
                [self.angles[0] * DEGREES, self.angles[1] * DEGREES, self.angles[2] * DEGREES],
            ),
        }
    }
    /// Independent geometric reference: the volume (A, A^2, A^3) of the discretised domain,
    /// including a potential offset (which is part of the integration domain).
    pub fn reference_volume(&self) -> f64 {
        let l = &self.len;
        match self.kind {
            GridKind::Cartesian1 => l[0] + self.offset,
            GridKind::Spherical => 4.0 / 3.0 * PI * l[0].powi(3),
            GridKind::Polar => PI * l[0] * l[0],
            GridKind::Cartesian2 => l[0] * l[1],
            GridKind::Periodical2 => l[0] * l[1] * self.angles[0].to_radians().sin(),
            GridKind::Cylindrical => PI * l[0] * l[0] * l[1],
            GridKind::Cartesian3 => l[0] * l[1] * l[2],
            GridKind::Periodical3 => l[0] * l[1] * l[2] * gram(&self.angles).sqrt(),
        }
    }
    pub fn class(&self) -> String {
        format!("{:?}", self.kind)
    }
}

#[derive(Serialize, Deserialize, Clone, Debug)]
pub struct Case {
    pub grid: GridSpec,
    pub spec: ModelSpec,
    pub state: StateSpec,
    /// None, Some(1), Some(2)
    pub lanczos: Option<i32>,
    /// additionally construct the profile through the public wrapper constructor of the grid
    /// type (Pore1D / Pore2D / Pore3D / PairCorrelation / SolvationProfile)
    pub wrapped: bool,
}

pub const FUNCTIONALS: [Family; 5] = [
    Family::PcSaftFunctional,
    Family::FmtFunctional,
    Family::GcPcSaftFunctional,
    Family::PetsFunctional,
    Family::SaftVRQMieFunctional,
];

pub fn decode(g: &mut Gen) -> Case {
    let grid = gen_grid(g, &KINDS, 4096, 128, 32);
    let max_comp = if grid.kind.dim() == 1 { 3 } else { 2 };
    let mut spec = gen_model(
        g,
        &GenCfg {
            families: FUNCTIONALS.to_vec(),
            min_comp: 1,
            max_comp,
        },
    );
    acyclic_gc(&mut spec);
    let mut grid = grid;
    limit_work(&mut grid, &spec);
    let state = gen_state(g, spec.n());
    let lanczos = [None, Some(1), Some(2)][g.index(3)];
    let wrapped = g.bool(0.5);
    Case {
        grid,
        spec,
        state,
        lanczos,
        wrapped,
    }
}

/// number of density fields (segments) of a spec
pub fn n_segments(spec: &ModelSpec) -> usize {
    if spec.family == Family::GcPcSaftFunctional {
        spec.pure
            .iter()
            .map(|r| r["segments"].as_array().map(|a| a.len()).unwrap_or(1))
            .sum()
    } else {
        spec.n()
    }
}

/// Bound the work of one case: (grid points) x (segments) <= 24 000 in 2-D/3-D by reducing the
/// points per axis (never below 8), so that the quick tier stays fixed-work and fast. Small
/// models keep the full range (128 per axis in 2-D, 32 in 3-D).
pub fn limit_work(grid: &mut GridSpec, spec: &ModelSpec) {
    let d = grid.kind.dim();
    if d == 1 {
        return;
    }
    let segs = n_segments(spec) as f64;
    loop {
        let pts: f64 = grid.n.iter().map(|&n| n as f64).product();
        if pts * segs <= 24_000.0 || grid.n.iter().all(|&n| n <= 8) {
            break;
        }
        // the polar axis of a cylindrical grid keeps its size longest
        let imax = (0..d).max_by_key(|&i| grid.n[i]).unwrap();
        grid.n[imax] = (grid.n[imax] * 3 / 4).max(8);
    }
}

/// The bond integrals of the heterosegmented functional are defined for tree-like molecules
/// only (`bond_integrals` panics with "Cycle in molecular structure detected!" by design):
/// ring molecules of gc_substances.json are outside the domain of the DFT properties. A
/// record with a cycle (connected graph with #bonds >= #segments) is replaced by the next
/// acyclic record of the pool.
pub fn acyclic_gc(spec: &mut ModelSpec) {
    if spec.family != Family::GcPcSaftFunctional {
        return;
    }
    let cyclic = |r: &Value| -> bool {
        let ns = r["segments"].as_array().map(|a| a.len()).unwrap_or(0);
        r["bonds"].as_array().map(|b| b.len() >= ns).unwrap_or(false)
    };
    let pool = &POOLS.gc_substances;
    for r in spec.pure.iter_mut() {
        if cyclic(r) {
            let start = pool.iter().position(|p| p["identifier"] == r["identifier"]).unwrap_or(0);
            for k in 1..=pool.len() {
                let cand = &pool[(start + k) % pool.len()];
                if !cyclic(cand) {
                    *r = cand.clone();
                    break;
                }
            }
        }
    }
}

// ---------------------------------------------------------------------------------------
// tolerances (relative to the stated scales; worst values measured on the pinned tree are
// listed in `run`)
// ---------------------------------------------------------------------------------------
/// integral of one vs geometric reference, volume() vs integral of one, moles
const TOL_GEO: f64 = 1e-11;
/// weighted densities relative to the bulk weighted density of the same row
const TOL_WD: f64 = 1e-10;
/// Euler-Lagrange residual relative to the segment density
const TOL_RES: f64 = 3e-8;
/// grand potential density vs -p, relative to the sum of |terms| of omega
const TOL_OMEGA: f64 = 3e-9;

/// Functionals with association solve the site fractions iteratively to `tol_cross_assoc`
/// (default 1e-10), independently in the bulk state and on the grid: every derived quantity
/// can carry that error (GUIDE "false-alarm traps"; measured on the pinned tree: <= 3e-13, the
/// Newton iteration of the site fractions ends far below its tolerance). Tolerances of the
/// energy-like comparisons are 10 x that tolerance for those models, of the residual 1 x.
pub fn tol_omega(spec: &ModelSpec) -> f64 {
    if spec.has_association() {
        TOL_OMEGA.max(10.0 * spec.opts.tol_cross_assoc)
    } else {
        TOL_OMEGA
    }
}
/// The bulk ideal-chain term regularises ln(rho) as ln(|rho| + EPSILON)
/// (feos-dft/src/ideal_chain_contribution.rs:42) while the grid route carries the chain term
/// exactly through `m`: -p and omega differ by T * EPSILON * sum_i (m_i - 1) by construction
/// (visible only below eta ~ 1e-5). Twice that bound is admitted as an absolute term.
pub fn atol_ideal_chain(t: f64, m: &Array1<f64>) -> f64 {
    2.0 * t * f64::EPSILON * m.iter().map(|m| (m - 1.0).max(0.0)).sum::<f64>()
}
pub fn tol_res(spec: &ModelSpec) -> f64 {
    if spec.has_association() {
        TOL_RES.max(spec.opts.tol_cross_assoc)
    } else {
        TOL_RES
    }
}

pub struct Bulk {
    pub state: State<Model>,
    /// reduced temperature
    pub t: f64,
    /// reduced pressure (total)
    pub p: f64,
    /// partial densities per component
    pub rho_comp: Array1<f64>,
    /// partial densities per segment
    pub rho_seg: Array1<f64>,
    /// conditioning of the association term: 1 + 1e-5 exp(eps_AB,max / T) (1 without association)
    pub assoc_cond: f64,
}

/// largest association energy (K) of a spec (pure records, binary overrides; group-contribution
/// models: the OH group of the shipped hetero-segmented tables, 2575.9 K)
pub fn max_eps_ab(spec: &ModelSpec) -> f64 {
    if !spec.has_association() {
        return 0.0;
    }
    let mut e = 0.0f64;
    for p in &spec.pure {
        e = e.max(p["model_record"]["epsilon_k_ab"].as_f64().unwrap_or(0.0));
    }
    for (_, _, b) in &spec.binary {
        e = e.max(b["epsilon_k_ab"].as_f64().unwrap_or(0.0));
    }
    if matches!(spec.family, Family::GcPcSaftFunctional | Family::GcPcSaft) {
        e = e.max(2575.9);
    }
    e
}

/// The fraction of non-bonded sites X falls like exp(-eps_AB / T); the association term and
/// above all its derivatives (one Newton step of the site-fraction equations in dual numbers,
/// src/association/mod.rs:436-440) lose digits like eps_machine / X. Measured on the pinned tree
/// (hydrogen + water, identical weighted densities at all grid points): spread of the partial
/// derivatives over the grid 4e-15 at eps_AB/T = 12, 7e-13 at 18, 4e-11 at 22, 1.5e-7 at 30,
/// 2.7e-3 at 40, 0.5 at 45. Comparisons that involve the association term carry the factor
/// 1 + 1e-5 exp(eps_AB/T) (>= 400 x the measured spread); beyond 1e6 (eps_AB/T > 25.3) they are
/// not asserted.
pub fn assoc_conditioning(spec: &ModelSpec, t: f64) -> f64 {
    let e = max_eps_ab(spec);
    if e == 0.0 {
        1.0
    } else {
        1.0 + 1e-5 * (e / t).min(200.0).exp()
    }
}
pub const ASSOC_COND_MAX: f64 = 1e6;

/// id of the known finding: a functional with an association contribution panics instead of
/// returning NaN / Err when the cross-association iteration does not converge
pub const KF_ASSOC_PANIC: &str = "C16/functional-bulk-panics-cross-association";

/// Build the bulk state of a case (None + discard reason if the state cannot be built).
pub fn build_bulk(spec: &ModelSpec, st: &StateSpec, obs: &mut Obs) -> Option<Bulk> {
    build_bulk_with(spec, st, obs, None)
}

/// `panic_id`: Some(id) routes a panic of feos while the bulk state is built / evaluated through
/// `known_or_fail(id)`, None counts it as a discard.
pub fn build_bulk_with(spec: &ModelSpec, st: &StateSpec, obs: &mut Obs, panic_id: Option<&str>) -> Option<Bulk> {
    let model = match spec.build() {
        Ok(m) => m,
        Err(e) => {
            obs.discard(format!("build:{}", e.chars().take(40).collect::<String>()));
            return None;
        }
    };
    let mut inputs = match state_inputs(spec, &model, st) {
        Ok(i) => i,
        Err(e) => {
            obs.discard(format!("inputs:{e}"));
            return None;
        }
    };
    if spec.family == Family::SaftVRQMieFunctional && inputs.0.to_reduced() < 20.0 {
        // the Feynman-Hibbs corrected potentials are parameterised for T >= 15-20 K
        inputs.0 = Temperature::from_reduced(20.0);
    }
    // The bulk route of a functional (`FunctionalContribution::helmholtz_energy`,
    // feos-dft/src/functional_contribution.rs:44-45) unwraps the result of
    // `helmholtz_energy_density`: it panics where the equation of state returns NaN.
    let built = std::panic::catch_unwind(std::panic::AssertUnwindSafe(|| {
        let state = build_state(&model, &inputs)?;
        let p = state.pressure(Contributions::Total).to_reduced();
        Ok::<_, String>((state, p))
    }));
    let (state, p) = match built {
        Ok(Ok(sp)) => sp,
        Ok(Err(e)) => {
            obs.discard(format!("state:{}", e.chars().take(40).collect::<String>()));
            return None;
        }
        Err(e) => {
            let m = e
                .downcast_ref::<String>()
                .cloned()
                .or_else(|| e.downcast_ref::<&str>().map(|s| s.to_string()))
                .unwrap_or_default();
            let msg = format!(
                "bulk state of {} at T = {} panics: {} (eps_AB/T = {:.1})",
                spec.label(),
                inputs.0,
                m.chars().take(120).collect::<String>(),
                max_eps_ab(spec) / inputs.0.to_reduced()
            );
            match panic_id {
                Some(id) if m.contains("Cross association") => {
                    obs.class("bulk state panics: cross association not converged");
                    obs.known_or_fail(id, msg)
                }
                Some(_) => obs.fail(msg),
                None => obs.discard(format!("bulk state panics:{}", m.chars().take(60).collect::<String>())),
            }
            return None;
        }
    };
    if !p.is_finite() {
        obs.discard("non-finite bulk pressure");
        return None;
    }
    let rho_comp = state.partial_density.to_reduced();
    let rho_seg = state.eos.component_index().mapv(|c| rho_comp[c]);
    let t = state.temperature.to_reduced();
    Some(Bulk {
        t,
        p,
        rho_comp,
        rho_seg,
        assoc_cond: assoc_conditioning(spec, t),
        state,
    })
}

/// array of shape `shape` (first axis = rows) whose row i is filled with rows[i]
pub fn filled<DL: Dimension>(shape: &[usize], rows: &[f64]) -> Array<f64, DL> {
    let mut a = ArrayD::<f64>::zeros(IxDyn(shape));
    for (i, mut l) in a.outer_iter_mut().enumerate() {
        l.fill(rows[i]);
    }
    a.into_dimensionality::<DL>().unwrap()
}

fn grid_shape(grid: &Grid) -> Vec<usize> {
    grid.axes().iter().map(|a| a.grid.len()).collect()
}

fn max_abs_dev<'a>(it: impl Iterator<Item = &'a f64>, v: f64) -> f64 {
    let mut m = 0.0f64;
    for &x in it {
        let d = (x - v).abs();
        if !(d <= m) {
            m = d; // NaN propagates
        }
    }
    m
}

/// worst observed value of deviation/scale per comparison kind (evidence only, never a verdict)
static WORST: std::sync::Mutex<std::collections::BTreeMap<String, f64>> =
    std::sync::Mutex::new(std::collections::BTreeMap::new());

pub fn note(key: &str, v: f64) {
    let mut w = WORST.lock().unwrap();
    let e = w.entry(key.to_string()).or_insert(0.0);
    if v > *e || v.is_nan() {
        *e = v;
    }
}

/// an error of `solve`: a clean failure of the site-fraction iteration is no verdict
fn solve_error(obs: &mut Obs, what: &str, e: &str) {
    if e.contains("Cross association") {
        obs.discard(format!("{what}: cross association not converged on the grid"));
    } else {
        obs.fail(format!("{what} failed: {e}"));
    }
}

fn b_t(cx: &Ctxt) -> f64 {
    cx.bulk.t
}

struct Ctxt<'a> {
    case: &'a Case,
    bulk: &'a Bulk,
    /// geometric reference of the integral of one
    vref: f64,
    /// what `volume()` is documented to return (offset excluded)
    vdoc: f64,
}

const KNOWN_F1: &str = "C16/polar-axis-volume";

/// comparison of a quantity that involves `volume()`; on grids with a polar axis a mismatch
/// that is explained by volume() = 4 x integral(1) is the known finding F1.
fn volume_clause(obs: &mut Obs, polar: bool, what: &str, got: f64, want: f64, want_f1: f64, tol_scale: f64) {
    obs.count();
    if (got - want).abs() <= tol_scale && got.is_finite() {
        return;
    }
    let msg = format!("{what}: got {got:e}, expected {want:e} (|diff| {:e} > {tol_scale:e})", (got - want).abs());
    if polar && (got - want_f1).abs() <= tol_scale {
        obs.known_or_fail(KNOWN_F1, format!("{msg}; matches volume() = 4*integral(1)"));
    } else {
        obs.fail(msg);
    }
}

fn check_profile<D>(cx: &Ctxt, obs: &mut Obs, profile: DFTProfile<D, Model>, route: &str)
where
    D: Dimension + RemoveAxis + 'static,
    D::Larger: Dimension<Smaller = D>,
    D::Smaller: Dimension<Larger = D>,
    <D::Larger as Dimension>::Larger: Dimension<Smaller = D::Larger>,
{
    let b = cx.bulk;
    // Roundoff of the Fourier coefficients of a constant (1e-16 sqrt(N) at every k) is amplified
    // by weight functions that grow with k (Kierlik-Rosinberg w0 ~ k R sin(k R) / 2): the relative
    // error of weighted densities and of the residual scales with k_max R (measured on 30 000
    // cases: up to 3e-11 at k_max R ~ 2500, 1e-12 typically). Tolerances carry the factor
    // 1 + k_max R_max, k_max = pi n / L of the finest axis.
    let amp = {
        let mut rmax = 0.0f64;
        for w in profile.dft.weight_functions(b_t(cx)) {
            for list in w.as_slice() {
                for wf in list.iter() {
                    for x in wf.kernel_radius.iter() {
                        rmax = rmax.max(*x);
                    }
                }
            }
        }
        let kmax = profile
            .grid
            .axes()
            .iter()
            .map(|a| PI * a.grid.len() as f64 / a.length())
            .fold(0.0f64, f64::max);
        1.0 + kmax * rmax
    };
    let el_ok = cx.bulk.assoc_cond < ASSOC_COND_MAX;
    if !el_ok {
        obs.class("association beyond f64 conditioning (eps_AB/T > 25): Euler-Lagrange, omega and solve clauses not asserted");
    } else if cx.bulk.assoc_cond > 2.0 {
        obs.class("association conditioning factor > 2 applied");
    }
    let (tol_o, tol_r) = (
        tol_omega(&cx.case.spec) * cx.bulk.assoc_cond,
        tol_res(&cx.case.spec) * amp * cx.bulk.assoc_cond,
    );
    let tol_wd = TOL_WD * amp;
    let akey = if cx.case.spec.has_association() { "assoc" } else { "plain" };
    let dft = profile.dft.clone();
    let polar = cx.case.grid.kind.has_polar_axis();
    let d = cx.case.grid.kind.dim();
    let shape = grid_shape(&profile.grid);
    let nseg = b.rho_seg.len();
    let rho_tot: f64 = b.rho_comp.sum();

    // ---- integral of one, volume ----
    let ones: Array<f64, D> = filled(&shape, &vec![1.0; shape[0]]);
    let v_int = profile.integrate(&Dimensionless::from_reduced(ones)).to_reduced();
    note("integral(1) vs geometric volume (relative)", (v_int / cx.vref - 1.0).abs());
    obs.close(&format!("[{route}] integral(1) = geometric volume"), v_int, cx.vref, TOL_GEO, 0.0);
    let v_rep = profile.volume().to_reduced();
    if !polar {
        note("volume() vs integral(1) - offset (relative, non-polar axes)", ((v_rep + (cx.vref - cx.vdoc)) / v_int - 1.0).abs());
    }
    // volume() excludes a potential offset (documented): compare with the documented value
    let v_excl = cx.vref - cx.vdoc; // volume of the offset region (0 without offset)
    volume_clause(
        obs,
        polar,
        &format!("[{route}] volume() vs integral(1) - offset region"),
        v_rep,
        v_int - v_excl,
        4.0 * v_int,
        TOL_GEO * v_int,
    );

    // ---- density is the bulk density everywhere ----
    let rho = profile.density.to_reduced();
    for (s, r) in rho.outer_iter().enumerate() {
        let dev = max_abs_dev(r.iter(), b.rho_seg[s]);
        obs.ensure(dev <= 1e-13 * b.rho_seg[s], || {
            format!("[{route}] initial density of segment {s} deviates from bulk by {dev:e}")
        });
    }

    // ---- weighted densities ----
    let wfs = dft.weight_functions(b.t);
    let wds = match profile.weighted_densities() {
        Ok(w) => w,
        Err(e) => {
            obs.fail(format!("[{route}] weighted_densities failed: {e}"));
            return;
        }
    };
    obs.ensure(wds.len() == wfs.len(), || "number of weighted-density blocks".into());
    let mut worst_wd = 0.0f64;
    for (ic, (wf, wd)) in wfs.iter().zip(wds.iter()).enumerate() {
        let [sc, vc, sf, vf] = wf.as_slice();
        let n0 = wf.n_weighted_densities(0);
        let local = (n0 - sc.len() * nseg - sf.len()) / nseg;
        let bulk_wd = wf.weight_constants(0.0, 0).dot(&b.rho_seg);
        // magnitude of a vector weighted density: sum_s |prefactor| 4 pi R^2 rho_s
        let vscale = |w: &feos_dft::WeightFunction<f64>| -> f64 {
            (0..nseg)
                .map(|s| (w.prefactor[s] * 4.0 * PI * w.kernel_radius[s].powi(2)).abs() * b.rho_seg[s])
                .sum::<f64>()
        };
        // expected rows in the layout of the d-dimensional convolver
        let mut expect: Vec<(f64, f64)> = vec![]; // (value, scale)
        let mut k = 0;
        for _ in 0..(local + sc.len()) * nseg {
            expect.push((bulk_wd[k], bulk_wd[k].abs()));
            k += 1;
        }
        for w in vc.iter() {
            for _ in 0..d {
                for s in 0..nseg {
                    let sc_ = (w.prefactor[s] * 4.0 * PI * w.kernel_radius[s].powi(2)).abs() * b.rho_seg[s];
                    expect.push((0.0, sc_));
                }
            }
        }
        for _ in 0..sf.len() {
            expect.push((bulk_wd[k], bulk_wd[k].abs()));
            k += 1;
        }
        for w in vf.iter() {
            for _ in 0..d {
                expect.push((0.0, vscale(w)));
            }
        }
        if !obs.ensure(wd.shape()[0] == expect.len(), || {
            format!("[{route}] contribution {ic}: {} weighted densities, expected {}", wd.shape()[0], expect.len())
        }) {
            continue;
        }
        if !vc.is_empty() || !vf.is_empty() {
            obs.class("vector-weights");
        }
        for (r, (row, (val, scale))) in wd.outer_iter().zip(expect.iter()).enumerate() {
            let dev = max_abs_dev(row.iter(), *val);
            worst_wd = worst_wd.max(dev / scale.max(1e-300));
            obs.ensure(dev <= tol_wd * scale, || {
                format!("[{route}] weighted density {r} of contribution {ic}: max deviation {dev:e} from bulk value {val:e} (scale {scale:e})")
            });
        }
    }
    note("weighted densities / bulk value", worst_wd);
    note("weighted densities / (bulk value x (1 + k_max R_max))", worst_wd / amp);

    // the iteration of the site fractions may fail on the grid as well (clean Err): no verdict
    let assoc_err = |obs: &mut Obs, what: &str, e: &dyn std::fmt::Display| -> bool {
        let m = e.to_string();
        if m.contains("Cross association") {
            obs.discard(format!("{what}: cross association not converged on the grid"));
            true
        } else {
            false
        }
    };
    // ---- Euler-Lagrange residual ----
    match profile.residual(false) {
        Ok(_) if !el_ok => {}
        Ok((res, res_bulk, norm)) => {
            let mut worst = 0.0f64;
            for (s, r) in res.outer_iter().enumerate() {
                worst = worst.max(max_abs_dev(r.iter(), 0.0) / b.rho_seg[s]);
            }
            note(&format!("residual(false) max |res|/rho [{akey}]"), worst);
            note(&format!("residual(false) max |res|/(rho (1 + k_max R_max)) [{akey}]"), worst / amp);
            note(&format!("residual norm / rho [{akey}]"), norm / rho_tot);
            obs.ensure(worst <= tol_r, || format!("[{route}] residual(false): max |res|/rho = {worst:e}"));
            obs.ensure(norm <= tol_r * rho_tot, || format!("[{route}] residual norm {norm:e} vs rho {rho_tot:e}"));
            obs.ensure(res_bulk.iter().all(|x| *x == 0.0), || format!("[{route}] bulk residual {res_bulk:?}"));
        }
        Err(e) => {
            if assoc_err(obs, "residual", &e) {
                return;
            }
            obs.fail(format!("[{route}] residual(false) failed: {e}"))
        }
    }
    // ---- the same uniform profile under the particle-number specifications taken from the profile:
    // the bulk part of the Euler-Lagrange residual (the equations that enforce N) vanishes too ----
    if el_ok {
        for (name, spec) in [
            ("Moles", feos::dft::DFTSpecifications::moles_from_profile(&profile)),
            ("TotalMoles", feos::dft::DFTSpecifications::total_moles_from_profile(&profile)),
        ] {
            let mut p2 = profile.clone();
            p2.specification = spec;
            match p2.residual(false) {
                Ok((res, res_bulk, _)) => {
                    let mut worst = 0.0f64;
                    for (s, r) in res.outer_iter().enumerate() {
                        worst = worst.max(max_abs_dev(r.iter(), 0.0) / b.rho_seg[s]);
                    }
                    let wb = res_bulk.iter().zip(b.rho_seg.iter()).map(|(r, rho)| r.abs() / rho).fold(0.0, f64::max);
                    note(&format!("residual under {name} from profile: max |res_bulk|/rho [{akey}]"), wb);
                    obs.ensure(worst <= tol_r, || format!("[{route}] residual(false) with {name} from the profile: max |res|/rho = {worst:e}"));
                    obs.ensure(wb <= tol_r, || format!("[{route}] bulk residual with {name} from the profile: max |res_bulk|/rho = {wb:e} ({res_bulk:?})"));
                }
                Err(e) => {
                    if !assoc_err(obs, "residual", &e) {
                        obs.fail(format!("[{route}] residual(false) with {name} from the profile failed: {e}"))
                    }
                }
            }
        }
    }
    match profile.residual(true) {
        Ok(_) if !el_ok => {}
        Ok((res, _, _)) => {
            let worst = max_abs_dev(res.iter(), 0.0);
            note(&format!("residual(true) max [{akey}]"), worst);
            obs.ensure(worst <= tol_r, || format!("[{route}] residual(true): max |ln rho_proj - ln rho| = {worst:e}"));
        }
        Err(e) => {
            if !assoc_err(obs, "residual(log)", &e) {
                obs.fail(format!("[{route}] residual(true) failed: {e}"))
            }
        }
    }

    // ---- grand potential density = -p ----
    // scale: sum of |terms| of omega = T (f - sum (dF/drho + m) rho + bonds)
    let s_omega = match dft.functional_derivative(b.t, &rho, &profile.convolver) {
        Ok((f, dfdrho)) => {
            let f0 = f.iter().next().copied().unwrap_or(0.0).abs();
            let m = dft.m();
            let mut s = f0;
            for (i, r) in dfdrho.outer_iter().enumerate() {
                s += (r.iter().next().copied().unwrap_or(0.0).abs() + m[i] + 1.0) * b.rho_seg[i];
            }
            s * b.t
        }
        Err(e) => {
            if !assoc_err(obs, "functional_derivative", &e) {
                obs.fail(format!("[{route}] functional_derivative failed: {e}"));
            }
            return;
        }
    };
    let atol_ic = atol_ideal_chain(b.t, &dft.m().into_owned());
    let tol_abs = tol_o * s_omega + atol_ic;
    let mut nontrivial = false;
    match profile.grand_potential_density() {
        Ok(_) if !el_ok => {}
        Ok(om) => {
            let om = om.to_reduced();
            let dev = max_abs_dev(om.iter(), -b.p);
            note(&format!("|omega + p| / scale [{akey}]"), dev / s_omega);
            note(&format!("(|omega + p| - ideal-chain regularisation) / scale [{akey}]"), (dev - atol_ic).max(0.0) / s_omega);
            obs.ensure(dev <= tol_abs, || {
                format!("[{route}] grand potential density: max |omega + p| = {dev:e} (p = {:e}, scale {s_omega:e})", b.p)
            });
            // non-trivial: the residual pressure is visible above the tolerance
            if (b.p - rho_tot * b.t).abs() > 1e3 * tol_abs {
                nontrivial = true;
            }
        }
        Err(e) => obs.fail(format!("[{route}] grand_potential_density failed: {e}")),
    }

    // ---- moles = rho * integral(1) ----
    let moles = profile.moles().to_reduced();
    for c in 0..b.rho_comp.len() {
        note("moles vs rho*integral(1) (relative)", (moles[c] / (b.rho_comp[c] * v_int) - 1.0).abs());
        obs.close(&format!("[{route}] moles[{c}] = rho*integral(1)"), moles[c], b.rho_comp[c] * v_int, TOL_GEO, 0.0);
    }
    obs.close(
        &format!("[{route}] total_moles"),
        profile.total_moles().to_reduced(),
        rho_tot * v_int,
        TOL_GEO,
        0.0,
    );
    // excess adsorption N - rho*volume() (relative to rho*integral(1))
    for c in 0..b.rho_comp.len() {
        let exc = (moles[c] - b.rho_comp[c] * v_rep) / (b.rho_comp[c] * v_int);
        volume_clause(
            obs,
            polar,
            &format!("[{route}] relative excess adsorption of component {c}"),
            exc,
            v_excl / v_int,
            -3.0,
            10.0 * TOL_GEO,
        );
    }

    // ---- grand potential + p integral(1) = 0 ----
    match profile.grand_potential() {
        Ok(_) if !el_ok => {}
        Ok(om) => {
            note(&format!("|Omega + p V| / (scale V) [{akey}]"), (om.to_reduced() + b.p * v_int).abs() / (s_omega * v_int));
            obs.close_scaled(
                &format!("[{route}] Omega + p*integral(1) = 0"),
                om.to_reduced() + b.p * v_int,
                0.0,
                1.0,
                tol_abs * v_int,
            );
        }
        Err(e) => obs.fail(format!("[{route}] grand_potential failed: {e}")),
    }

    if !el_ok {
        return;
    }
    // ---- wrapper: PoreProfile (public fields) -> interfacial tension; one solve call ----
    let mut pore = PoreProfile {
        profile,
        grand_potential: None,
        interfacial_tension: None,
    };
    match pore.solve_inplace(None, false) {
        Ok(()) => {
            let gamma = pore.interfacial_tension.unwrap().to_reduced();
            // Omega + p*volume() with Omega = -p*integral(1): -p * (offset region)
            volume_clause(
                obs,
                polar,
                &format!("[{route}] interfacial tension (excess grand potential) / integral(1)"),
                gamma / v_int,
                -b.p * v_excl / v_int,
                3.0 * b.p,
                tol_abs,
            );
            let after = pore.profile.density.to_reduced();
            let mut worst = 0.0f64;
            for (s, r) in after.outer_iter().enumerate() {
                worst = worst.max(max_abs_dev(r.iter(), b.rho_seg[s]) / b.rho_seg[s]);
            }
            note(&format!("solve(): relative change of the uniform profile [{akey}]"), worst);
            obs.ensure(worst <= tol_r, || format!("[{route}] solve() changed the uniform profile by {worst:e} (relative)"));
            match &pore.profile.solver_log {
                Some(log) => {
                    let r = log.residual();
                    obs.ensure(r.len() == 2 && r.iter().all(|x| *x <= tol_r * rho_tot), || {
                        format!("[{route}] solve() from the uniform profile: residual log {:?} (expected two entries of 0 iterations)", r)
                    });
                }
                None => obs.fail(format!("[{route}] no solver log after solve")),
            }
        }
        Err(e) => solve_error(obs, &format!("[{route}] solve from the uniform profile"), &e.to_string()),
    }
    if nontrivial {
        obs.nontrivial();
    }
}

/// density array (segments x grid) of the bulk
fn bulk_density<DL: Dimension>(b: &Bulk, shape: &[usize]) -> Density<Array<f64, DL>> {
    let mut sh = vec![b.rho_seg.len()];
    sh.extend_from_slice(shape);
    Density::from_reduced(filled::<DL>(&sh, b.rho_seg.as_slice().unwrap()))
}

fn zeros_like<DL: Dimension>(b: &Bulk, shape: &[usize]) -> Array<f64, DL> {
    let mut sh = vec![b.rho_seg.len()];
    sh.extend_from_slice(shape);
    ArrayD::<f64>::zeros(IxDyn(&sh)).into_dimensionality::<DL>().unwrap()
}

pub fn check(case: &Case, obs: &mut Obs) {
    let g = &case.grid;
    obs.class(g.class());
    obs.class(case.spec.label());
    obs.class(format!("{}:{:?}", case.spec.label(), g.kind));
    obs.class(format!("n={}", case.spec.n()));
    obs.class(format!("lanczos={:?}", case.lanczos));
    if case.spec.family != Family::FmtFunctional {
        obs.class(format!("fmt-version={}", case.spec.opts.fmt));
    } else {
        obs.class(format!("FMT-version={}:n={}", case.spec.opts.fmt, case.spec.n()));
    }
    if case.spec.has_association() {
        obs.class("assoc");
    }
    if g.n.iter().any(|n| !n.is_power_of_two()) {
        obs.class("n-not-power-of-two");
    }
    if g.offset > 0.0 {
        obs.class("potential-offset");
    }
    let Some(bulk) = build_bulk_with(&case.spec, &case.state, obs, Some(KF_ASSOC_PANIC)) else { return };
    obs.class(if case.state.f_eta < 1e-3 {
        "dilute"
    } else if case.state.f_eta < 0.2 {
        "gas-like"
    } else {
        "dense"
    });
    let grid = g.build();
    let shape = grid_shape(&grid);
    let cx = Ctxt {
        case,
        bulk: &bulk,
        vref: g.reference_volume(),
        vdoc: g.reference_volume() - g.offset,
    };
    match g.kind.dim() {
        1 => {
            let rho = bulk_density::<Ix2>(&bulk, &shape);
            let p = DFTProfile::<Ix1, Model>::new(grid, &bulk.state, None, Some(&rho), case.lanczos);
            check_profile(&cx, obs, p, "DFTProfile");
        }
        2 => {
            let rho = bulk_density::<Ix3>(&bulk, &shape);
            let p = DFTProfile::<Ix2, Model>::new(grid, &bulk.state, None, Some(&rho), case.lanczos);
            check_profile(&cx, obs, p, "DFTProfile");
        }
        _ => {
            let rho = bulk_density::<ndarray::Ix4>(&bulk, &shape);
            let p = DFTProfile::<Ix3, Model>::new(grid, &bulk.state, None, Some(&rho), case.lanczos);
            check_profile(&cx, obs, p, "DFTProfile");
        }
    }
    if case.wrapped {
        check_wrapped(case, obs, &bulk);
    }
}

/// The same identities on profiles built by the public wrapper constructors with a zero
/// external potential (Lanczos fixed to Some(1) by those constructors).
fn check_wrapped(case: &Case, obs: &mut Obs, bulk: &Bulk) {
    let g = &case.grid;
    let el_ok = bulk.assoc_cond < ASSOC_COND_MAX;
    let (tol_o, tol_r) = (tol_omega(&case.spec) * bulk.assoc_cond, tol_res(&case.spec) * bulk.assoc_cond);
    let dummy = ExternalPotential::HardWall { sigma_ss: 1.0 };
    match g.kind {
        GridKind::Cartesian1 | GridKind::Spherical | GridKind::Polar => {
            let geometry = match g.kind {
                GridKind::Cartesian1 => Geometry::Cartesian,
                GridKind::Spherical => Geometry::Spherical,
                _ => Geometry::Cylindrical,
            };
            // slit pore: axis of length pore_size/2 plus the potential offset chosen by the library
            let pore_size = if g.kind == GridKind::Cartesian1 { 2.0 * g.len[0] } else { g.len[0] };
            let pore = Pore1D::new(geometry, pore_size * ANGSTROM, dummy, Some(g.n[0]), None);
            let zeros = zeros_like::<Ix2>(bulk, &[g.n[0]]);
            let rho = bulk_density::<Ix2>(bulk, &[g.n[0]]);
            match pore.initialize(&bulk.state, Some(&rho), Some(&zeros)) {
                Ok(pp) => {
                    let ax_len = pp.profile.grid.axes()[0].length();
                    // reference volume of the axis actually built (offset from the axis length)
                    let mut gs = g.clone();
                    gs.offset = if g.kind == GridKind::Cartesian1 { ax_len - g.len[0] } else { 0.0 };
                    if g.kind == GridKind::Cartesian1 {
                        obs.ensure(gs.offset > 0.0, || format!("slit pore without potential offset: axis length {ax_len}"));
                    }
                    let cx = Ctxt {
                        case,
                        bulk,
                        vref: gs.reference_volume(),
                        vdoc: gs.reference_volume() - gs.offset,
                    };
                    obs.class(format!("wrapper:Pore1D:{:?}", g.kind));
                    check_profile(&cx, obs, pp.profile, "Pore1D");
                }
                Err(e) => obs.fail(format!("Pore1D::initialize failed: {e}")),
            }
            if g.kind == GridKind::Spherical && case.spec.family == Family::GcPcSaftFunctional {
                // GcPcSaftFunctional does not implement PairPotential: PairCorrelation is not
                // available for heterosegmented functionals
                obs.class("wrapper:PairCorrelation:not-applicable(gc)");
            } else if g.kind == GridKind::Spherical && el_ok {
                // PairCorrelation through its public fields, zero potential
                let rho = bulk_density::<Ix2>(bulk, &[g.n[0]]);
                let profile = DFTProfile::<Ix1, Model>::new(g.build(), &bulk.state, None, Some(&rho), Some(1));
                let mut pc = PairCorrelation {
                    profile,
                    pair_correlation_function: None,
                    self_solvation_free_energy: None,
                    structure_factor: None,
                };
                obs.class("wrapper:PairCorrelation");
                match pc.solve_inplace(None, false) {
                    Ok(()) => {
                        let v = g.reference_volume();
                        let s_omega = omega_scale(bulk, &pc.profile);
                        let gfun = pc.pair_correlation_function.as_ref().unwrap();
                        let dev = max_abs_dev(gfun.iter(), 1.0);
                        obs.ensure(dev <= tol_r, || format!("PairCorrelation: max |g(r) - 1| = {dev:e}"));
                        obs.close_scaled(
                            "PairCorrelation: self solvation free energy",
                            pc.self_solvation_free_energy.unwrap().to_reduced(),
                            0.0,
                            1.0,
                            (tol_o * s_omega + atol_ideal_chain(bulk.t, &pc.profile.dft.m().into_owned())) * v,
                        );
                        let n = bulk.rho_comp.sum() * v;
                        obs.close_scaled(
                            "PairCorrelation: structure factor - 1",
                            pc.structure_factor.unwrap() - 1.0,
                            0.0,
                            10.0 * TOL_GEO,
                            n,
                        );
                    }
                    Err(e) => solve_error(obs, "PairCorrelation::solve", &e.to_string()),
                }
            }
        }
        GridKind::Periodical2 => {
            let pore = Pore2D::new(
                [g.len[0] * ANGSTROM, g.len[1] * ANGSTROM],
                g.angles[0] * DEGREES,
                [g.n[0], g.n[1]],
            );
            let rho = bulk_density::<Ix3>(bulk, &g.n);
            match pore.initialize(&bulk.state, Some(&rho), None) {
                Ok(pp) => {
                    let cx = Ctxt {
                        case,
                        bulk,
                        vref: g.reference_volume(),
                        vdoc: g.reference_volume(),
                    };
                    obs.class("wrapper:Pore2D");
                    check_profile(&cx, obs, pp.profile, "Pore2D");
                }
                Err(e) => obs.fail(format!("Pore2D::initialize failed: {e}")),
            }
        }
        GridKind::Periodical3 => {
            let size = [g.len[0] * ANGSTROM, g.len[1] * ANGSTROM, g.len[2] * ANGSTROM];
            let coords = Length::from_reduced(arr2(&[[1.0], [1.0], [1.0]]));
            let pore = Pore3D::new(
                size,
                [g.n[0], g.n[1], g.n[2]],
                coords,
                Array1::from_elem(1, 3.0),
                Array1::from_elem(1, 0.0),
                Some([g.angles[0] * DEGREES, g.angles[1] * DEGREES, g.angles[2] * DEGREES]),
                None,
                None,
            );
            let rho = bulk_density::<ndarray::Ix4>(bulk, &g.n);
            let zeros = zeros_like::<ndarray::Ix4>(bulk, &g.n);
            match pore.initialize(&bulk.state, Some(&rho), Some(&zeros)) {
                Ok(pp) => {
                    let cx = Ctxt {
                        case,
                        bulk,
                        vref: g.reference_volume(),
                        vdoc: g.reference_volume(),
                    };
                    obs.class("wrapper:Pore3D");
                    check_profile(&cx, obs, pp.profile, "Pore3D");
                }
                Err(e) => obs.fail(format!("Pore3D::initialize failed: {e}")),
            }
        }
        GridKind::Cartesian3 => {
            // two solute sites with zero energy parameter: external potential exactly zero
            let coords = Length::from_reduced(Array2::from_shape_vec((3, 2), vec![-0.3, 0.3, -0.2, 0.2, -0.1, 0.1]).unwrap());
            let size = [g.len[0] * ANGSTROM, g.len[1] * ANGSTROM, g.len[2] * ANGSTROM];
            match SolvationProfile::new(
                &bulk.state,
                [g.n[0], g.n[1], g.n[2]],
                coords,
                Array1::from_elem(2, 3.0),
                Array1::from_elem(2, 0.0),
                Some(size),
                None,
                None,
            ) {
                Ok(mut sp) => {
                    obs.class("wrapper:SolvationProfile");
                    let pot = max_abs_dev(sp.profile.external_potential.iter(), 0.0);
                    if !obs.ensure(pot == 0.0, || format!("SolvationProfile with epsilon_ss = 0: external potential up to {pot:e}")) {
                        return;
                    }
                    let s_omega = omega_scale(bulk, &sp.profile);
                    let v = g.reference_volume();
                    // constructor initialises the density from the bulk and the potential
                    let rho = sp.profile.density.to_reduced();
                    let mut worst = 0.0f64;
                    for (s, r) in rho.outer_iter().enumerate() {
                        worst = worst.max(max_abs_dev(r.iter(), bulk.rho_seg[s]) / bulk.rho_seg[s]);
                    }
                    obs.ensure(worst <= tol_r, || format!("SolvationProfile: initial density deviates from bulk by {worst:e}"));
                    match if el_ok { sp.solve_inplace(None, false) } else { Ok(()) } {
                        Ok(()) if !el_ok => {}
                        Ok(()) => {
                            obs.close_scaled(
                                "SolvationProfile: solvation free energy / volume",
                                sp.solvation_free_energy.unwrap().to_reduced() / v,
                                0.0,
                                1.0,
                                tol_o * s_omega + atol_ideal_chain(bulk.t, &sp.profile.dft.m().into_owned()),
                            );
                        }
                        Err(e) => solve_error(obs, "SolvationProfile::solve", &e.to_string()),
                    }
                    let cx = Ctxt {
                        case,
                        bulk,
                        vref: v,
                        vdoc: v,
                    };
                    check_profile(&cx, obs, sp.profile, "SolvationProfile");
                }
                Err(e) => obs.fail(format!("SolvationProfile::new failed: {e}")),
            }
        }
        GridKind::Cartesian2 | GridKind::Cylindrical => {
            // no dedicated public constructor: covered by the PoreProfile literal in check_profile
            obs.class("wrapper:none-for-this-grid");
        }
    }
}

/// sum of |terms| of the grand potential density (reduced pressure units)
fn omega_scale<D>(b: &Bulk, profile: &DFTProfile<D, Model>) -> f64
where
    D: Dimension,
    D::Larger: Dimension<Smaller = D>,
{
    let rho = profile.density.to_reduced();
    match profile.dft.functional_derivative(b.t, &rho, &profile.convolver) {
        Ok((f, dfdrho)) => {
            let m = profile.dft.m();
            let mut s = f.iter().next().copied().unwrap_or(0.0).abs();
            for (i, r) in dfdrho.outer_iter().enumerate() {
                s += (r.iter().next().copied().unwrap_or(0.0).abs() + m[i] + 1.0) * b.rho_seg[i];
            }
            s * b.t
        }
        Err(_) => f64::NAN,
    }
}

// ---------------------------------------------------------------------------------------
// Linear response of the uniform fluid (driven by C19, part `uniform-response`)
// ---------------------------------------------------------------------------------------
/// relative tolerance of the response comparisons, times the conditioning of d mu / d rho
const TOL_RESP: f64 = 1e-7;

/// inverse of a small dense matrix (Gauss-Jordan with partial pivoting); None if singular
fn invert(a: &Array2<f64>) -> Option<Array2<f64>> {
    let n = a.nrows();
    let mut m = a.clone();
    let mut inv = Array2::<f64>::eye(n);
    for c in 0..n {
        let piv = (c..n).max_by(|&i, &j| m[[i, c]].abs().partial_cmp(&m[[j, c]].abs()).unwrap())?;
        if !(m[[piv, c]].abs() > 0.0) || !m[[piv, c]].is_finite() {
            return None;
        }
        for k in 0..n {
            m.swap([c, k], [piv, k]);
            inv.swap([c, k], [piv, k]);
        }
        let d = m[[c, c]];
        for k in 0..n {
            m[[c, k]] /= d;
            inv[[c, k]] /= d;
        }
        for r in 0..n {
            if r != c {
                let f = m[[r, c]];
                for k in 0..n {
                    m[[r, k]] -= f * m[[c, k]];
                    inv[[r, k]] -= f * inv[[c, k]];
                }
            }
        }
    }
    Some(inv)
}

/// For a uniform profile without external potential the exact answers of the implicit-derivative
/// routines are bulk properties: dN_i/dmu_k = V (d rho_i / d mu_k)_T = V [(V_b dmu/dN)^-1]_ik,
/// dN_i/dp = V x_i / (dp/drho), dN_i/dT = -V x_i (dp/dT) / (dp/drho), V = integral(1) with the
/// grid's own weights; the Henry coefficients of a pore without potential are V/(RT) and the
/// ideal-gas enthalpy of adsorption is RT.
fn response_clause<D>(case: &Case, b: &Bulk, obs: &mut Obs, profile: DFTProfile<D, Model>)
where
    D: Dimension + RemoveAxis + 'static,
    D::Larger: Dimension<Smaller = D>,
    D::Smaller: Dimension<Larger = D>,
    <D::Larger as Dimension>::Larger: Dimension<Smaller = D::Larger>,
{
    let shape = grid_shape(&profile.grid);
    let ones: Array<f64, D> = filled(&shape, &vec![1.0; shape[0]]);
    let v_int = profile.integrate(&Dimensionless::from_reduced(ones)).to_reduced();
    let nc = b.rho_comp.len();
    let st = &b.state;
    let vb = st.volume.to_reduced();
    let dmu_drho = st.dmu_dni(Contributions::Total).to_reduced() * vb;
    let Some(drho_dmu) = invert(&dmu_drho) else {
        obs.discard("singular d mu / d rho of the bulk");
        return;
    };
    // conditioning of the bulk matrix (Frobenius norms) and of the compressibility
    let fro = |m: &Array2<f64>| m.iter().map(|x| x * x).sum::<f64>().sqrt();
    let cond = fro(&dmu_drho) * fro(&drho_dmu) * b.assoc_cond;
    let dp_drho = st.dp_drho(Contributions::Total).to_reduced();
    let dp_dt = st.dp_dt(Contributions::Total).to_reduced();
    let rho_tot: f64 = b.rho_comp.sum();
    // ideal-gas value T / rho of dp/drho: near the spinodal dp/drho is a small difference
    let cond_p = (b.t / dp_drho.abs()).max(1.0);
    if !(cond < 1e4 && cond_p < 1e3) || !cond.is_finite() {
        obs.class("bulk close to a stability limit (response ill-conditioned): skipped");
        return;
    }
    obs.class(if dp_drho > 0.0 { "mechanically stable bulk" } else { "mechanically unstable bulk" });
    let tol = TOL_RESP * cond.max(cond_p);
    let x = &st.molefracs;
    let akey = if case.spec.has_association() { "assoc" } else { "plain" };
    let mut nontrivial = false;
    // ---- dN/dmu ----
    match profile.dn_dmu() {
        Ok(m) => {
            let m = m.to_reduced();
            let scale = drho_dmu.iter().fold(0.0f64, |a, v| a.max(v.abs())) * v_int;
            for i in 0..nc {
                for k in 0..nc {
                    let want = v_int * drho_dmu[[i, k]];
                    note(&format!("uniform dn_dmu deviation / (tol scale) [{akey}]"), (m[[i, k]] - want).abs() / (tol * scale));
                    obs.close_scaled(&format!("uniform fluid: dn_dmu[{i},{k}] = V (d rho_{i}/d mu_{k})_T of the bulk"), m[[i, k]], want, tol, scale);
                }
            }
            // non-trivial: the excess part of d mu / d rho is visible (ideal gas: T / rho_i on the diagonal)
            if (0..nc).any(|i| (dmu_drho[[i, i]] - b.t / b.rho_comp[i]).abs() > 1e-3 * b.t / b.rho_comp[i]) {
                nontrivial = true;
            }
        }
        Err(e) => obs.inconclusive(format!("dn_dmu of the uniform profile: {}", e.to_string().chars().take(60).collect::<String>())),
    }
    // ---- dN/dp ----
    match profile.dn_dp() {
        Ok(v) => {
            let v = v.to_reduced();
            let scale = v_int / dp_drho.abs();
            for i in 0..nc {
                let want = v_int * x[i] / dp_drho;
                note(&format!("uniform dn_dp deviation / (tol scale) [{akey}]"), (v[i] - want).abs() / (tol * scale));
                obs.close_scaled(&format!("uniform fluid: dn_dp[{i}] = V x_{i} / (dp/drho) of the bulk"), v[i], want, tol, scale);
            }
        }
        Err(e) => obs.inconclusive(format!("dn_dp of the uniform profile: {}", e.to_string().chars().take(60).collect::<String>())),
    }
    // ---- dN/dT ----
    match profile.dn_dt() {
        Ok(v) => {
            let v = v.to_reduced();
            let scale = v_int * (dp_dt.abs() + rho_tot) / dp_drho.abs();
            for i in 0..nc {
                let want = -v_int * x[i] * dp_dt / dp_drho;
                note(&format!("uniform dn_dt deviation / (tol scale) [{akey}]"), (v[i] - want).abs() / (tol * scale));
                obs.close_scaled(&format!("uniform fluid: dn_dt[{i}] = -V x_{i} (dp/dT)/(dp/drho) of the bulk"), v[i], want, tol, scale);
            }
        }
        Err(e) => obs.inconclusive(format!("dn_dt of the uniform profile: {}", e.to_string().chars().take(60).collect::<String>())),
    }
    // ---- Henry coefficients and ideal-gas enthalpy of adsorption of the empty pore ----
    if profile.dft.m().iter().all(|&m| m == 1.0) {
        let pore = PoreProfile {
            profile,
            grand_potential: None,
            interfacial_tension: None,
        };
        let h = (pore.henry_coefficients() * (RGAS * st.temperature)).to_reduced();
        for i in 0..nc {
            note("uniform henry deviation (relative)", (h[i] / v_int - 1.0).abs());
            obs.close(&format!("empty pore: henry_coefficients[{i}] R T = integral(1)"), h[i], v_int, 1e-10, 0.0);
        }
        let hads = (pore.ideal_gas_enthalpy_of_adsorption() / (RGAS * st.temperature)).into_value();
        for i in 0..nc {
            obs.close(&format!("empty pore: ideal_gas_enthalpy_of_adsorption[{i}] = R T"), hads[i], 1.0, 1e-9, 0.0);
        }
        obs.class("henry (m = 1 segments)");
    }
    if nontrivial {
        obs.nontrivial();
    }
}

pub fn check_response(case: &Case, obs: &mut Obs) {
    let g = &case.grid;
    obs.class(g.class());
    obs.class(case.spec.label());
    obs.class(format!("n={}", case.spec.n()));
    if case.spec.has_association() {
        obs.class("assoc");
    }
    if g.kind == GridKind::Periodical2 || g.kind == GridKind::Periodical3 {
        obs.class(if g.angles.iter().any(|a| (a - 90.0).abs() > 5.0) { "oblique cell" } else { "nearly rectangular cell" });
    }
    let Some(bulk) = build_bulk_with(&case.spec, &case.state, obs, None) else { return };
    if !(bulk.assoc_cond < ASSOC_COND_MAX) {
        obs.class("association beyond f64 conditioning: skipped");
        return;
    }
    let grid = g.build();
    let shape = grid_shape(&grid);
    match g.kind.dim() {
        1 => {
            let rho = bulk_density::<Ix2>(&bulk, &shape);
            response_clause(case, &bulk, obs, DFTProfile::<Ix1, Model>::new(grid, &bulk.state, None, Some(&rho), case.lanczos));
        }
        2 => {
            let rho = bulk_density::<Ix3>(&bulk, &shape);
            response_clause(case, &bulk, obs, DFTProfile::<Ix2, Model>::new(grid, &bulk.state, None, Some(&rho), case.lanczos));
        }
        _ => {
            let rho = bulk_density::<ndarray::Ix4>(&bulk, &shape);
            response_clause(case, &bulk, obs, DFTProfile::<Ix3, Model>::new(grid, &bulk.state, None, Some(&rho), case.lanczos));
        }
    }
}

/// generator of the response part: as `decode`, smaller grids (every case runs n + 2 GMRES solves)
pub fn decode_response(g: &mut Gen) -> Case {
    let grid = gen_grid(g, &KINDS, 1024, 48, 16);
    let max_comp = if grid.kind.dim() == 1 { 3 } else { 2 };
    let mut spec = gen_model(
        g,
        &GenCfg {
            families: FUNCTIONALS.to_vec(),
            min_comp: 1,
            max_comp,
        },
    );
    acyclic_gc(&mut spec);
    let mut grid = grid;
    limit_work(&mut grid, &spec);
    let state = gen_state(g, spec.n());
    let lanczos = [None, Some(1), Some(2)][g.index(3)];
    Case {
        grid,
        spec,
        state,
        lanczos,
        wrapped: false,
    }
}

pub fn response_worst() -> Value {
    serde_json::to_value(&*WORST.lock().unwrap()).unwrap()
}

fn part() -> PartCfg {
    let env = |k: &str, d: u32| std::env::var(k).ok().and_then(|s| s.parse().ok()).unwrap_or(d);
    PartCfg {
        name: "sampled",
        genome_len: 110,
        cases_quick: env("C16_CASES", 1500),
        cases_thorough: env("C16_CASES_THOROUGH", 150_000),
        panic: PanicPolicy::Violation,
    }
}

pub fn run(ctx: &Ctx) {
    ctx.set_rule("sampled: proptest genomes -> grid (8 kinds: Cartesian1/2/3, Periodical2 (angle 30-150 deg), Periodical3 (angles 45-135 deg, Gram determinant > 0.1), Spherical, Polar, Cylindrical; points per axis log-uniform 16-4096 (1-D), 8-128 (2-D), 8-32 (3-D); lengths log-uniform 10-300 A; Cartesian1 optionally with a potential offset) x functional (PcSaftFunctional, FMTFunctional, GcPcSaftFunctional, PetsFunctional, SaftVRQMieFunctional through feos::ResidualModel; 3 FMT versions; 1-3 components (1-2 in 2-D/3-D); shipped/perturbed/random records) x bulk state (tau 0.4-3, eta fraction 2e-6-0.9, open-simplex composition) x Lanczos {None,1,2} x wrapped (profile additionally built by Pore1D/Pore2D/Pore3D/SolvationProfile constructors and PairCorrelation fields with zero external potential). Density = bulk partial densities everywhere. Non-trivial: the residual pressure |p - rho T| exceeds 1e3 x the tolerance of the grand-potential comparison (the functional contributes visibly). Distinct by hash of the canonical case JSON.");
    ctx.assume("reference: feos-core State of the same functional (bulk route: weight constants at k=0, dual numbers) for p and the bulk weighted densities; independent geometric volume formulas (L, 4/3 pi L^3, pi L^2, pi R^2 L, L1 L2 sin(alpha), L1 L2 L3 sqrt(Gram)) for the integral of one");
    ctx.assume("tolerances: geometry/moles 1e-11 relative; weighted densities 1e-10 (1 + k_max R_max) of the bulk value (vector rows: of sum_s |prefactor| 4 pi R^2 rho_s); Euler-Lagrange residual 3e-8 (1 + k_max R_max) (worst of 300 000 thorough cases: 5.9e-10, quadrupolar PC-SAFT mixture at 0.55 T*) relative to the segment density (associating models: tol_cross_assoc (1 + k_max R_max)); k_max = pi n / L of the finest axis, R_max the largest kernel radius (roundoff amplification by weight functions growing with k); grand potential density, Omega + p V, interfacial tension, solvation free energies 3e-9 (worst of 300 000 thorough cases after the ideal-chain term: 5.0e-11; associating models: 10 x tol_cross_assoc, the site fractions are iterated independently in the bulk and on the grid) of the sum of |terms| of omega (T (|f| + sum (|dF/drho| + m + 1) rho)) plus 2 T EPSILON sum (m_i - 1) for the documented ln(|rho| + EPSILON) regularisation of the bulk ideal-chain term");
    ctx.assume("association: comparisons that involve the association term carry the conditioning factor 1 + 1e-5 exp(eps_AB,max/T) (the site fractions fall like exp(-eps_AB/T) and their derivatives lose eps_machine/X digits; measured spread of the partial derivatives over a uniform grid 4e-15 / 7e-13 / 4e-11 / 1.5e-7 / 2.7e-3 at eps_AB/T = 12 / 18 / 22 / 30 / 40); beyond a factor 1e6 (eps_AB/T > 25.3) the Euler-Lagrange, grand-potential and solve clauses are not asserted; a clean Err(NotConverged(Cross association)) on the grid is a discard; a panic of the bulk route is the finding C16/functional-bulk-panics-cross-association");
    ctx.assume("Axis::volume documents that a potential offset is excluded: for Cartesian1 axes with an offset volume() is compared with the length passed to the constructor and excess quantities with -p (resp. rho) x offset region");
    ctx.assume("typed functionals are exercised through feos::ResidualModel (enum dispatch to the same code), so that one instantiation per dimension covers all families");
    ctx.run_sampled(&part(), &decode, &check);
    let w = WORST.lock().unwrap();
    ctx.extra("measured_worst", serde_json::to_value(&*w).unwrap());
}

pub fn replay(ctx: &Ctx, _part: &str, case: &Value) -> bool {
    ctx.replay_case::<Case>(case, &check)
}
