//! C18 — a solved density profile is a stationary point and meets its specification.
//!
//! Parts:
//! * `lattice`  — seed-independent problems (propane, butane, argon-like PeTS; T/Tc in
//!   {0.6,0.7,0.8,0.9}; planar interface, LJ93 slit and spherical pore) on which success of the
//!   default solver is *demanded*; the particle-number specifications are demanded to succeed
//!   from the converged `ChemicalPotential` profile (current and perturbed amount).
//! * `sampled`  — generated problems (planar interfaces and slit / cylindrical / spherical
//!   pores) x 2-3 generated solver chains x optional particle-number specification; success is
//!   not demanded, every reported success is checked.
use crate::engine::{Ctx, Gen, Obs, PanicPolicy, PartCfg};
use crate::model::*;
use feos::core::{Components, Contributions, DensityInitialization, PhaseEquilibrium, ReferenceSystem, State};
use feos_dft::adsorption::{ExternalPotential, Pore1D, PoreProfile1D, PoreSpecification};
use feos_dft::interface::PlanarInterface;
use feos_dft::{DFTProfile, DFTSolver, DFTSpecifications, Geometry, HelmholtzEnergyFunctional};
use ndarray::{Array1, Array2, Axis as AxisNd, Ix1};
use quantity::*;
use serde::{Deserialize, Serialize};
use serde_json::{json, Value};
use std::collections::{BTreeMap, HashMap};
use std::sync::{Arc, LazyLock, Mutex};

pub type Profile = DFTProfile<Ix1, Model>;

/// defect candidate F3: particle-number specifications cannot converge
pub const F3: &str = "C18/particle-number-specification";
/// defect candidate: Anderson mixing moves the bulk densities although the chemical potential is specified
pub const DRIFT: &str = "C18/anderson-bulk-drift";

/// AntiSymWhiteBear FMT: xi = n2v.n2v / n2^2 is 0/0 = NaN where the weighted density n2 is
/// exactly 0 (FFT noise inside walls), src/hard_sphere/dft.rs:249-255
pub const ANTISYM: &str = "C18/antisym-fmt-nan";

/// signature of `ANTISYM`: the functional uses the anti-symmetrised White Bear FMT in its
/// mixture / heterosegmented form and the profile has points at the potential cut-off
pub fn antisym(p: &Profile) -> bool {
    p.dft.contributions().any(|c| c.to_string().contains("AntiSymWB"))
        && p.external_potential.iter().any(|v| *v + 1e-9 >= MAX_POTENTIAL)
}

/// cylindrical pores, heterosegmented chains: the bond integrals computed with the polar
/// (Hankel-type) convolver ring around zero near the axis, so rho_projected and the converged
/// density are negative there
pub const POLAR: &str = "C18/polar-negative-density";

/// reachable only once F3 is repaired: `Moles` with a heterosegmented functional
pub const HETERO: &str = "C18/moles-heterosegmented";

/// `MAX_POTENTIAL` of feos-dft/src/profile/mod.rs:18 (residual zeroed, density frozen there)
pub const MAX_POTENTIAL: f64 = 50.0;

// ---------------------------------------------------------------------------------------
// Measured worst values (reported in the evidence; never consulted by the oracle)
// ---------------------------------------------------------------------------------------
pub static WORST: LazyLock<Mutex<BTreeMap<String, f64>>> = LazyLock::new(|| Mutex::new(BTreeMap::new()));

pub fn worst(key: &str, v: f64) {
    if v.is_finite() {
        let mut w = WORST.lock().unwrap();
        let e = w.entry(key.to_string()).or_insert(0.0);
        if v > *e {
            *e = v;
        }
    }
}

pub fn worst_json() -> Value {
    json!(*WORST.lock().unwrap())
}

pub fn debug() -> bool {
    static D: LazyLock<bool> = LazyLock::new(|| std::env::var("C18_DEBUG").is_ok());
    *D
}

/// |u - v| relative to max(|u|,|v|)
pub fn rel(u: f64, v: f64) -> f64 {
    let s = u.abs().max(v.abs());
    if s == 0.0 {
        0.0
    } else {
        (u - v).abs() / s
    }
}

// ---------------------------------------------------------------------------------------
// Critical temperature of the functional itself (model::pure_tc floors the value with a
// PC-SAFT-like estimate that lies above the true T_c of PeTS)
// ---------------------------------------------------------------------------------------
static TC: LazyLock<Mutex<HashMap<String, Option<f64>>>> = LazyLock::new(|| Mutex::new(HashMap::new()));

pub fn dft_tc(spec: &ModelSpec, model: &Arc<Model>, i: usize) -> Result<f64, String> {
    let key = format!("{:?}|{}|{:?}|{:?}", spec.family, spec.pure[i], spec.seg, spec.opts);
    if let Some(t) = TC.lock().unwrap().get(&key) {
        return t.ok_or_else(|| "no critical point".to_string());
    }
    let sub = if spec.n() == 1 { model.clone() } else { Arc::new(model.subset(&[i])) };
    let r = std::panic::catch_unwind(std::panic::AssertUnwindSafe(|| {
        State::critical_point(&sub, None, None, Default::default())
    }));
    let tc = match r {
        Ok(Ok(cp)) => {
            let t = cp.temperature.to_reduced();
            let rho = cp.density.to_reduced();
            if t.is_finite() && t > 1.0 && rho.is_finite() && rho > 0.0 {
                Some(t)
            } else {
                None
            }
        }
        _ => None,
    };
    TC.lock().unwrap().insert(key, tc);
    tc.ok_or_else(|| "no critical point".to_string())
}

pub fn dft_t_scale(spec: &ModelSpec, model: &Arc<Model>, x: &[f64]) -> Result<f64, String> {
    let mut t = 0.0;
    for i in 0..spec.n() {
        t += x[i] * dft_tc(spec, model, i)?;
    }
    Ok(t)
}

/// gc substances with rings cannot be used in DFT (`bond_integrals` panics with "Cycle in
/// molecular structure detected!" by design) and long chains are expensive: map them to
/// acyclic records with at most `max_seg` segments of the same pool.
pub fn restrict_gc(spec: &mut ModelSpec, max_seg: usize) {
    if spec.family != Family::GcPcSaftFunctional {
        return;
    }
    let nseg = |r: &Value| r["segments"].as_array().map(|a| a.len()).unwrap_or(0);
    let bad = |r: &Value| {
        let ns = nseg(r);
        ns > max_seg || r["bonds"].as_array().map(|b| b.len() >= ns).unwrap_or(false)
    };
    let pool: Vec<&Value> = POOLS.gc_substances.iter().filter(|r| !bad(r)).collect();
    for (k, r) in spec.pure.iter_mut().enumerate() {
        if bad(r) {
            let ns = nseg(r);
            *r = pool[(7 * ns + k) % pool.len()].clone();
        }
    }
}

pub const DFT_FAMILIES: [Family; 4] = [
    Family::PcSaftFunctional,
    Family::PetsFunctional,
    Family::GcPcSaftFunctional,
    Family::SaftVRQMieFunctional,
];

pub fn gen_dft_model(g: &mut Gen, families: &[Family], max_comp: usize) -> ModelSpec {
    let fam = g.pick(families);
    let mut spec = gen_model(g, &GenCfg { families: vec![fam], min_comp: 1, max_comp });
    restrict_gc(&mut spec, 6);
    spec
}

// ---------------------------------------------------------------------------------------
// Solver chains
// ---------------------------------------------------------------------------------------
#[derive(Serialize, Deserialize, Clone, Debug, PartialEq)]
pub enum StageSpec {
    Picard { log: bool, damping: Option<f64>, max_iter: usize, tol: f64 },
    Anderson { log: bool, damping: f64, mmax: usize, max_iter: usize, tol: f64 },
    Newton { log: bool, max_iter: usize, gmres: usize, tol: f64 },
}

impl StageSpec {
    pub fn tol(&self) -> f64 {
        match self {
            Self::Picard { tol, .. } | Self::Anderson { tol, .. } | Self::Newton { tol, .. } => *tol,
        }
    }
    pub fn label(&self) -> String {
        match self {
            Self::Picard { log, damping, .. } => format!(
                "picard{}{}",
                if *log { "-log" } else { "" },
                if damping.is_some() { "-damped" } else { "-linesearch" }
            ),
            Self::Anderson { log, .. } => format!("anderson{}", if *log { "-log" } else { "" }),
            Self::Newton { log, .. } => format!("newton{}", if *log { "-log" } else { "" }),
        }
    }
}

/// An empty chain is the library's default solver (`solve(None)`:
/// Anderson(log, 50 it, 1e-5) > Anderson(150 it, 1e-11), feos-dft/src/solver.rs:24-37,84-94).
#[derive(Serialize, Deserialize, Clone, Debug, PartialEq)]
pub struct ChainSpec {
    pub stages: Vec<StageSpec>,
}

impl ChainSpec {
    pub fn default_solver() -> Self {
        Self { stages: vec![] }
    }
    pub fn build(&self) -> Option<DFTSolver> {
        if self.stages.is_empty() {
            return None;
        }
        let mut s = DFTSolver::new(None);
        for st in &self.stages {
            s = match *st {
                StageSpec::Picard { log, damping, max_iter, tol } => {
                    s.picard_iteration(Some(log), Some(max_iter), Some(tol), damping)
                }
                StageSpec::Anderson { log, damping, mmax, max_iter, tol } => {
                    s.anderson_mixing(Some(log), Some(max_iter), Some(tol), Some(damping), Some(mmax))
                }
                StageSpec::Newton { log, max_iter, gmres, tol } => {
                    s.newton(Some(log), Some(max_iter), Some(gmres), Some(tol))
                }
            };
        }
        Some(s)
    }
    pub fn tol_last(&self) -> f64 {
        self.stages.last().map(|s| s.tol()).unwrap_or(1e-11)
    }
    pub fn has_anderson(&self) -> bool {
        self.stages.is_empty() || self.stages.iter().any(|s| matches!(s, StageSpec::Anderson { .. }))
    }
    pub fn label(&self) -> String {
        if self.stages.is_empty() {
            "default".into()
        } else {
            self.stages.iter().map(|s| s.label()).collect::<Vec<_>>().join(">")
        }
    }
    pub fn last_label(&self) -> String {
        self.stages.last().map(|s| s.label()).unwrap_or_else(|| "anderson".into())
    }
}

fn gen_stage(g: &mut Gen, last: bool) -> StageSpec {
    let kind = g.index(3);
    let tol = if last { g.log_range(1e-11, 1e-8) } else { g.log_range(1e-8, 1e-5) };
    let log = g.bool(0.5);
    // a short last stage: ends in NotConverged unless the stage before already got below `tol`
    let short = last && g.bool(0.15);
    match kind {
        0 => StageSpec::Anderson {
            log,
            damping: g.range(0.05, 0.3),
            mmax: g.int(5, 100) as usize,
            max_iter: if short { g.int(1, 4) as usize } else { g.pick(&[150usize, 300, 60]) },
            tol,
        },
        1 => StageSpec::Picard {
            log,
            damping: if g.bool(0.5) { Some(g.log_range(0.01, 0.3)) } else { None },
            max_iter: if short { g.int(1, 4) as usize } else { g.pick(&[200usize, 300, 100]) },
            tol,
        },
        _ => StageSpec::Newton {
            log,
            max_iter: if short { g.int(1, 3) as usize } else { g.pick(&[30usize, 15]) },
            gmres: g.int(50, 300) as usize,
            tol,
        },
    }
}

pub fn gen_chain(g: &mut Gen) -> ChainSpec {
    let n = 1 + g.index(3);
    ChainSpec {
        stages: (0..n).map(|k| gen_stage(g, k + 1 == n)).collect(),
    }
}

// ---------------------------------------------------------------------------------------
// Problems
// ---------------------------------------------------------------------------------------
#[derive(Serialize, Deserialize, Clone, Debug, PartialEq)]
pub enum InitSpec {
    /// `from_tanh` with the critical temperature scaled by `tc_factor` (changes the width of the guess)
    Tanh { tc_factor: f64 },
    /// `from_pdgt`
    Pdgt,
    /// converged profile (default solver) at T*(1+dtau), rescaled with `set_density(.., true)`
    Previous { dtau: f64 },
}

#[derive(Serialize, Deserialize, Clone, Debug, PartialEq)]
pub enum WallSpec {
    LJ93 { sigma_ss: f64, epsilon_k_ss: f64, rho_s: f64 },
    SimpleLJ93 { sigma_ss: f64, epsilon_k_ss: f64 },
    Steele { sigma_ss: f64, epsilon_k_ss: f64, rho_s: f64, xi: Option<f64> },
    HardWall { sigma_ss: f64 },
}

impl WallSpec {
    pub fn build(&self) -> ExternalPotential {
        match *self {
            Self::LJ93 { sigma_ss, epsilon_k_ss, rho_s } => ExternalPotential::LJ93 { sigma_ss, epsilon_k_ss, rho_s },
            Self::SimpleLJ93 { sigma_ss, epsilon_k_ss } => ExternalPotential::SimpleLJ93 { sigma_ss, epsilon_k_ss },
            Self::Steele { sigma_ss, epsilon_k_ss, rho_s, xi } => ExternalPotential::Steele { sigma_ss, epsilon_k_ss, rho_s, xi },
            Self::HardWall { sigma_ss } => ExternalPotential::HardWall { sigma_ss },
        }
    }
    pub fn label(&self) -> &'static str {
        match self {
            Self::LJ93 { .. } => "LJ93",
            Self::SimpleLJ93 { .. } => "SimpleLJ93",
            Self::Steele { .. } => "Steele",
            Self::HardWall { .. } => "HardWall",
        }
    }
}

#[derive(Serialize, Deserialize, Clone, Copy, Debug, PartialEq)]
pub enum GeomSpec {
    Slit,
    Cylinder,
    Sphere,
}

impl GeomSpec {
    pub fn build(&self) -> Geometry {
        match self {
            Self::Slit => Geometry::Cartesian,
            Self::Cylinder => Geometry::Cylindrical,
            Self::Sphere => Geometry::Spherical,
        }
    }
}

#[derive(Serialize, Deserialize, Clone, Debug, PartialEq)]
pub struct PoreSpec {
    pub geom: GeomSpec,
    /// slit: wall-to-wall distance; cylinder / sphere: radius (Angstrom)
    pub size: f64,
    pub wall: WallSpec,
    pub n_grid: usize,
}

impl PoreSpec {
    pub fn build(&self) -> Pore1D {
        Pore1D::new(self.geom.build(), self.size * ANGSTROM, self.wall.build(), Some(self.n_grid), None)
    }
    pub fn label(&self) -> String {
        format!("{:?}/{}", self.geom, self.wall.label())
    }
}

/// Wall generator. `SimpleLJ93` exists for the cartesian geometry only
/// (`unimplemented!()` in adsorption/external_potential.rs:271-282, 443-454).
pub fn gen_pore(g: &mut Gen, n_grids: &[usize]) -> PoreSpec {
    let geom = g.pick(&[GeomSpec::Slit, GeomSpec::Cylinder, GeomSpec::Sphere]);
    let nw = if geom == GeomSpec::Slit { 4 } else { 3 };
    let sigma_ss = g.range(2.5, 4.0);
    let wall = match g.index(nw) {
        0 => WallSpec::LJ93 { sigma_ss, epsilon_k_ss: g.range(5.0, 120.0), rho_s: g.range(0.03, 0.12) },
        1 => WallSpec::Steele {
            sigma_ss,
            epsilon_k_ss: g.range(10.0, 60.0),
            rho_s: g.range(0.05, 0.12),
            xi: if g.bool(0.3) { Some(g.range(0.5, 1.2)) } else { None },
        },
        2 => WallSpec::HardWall { sigma_ss },
        _ => WallSpec::SimpleLJ93 { sigma_ss, epsilon_k_ss: g.range(50.0, 2000.0) },
    };
    let size = match geom {
        GeomSpec::Slit => g.range(12.0, 60.0),
        _ => g.range(8.0, 35.0),
    };
    PoreSpec { geom, size, wall, n_grid: g.pick(n_grids) }
}

#[derive(Serialize, Deserialize, Clone, Debug, PartialEq)]
pub enum Problem {
    Planar {
        tau: f64,
        n_grid: usize,
        /// box length (Angstrom)
        length: f64,
        init: InitSpec,
    },
    Pore {
        tau: f64,
        /// bulk pressure / lowest pure-component saturation pressure
        p_rel: f64,
        x: Vec<f64>,
        pore: PoreSpec,
        /// initial density: None = library default (ideal gas in the external potential);
        /// Some(f) = converged profile (default solver) at p_rel*f
        prev: Option<f64>,
    },
}

/// particle-number specification
#[derive(Serialize, Deserialize, Clone, Debug, PartialEq)]
pub enum PnSpec {
    /// `Moles { moles: factor * moles_from_profile }` applied to the converged profile
    Moles { factor: f64 },
    /// `TotalMoles { total_moles: factor * total_moles_from_profile }` applied to the converged profile
    TotalMoles { factor: f64 },
    /// planar only: the `fix_equimolar_surface = true` route (`total_moles_from_profile` of the
    /// initial profile), solved from the initial profile
    Equimolar,
}

#[derive(Serialize, Deserialize, Clone, Debug)]
pub struct Case {
    pub spec: ModelSpec,
    pub problem: Problem,
    pub chains: Vec<ChainSpec>,
    /// particle-number clause: specification and the chain used for it
    pub pn: Option<(PnSpec, ChainSpec)>,
    /// lattice cases demand success of every chain and of the particle-number solve
    pub demand: bool,
}

const N_GRIDS: [usize; 8] = [512, 512, 256, 256, 1024, 1024, 512, 2048];

pub fn decode(g: &mut Gen) -> Case {
    let pore = g.bool(0.5);
    let spec = gen_dft_model(g, &DFT_FAMILIES, if pore { 2 } else { 1 });
    let hetero = spec.family == Family::GcPcSaftFunctional;
    let tau = g.range(0.5, 0.95);
    let problem = if pore {
        Problem::Pore {
            tau,
            p_rel: g.range(0.05, 0.8),
            x: g.simplex(spec.n(), 0.05),
            pore: gen_pore(g, &N_GRIDS),
            prev: if g.bool(0.25) { Some(g.range(0.7, 1.3)) } else { None },
        }
    } else {
        let init = match g.index(if hetero { 4 } else { 5 }) {
            0 | 1 => InitSpec::Tanh { tc_factor: 1.0 },
            2 => InitSpec::Tanh { tc_factor: g.range(0.8, 1.4) },
            3 => InitSpec::Previous { dtau: g.pick(&[-0.03, 0.03, -0.06]) },
            _ => InitSpec::Pdgt,
        };
        Problem::Planar { tau, n_grid: g.pick(&N_GRIDS), length: g.range(60.0, 200.0), init }
    };
    let n_chains = 2 + g.index(2);
    let mut chains = vec![];
    for k in 0..n_chains {
        if k == 0 && !g.bool(0.5) {
            chains.push(ChainSpec::default_solver());
        } else {
            chains.push(gen_chain(g));
        }
    }
    let pn = if g.bool(0.5) {
        let f = g.pick(&[1.0, 1.002, 0.995, 1.02]);
        let kind = match g.index(if pore { 2 } else { 3 }) {
            0 => PnSpec::TotalMoles { factor: f },
            1 => PnSpec::Moles { factor: f },
            _ => PnSpec::Equimolar,
        };
        let chain = if g.bool(0.5) { gen_chain(g) } else { ChainSpec::default_solver() };
        Some((kind, chain))
    } else {
        None
    };
    Case { spec, problem, chains, pn, demand: false }
}

// ---------------------------------------------------------------------------------------
// Building problems
// ---------------------------------------------------------------------------------------
pub fn pure_vle(model: &Arc<Model>, t: f64) -> Result<PhaseEquilibrium<Model, 2>, String> {
    let vle = PhaseEquilibrium::pure(model, t * KELVIN, None, Default::default()).map_err(|e| e.to_string())?;
    let (rv, rl) = (vle.vapor().density.to_reduced(), vle.liquid().density.to_reduced());
    if !(rv.is_finite() && rl.is_finite() && rv > 0.0 && rl > 1.02 * rv) {
        return Err(format!("degenerate VLE rho_v={rv:e} rho_l={rl:e}"));
    }
    Ok(vle)
}

pub fn planar_init(
    model: &Arc<Model>,
    tc: f64,
    tau: f64,
    n_grid: usize,
    length: f64,
    init: &InitSpec,
) -> Result<PlanarInterface<Model>, String> {
    let vle = pure_vle(model, tau * tc)?;
    let l = length * ANGSTROM;
    Ok(match init {
        InitSpec::Tanh { tc_factor } => PlanarInterface::from_tanh(&vle, n_grid, l, tc * tc_factor * KELVIN, false),
        InitSpec::Pdgt => {
            // `from_pdgt` chooses its own box length (max(100, 6 w_pdgt))
            PlanarInterface::from_pdgt(&vle, n_grid, false).map_err(|e| format!("from_pdgt: {e}"))?
        }
        InitSpec::Previous { dtau } => {
            let vle0 = pure_vle(model, (tau + dtau) * tc)?;
            let prev = PlanarInterface::from_tanh(&vle0, n_grid, l, tc * KELVIN, false)
                .solve(None)
                .map_err(|e| format!("previous solution: {e}"))?;
            PlanarInterface::from_tanh(&vle, n_grid, l, tc * KELVIN, false).set_density(&prev.profile.density, true)
        }
    })
}

/// Bulk vapour of a pore problem: T = tau * sum x_i T_c,i, p = p_rel * min_i p_sat,i(T) over the
/// sub-critical components.
pub fn pore_bulk(spec: &ModelSpec, model: &Arc<Model>, tau: f64, p_rel: f64, x: &[f64]) -> Result<State<Model>, String> {
    let t = tau * dft_t_scale(spec, model, x)?;
    let psat: Vec<f64> = PhaseEquilibrium::vapor_pressure(model, t * KELVIN)
        .into_iter()
        .flatten()
        .map(|p| p.to_reduced())
        .filter(|p| p.is_finite() && *p > 0.0)
        .collect();
    let pmin = psat.iter().cloned().fold(f64::INFINITY, f64::min);
    if !pmin.is_finite() {
        return Err("no sub-critical component".into());
    }
    let moles = Moles::from_reduced(Array1::from_vec(x.to_vec()));
    let bulk = State::new_npt(
        model,
        t * KELVIN,
        Pressure::from_reduced(p_rel * pmin),
        &moles,
        DensityInitialization::Vapor,
    )
    .map_err(|e| format!("bulk: {e}"))?;
    if spec.n() > 1 && !bulk.is_stable(Default::default()).map_err(|e| format!("stability: {e}"))? {
        return Err("bulk vapour unstable".into());
    }
    Ok(bulk)
}

pub fn pore_init(
    bulk: &State<Model>,
    pore: &PoreSpec,
    density: Option<&Density<Array2<f64>>>,
) -> Result<PoreProfile1D<Model>, String> {
    pore.build().initialize(bulk, density, None).map_err(|e| format!("initialize: {e}"))
}

// ---------------------------------------------------------------------------------------
// Oracle on one returned profile
// ---------------------------------------------------------------------------------------
/// The Euler-Lagrange residual recomputed by the harness from the residual *field* returned by
/// `residual(false)`: rms over all grid values and bulk equations (independent of the norm
/// used inside the solver).
pub fn own_norm(res: &Array2<f64>, res_bulk: &Array1<f64>) -> f64 {
    let s: f64 = res.iter().map(|x| x * x).sum::<f64>() + res_bulk.iter().map(|x| x * x).sum::<f64>();
    (s / (res.len() + res_bulk.len()) as f64).sqrt()
}

/// residual, positivity, solver log. `what` prefixes messages. Returns false if residual() failed.
pub fn check_returned(obs: &mut Obs, what: &str, p: &Profile, tol_last: f64) -> bool {
    check_returned_known(obs, what, p, tol_last, None)
}

/// as `check_returned`; a residual above the tolerance is routed to the known finding `known`
pub fn check_returned_known(obs: &mut Obs, what: &str, p: &Profile, tol_last: f64, known: Option<&str>) -> bool {
    let (res, res_bulk, lib) = match p.residual(false) {
        Ok(r) => r,
        Err(e) => {
            let msg = format!("{what}: solve returned Ok but residual() of the returned profile fails: {e}");
            if antisym(p) {
                obs.known_or_fail(ANTISYM, msg);
            } else {
                obs.fail(msg);
            }
            return false;
        }
    };
    let own = own_norm(&res, &res_bulk);
    worst("rms residual / tol_last", own / tol_last);
    if debug() && own > 1.001 * tol_last {
        let l = p.solver_log.as_ref().map(|l| (l.residual().len(), l.residual().last().copied(), l.solver().last().copied()));
        eprintln!("DBG residual ratio {:.4} {what} tol={tol_last:e} own={own:e} lib={lib:e} log={l:?} res_bulk={res_bulk:?}", own / tol_last);
    }
    worst("residual(false).2 / tol_last", lib / tol_last);
    obs.count();
    if !(own <= 10.0 * tol_last && lib <= 10.0 * tol_last) {
        let msg = format!(
            "{what}: Euler-Lagrange residual of the returned profile (rms of the field {own:e}, residual(false).2 = {lib:e}) exceeds 10 x tol {tol_last:e}"
        );
        match known {
            Some(id) => obs.known_or_fail(id, msg),
            None => obs.fail(msg),
        }
    }
    if let Some(log) = &p.solver_log {
        let r = log.residual();
        // the last entry is the residual that passed the convergence test (GMRES entries are
        // always followed by the next outer residual)
        if let (Some(&last), Some(&name)) = (r.last(), log.solver().last()) {
            obs.ensure(name != "GMRES" && last < tol_last, || {
                format!("{what}: solver_log ends with {name} residual {last:e}, tolerance {tol_last:e}")
            });
        } else {
            obs.fail(format!("{what}: empty solver_log after Ok"));
        }
    } else {
        obs.fail(format!("{what}: no solver_log after Ok"));
    }
    let rho = p.density.to_reduced();
    let rho_max = rho.iter().cloned().fold(0.0, f64::max);
    let mut bad = None;
    for (r, v) in rho.iter().zip(p.external_potential.iter()) {
        // * at the cut-off the library zeroes the residual and never updates the value (initial
        //   guess: exp(-50) x bond integral, an FFT result of either sign at 1e-35);
        // * bond integrals are FFT convolutions: where the exact value is below 1e-16 x its maximum
        //   (segments without own wall potential deep inside a wall) the sign is noise; values
        //   within 1e-20 x max(rho) of zero are treated as zero.
        let frozen = *v + 1e-9 >= MAX_POTENTIAL;
        let ok = r.is_finite() && (*r > 0.0 || frozen || r.abs() <= 1e-20 * rho_max);
        if !ok && bad.is_none() {
            bad = Some((*r, *v));
        }
    }
    obs.count();
    if let Some((r, v)) = bad {
        let msg = format!(
            "{what}: density {r:e} at a point with external potential {v} (not finite / not positive; max density {rho_max:e})"
        );
        // signature of POLAR: cylindrical geometry, bond integrals (heterosegmented chains), finite
        // negative value below 5 % of the maximum density
        let polar = matches!(p.grid, feos_dft::Grid::Polar(_))
            && p.density.shape()[0] != p.dft.components()
            && r.is_finite()
            && r.abs() <= 5e-2 * rho_max;
        if polar {
            obs.known_or_fail(POLAR, msg);
        } else {
            obs.fail(msg);
        }
    }
    true
}

/// default specification: bulk state unchanged by `solve`. Returns the largest relative drift.
fn check_bulk_unchanged(obs: &mut Obs, what: &str, chain: &ChainSpec, before: &State<Model>, p: &Profile) -> f64 {
    let a = before.partial_density.to_reduced();
    let b = p.bulk.partial_density.to_reduced();
    let t0 = before.temperature.to_reduced();
    let mut drift: f64 = 0.0;
    for i in 0..a.len() {
        drift = drift.max(rel(a[i], b[i]));
    }
    // Picard and Newton leave rho_bulk alone when its residual is zero (x += 0, x *= exp(0), |x|);
    // the rebuilt State (moles = rho * 1 A^3, rho = moles / 1 A^3) costs a few ulp.
    if chain.has_anderson() {
        worst("bulk density drift (chains with Anderson mixing)", drift);
    } else {
        worst("bulk density drift (Picard / Newton chains)", drift);
    }
    if drift > BULK_DRIFT {
        let msg = format!(
            "{what}: default specification but the bulk partial densities changed by {drift:e} (relative): {a} -> {b}"
        );
        if chain.has_anderson() {
            // signature: Anderson mixing recombines (rho, rho_bulk) of earlier iterates with
            // coefficients that sum to 1 only up to roundoff x cond; nothing restores rho_bulk
            obs.known_or_fail(DRIFT, msg);
        } else {
            obs.fail(msg);
        }
    } else {
        obs.count();
    }
    obs.close(&format!("{what}: bulk temperature unchanged"), t0, p.bulk.temperature.to_reduced(), 1e-14, 0.0);
    obs.close(&format!("{what}: profile temperature unchanged"), t0, p.temperature.to_reduced(), 1e-14, 0.0);
    drift
}

/// 90-10 width and mid-point position of a planar profile (total density)
pub fn interface_geometry(p: &Profile) -> Option<(f64, f64)> {
    let rho = p.density.to_reduced().sum_axis(AxisNd(0));
    let z = p.grid.grids()[0];
    let n = rho.len();
    let (a, b) = (rho[0], rho[n - 1]);
    if !((a - b).abs() > 1e-12) {
        return None;
    }
    let cross = |f: f64| -> Option<f64> {
        let target = b + f * (a - b);
        for k in 1..n {
            let (u, v) = (rho[k - 1] - target, rho[k] - target);
            if u == 0.0 {
                return Some(z[k - 1]);
            }
            if u * v < 0.0 {
                return Some(z[k - 1] + (z[k] - z[k - 1]) * u / (u - v));
            }
        }
        None
    };
    let (z9, z5, z1) = (cross(0.9)?, cross(0.5)?, cross(0.1)?);
    Some(((z1 - z9).abs(), z5))
}

/// (distance of the interface from the nearer wall) / (90-10 width)
pub fn wall_ratio(p: &Profile) -> f64 {
    match interface_geometry(p) {
        Some((w, z5)) if w > 0.0 => {
            let l = p.grid.axes()[0].edges[p.density.shape()[1]];
            z5.min(l - z5) / w
        }
        _ => 0.0,
    }
}

/// per-segment amounts (the unit of `DFTSpecifications::Moles`)
pub fn segment_moles(p: &Profile) -> Array1<f64> {
    p.integrate_comp(&p.density).to_reduced()
}

/// rms of the density profile (scale of the residual)
pub fn rho_rms(p: &Profile) -> f64 {
    let r = p.density.to_reduced();
    (r.iter().map(|x| x * x).sum::<f64>() / r.len() as f64).sqrt()
}

struct Outcome {
    chain: ChainSpec,
    /// observables of a converged solve: (name, value, scale, is an energy)
    obs: Vec<(String, f64, f64, bool)>,
    rho_rms: f64,
    /// sum over segments of m_i x integral of |rho_projected - rho| (m_i >= 1)
    int_res: f64,
    profile: Profile,
    wall_ratio: f64,
    drift: f64,
}

/// Tolerances of the cross-chain comparison (absolute, for a pair of converged results a, b;
/// I = int|res_a| + int|res_b| with res = rho_projected - rho of the returned profiles):
///
/// * energies (grand potential, surface / interfacial tension): `grand_potential_density`
///   eliminates ln(rho) with the Euler-Lagrange equation, so the reported value differs from the
///   functional of the returned density by T int rho ln(rho/rho_projected) ~ -T int res: a
///   first-order term bounded by T*I with I weighted by the chain lengths m_i (measured
///   <= 0.93 T*I over 1600 generated cases; CMP_K1 = 50 allowed). The functional
///   itself is stationary: second-order term (kappa tol/rho)^2 with kappa <= 10 measured, 100
///   allowed. Plus 1e-6 relative (DESIGN).
/// * adsorbed amounts: first order, |dN| <= kappa*I with kappa the norm of the inverse linearised
///   Euler-Lagrange operator (>= 1, large near capillary condensation / spinodals); CMP_K allowed.
fn cmp_atol(a: &Outcome, b: &Outcome, t: f64, scale: f64, energy: bool) -> f64 {
    let i = a.int_res + b.int_res;
    let t_over_rho = a.chain.tol_last().max(b.chain.tol_last()) / a.rho_rms.min(b.rho_rms);
    if energy {
        CMP_K1 * t * i + ((CMP_K2 * t_over_rho).powi(2) + 1e-6) * scale
    } else {
        CMP_K * i + 1e-6 * scale
    }
}

fn apply_pn(p: &mut Profile, pn: &PnSpec) -> Array1<f64> {
    let seg = segment_moles(p);
    match pn {
        PnSpec::Moles { factor } => {
            let target = &seg * *factor;
            p.specification = Arc::new(DFTSpecifications::Moles { moles: target.clone() });
            target
        }
        PnSpec::TotalMoles { factor } => {
            let target = seg.sum() * factor;
            p.specification = Arc::new(DFTSpecifications::TotalMoles { total_moles: target });
            Array1::from_elem(1, target)
        }
        PnSpec::Equimolar => {
            let target = seg.sum();
            p.specification = DFTSpecifications::total_moles_from_profile(p);
            Array1::from_elem(1, target)
        }
    }
}

/// Bound on |N_returned - N_spec| / N_spec from the residuals of the returned profile itself.
/// The bulk equation of the specification says N_spec = N_proj * rho_b,new / rho_b with
/// |rho_b,new - rho_b| = |res_bulk|; the field residual res = rho_proj - rho integrates to
/// N_proj - N_returned. The library zeroes `res` where the external potential is at its cut-off
/// but counts rho_proj of those points in the partition sum, so the field term is evaluated on a
/// copy of the profile whose potential is lowered by 1e-6 there (changes rho_proj by < 1e-6
/// relative). Both residuals are separately asserted to be below 10 x tol. Factor 2 and 1e-11
/// cover roundoff; the sign convention of res_bulk does not matter.
fn pn_bound(p: &Profile, i: Option<usize>, target: f64) -> Option<(f64, f64)> {
    let (_, res_bulk, _) = p.residual(false).ok()?;
    let mut q = p.clone();
    q.external_potential.mapv_inplace(|v| if v + 1e-9 >= MAX_POTENTIAL { MAX_POTENTIAL - 1e-6 } else { v });
    let (res, _, _) = q.residual(false).ok()?;
    let pd = p.bulk.partial_density.to_reduced();
    let rb: Array1<f64> = p.dft.component_index().mapv(|i| pd[i]);
    let int_res = p.integrate_comp(&Density::from_reduced(res.mapv(f64::abs))).to_reduced();
    // part of the field term that sits on frozen points
    let frozen = {
        let mut r = res.mapv(f64::abs);
        for (x, v) in r.iter_mut().zip(p.external_potential.iter()) {
            if *v + 1e-9 < MAX_POTENTIAL {
                *x = 0.0;
            }
        }
        p.integrate_comp(&Density::from_reduced(r)).to_reduced()
    };
    let (bulk_term, field_term, frozen_term) = match i {
        Some(i) => ((res_bulk[i] / rb[i]).abs(), int_res[i] / target.abs(), frozen[i] / target.abs()),
        None => (
            res_bulk.iter().zip(rb.iter()).map(|(r, b)| (r / b).abs()).fold(0.0, f64::max),
            int_res.sum() / target.abs(),
            frozen.sum() / target.abs(),
        ),
    };
    Some((2.0 * (bulk_term / (1.0 - bulk_term).max(0.5) + field_term) + 1e-11, frozen_term))
}

pub fn check(case: &Case, obs: &mut Obs) {
    let spec = &case.spec;
    obs.class(spec.label());
    let model = match spec.build() {
        Ok(m) => m,
        Err(e) => {
            obs.discard(format!("build:{}", e.chars().take(40).collect::<String>()));
            return;
        }
    };
    enum Built {
        Planar(PlanarInterface<Model>),
        Pore(PoreProfile1D<Model>),
    }
    let setup_failed = |obs: &mut Obs, kind: &str, e: String| {
        if case.demand {
            obs.fail(format!("lattice problem cannot be set up: {e}"));
        } else {
            obs.discard(format!("{kind} setup:{}", e.chars().take(30).collect::<String>()));
        }
    };
    let built = match &case.problem {
        Problem::Planar { tau, n_grid, length, init } => {
            obs.class("planar");
            obs.class(format!(
                "init:{}",
                match init {
                    InitSpec::Tanh { tc_factor } if *tc_factor == 1.0 => "tanh",
                    InitSpec::Tanh { .. } => "tanh-width",
                    InitSpec::Pdgt => "pdgt",
                    InitSpec::Previous { .. } => "previous",
                }
            ));
            obs.class(format!("n_grid={n_grid}"));
            match dft_tc(spec, &model, 0).and_then(|tc| planar_init(&model, tc, *tau, *n_grid, *length, init)) {
                Ok(p) => Built::Planar(p),
                Err(e) => return setup_failed(obs, "planar", e),
            }
        }
        Problem::Pore { tau, p_rel, x, pore, prev } => {
            obs.class("pore");
            obs.class(pore.label());
            obs.class(format!("n={}", spec.n()));
            obs.class(format!("n_grid={}", pore.n_grid));
            obs.class(if prev.is_some() { "init:previous" } else { "init:ideal-gas" });
            let r = pore_bulk(spec, &model, *tau, *p_rel, x).and_then(|bulk| {
                let density = match prev {
                    None => None,
                    Some(f) => {
                        let b0 = pore_bulk(spec, &model, *tau, (*p_rel * *f).min(0.9), x)?;
                        let p0 = pore_init(&b0, pore, None)?.solve(None).map_err(|e| format!("previous solution: {e}"))?;
                        Some(p0.profile.density.clone())
                    }
                };
                pore_init(&bulk, pore, density.as_ref())
            });
            match r {
                Ok(p) => Built::Pore(p),
                Err(e) => return setup_failed(obs, "pore", e),
            }
        }
    };
    let bulk0 = match &built {
        Built::Planar(p) => p.profile.bulk.clone(),
        Built::Pore(p) => p.profile.bulk.clone(),
    };
    let t0 = bulk0.temperature.to_reduced();

    // ---- solve with every chain from the same initial profile
    let mut outcomes: Vec<Outcome> = vec![];
    for (k, chain) in case.chains.iter().enumerate() {
        let solver = chain.build();
        let what = format!("chain {k} [{}]", chain.label());
        obs.class(format!("chain:{}", chain.last_label()));
        obs.class(format!("stages={}", chain.stages.len()));
        let res: Result<(Profile, Vec<(String, f64, f64, bool)>), String> = match &built {
            Built::Planar(p0) => p0.clone().solve(solver.as_ref()).map_err(|e| e.to_string()).map(|p| {
                let g = p.surface_tension.map(|g| g.to_reduced()).unwrap_or(f64::NAN);
                (p.profile, vec![("surface tension".to_string(), g, g.abs(), true)])
            }),
            Built::Pore(p0) => p0.clone().solve(solver.as_ref()).map_err(|e| e.to_string()).map(|p| {
                let om = p.grand_potential.map(|g| g.to_reduced()).unwrap_or(f64::NAN);
                let it = p.interfacial_tension.map(|g| g.to_reduced()).unwrap_or(f64::NAN);
                // Omega + pV cancels for weak adsorption: compare on the scale of its terms
                let pv = (p.profile.bulk.pressure(Contributions::Total) * p.profile.volume()).to_reduced();
                let mut v = vec![
                    ("grand potential".to_string(), om, om.abs(), true),
                    ("interfacial tension (solvation free energy)".to_string(), it, om.abs().max(pv.abs()), true),
                ];
                for (i, n) in p.profile.moles().to_reduced().iter().enumerate() {
                    v.push((format!("adsorbed amount [{i}]"), *n, n.abs(), false));
                }
                (p.profile, v)
            }),
        };
        match res {
            Err(e) => {
                let short: String = e.chars().take(28).collect();
                obs.class(format!("err:{short}"));
                if case.demand {
                    obs.fail(format!("{what}: success demanded on the lattice, got Err: {e}"));
                }
            }
            Ok((profile, observables)) => {
                obs.class("ok");
                obs.class(format!("ok:{}", chain.last_label()));
                if !check_returned(obs, &what, &profile, chain.tol_last()) {
                    continue;
                }
                let drift = check_bulk_unchanged(obs, &what, chain, &bulk0, &profile);
                let mut finite = true;
                for (name, v, _, _) in &observables {
                    obs.count();
                    if !v.is_finite() {
                        finite = false;
                        let msg = format!("{what}: solve returned Ok but {name} is {v}");
                        if antisym(&profile) {
                            obs.known_or_fail(ANTISYM, msg);
                        } else {
                            obs.fail(msg);
                        }
                    }
                }
                if !finite {
                    continue;
                }
                outcomes.push(Outcome {
                    chain: chain.clone(),
                    obs: observables,
                    rho_rms: rho_rms(&profile),
                    int_res: profile
                        .residual(false)
                        .map(|r| {
                            let i = profile.integrate_comp(&Density::from_reduced(r.0.mapv(f64::abs))).to_reduced();
                            (i * &*profile.dft.m()).sum()
                        })
                        .unwrap_or(f64::INFINITY),
                    wall_ratio: match &built {
                        Built::Planar(p0) => {
                            // a chain may lose the interface (uniform phase: also stationary, gamma = 0)
                            let r = profile.density.to_reduced();
                            let n = r.shape()[1];
                            let (rl, rv) = (p0.vle.liquid().density.to_reduced(), p0.vle.vapor().density.to_reduced());
                            if (r[[0, 0]] / rl - 1.0).abs() < 0.02 && (r[[0, n - 1]] / rv - 1.0).abs() < 0.02 {
                                wall_ratio(&profile)
                            } else {
                                obs.class("planar: interface lost (uniform phase)");
                                0.0
                            }
                        }
                        Built::Pore(_) => f64::INFINITY,
                    },
                    profile,
                    drift,
                });
            }
        }
    }

    // ---- observables agree across chains (same problem, same initial profile)
    let mut compared = 0;
    let mut compared_sharp = 0;
    for i in 0..outcomes.len() {
        for j in i + 1..outcomes.len() {
            let (a, b) = (&outcomes[i], &outcomes[j]);
            if a.chain == b.chain {
                continue;
            }
            if a.drift > 1e-9 || b.drift > 1e-9 {
                obs.class("bulk drifted: comparison skipped");
                continue;
            }
            // a planar interface closer to a wall than WALL_RATIO widths feels its mirror image:
            // the surface tension then depends on where the (neutral) interface position ended up
            if a.wall_ratio < WALL_RATIO || b.wall_ratio < WALL_RATIO {
                obs.class("planar: interface too close to the wall, comparison skipped");
                continue;
            }
            // pores below the critical pore size have several stationary points (empty / filled /
            // layered): chains may legitimately end on different branches
            let gross = a
                .obs
                .iter()
                .zip(&b.obs)
                .any(|(oa, ob)| !oa.3 && rel(oa.1, ob.1) > BRANCH_GAP);
            if gross {
                obs.class("pore: chains on different branches (multistable), comparison skipped");
                continue;
            }
            compared += 1;
            // Generated pore problems can have several stationary points that differ by far less
            // than BRANCH_GAP (two profiles with residual 1e-15 and N differing by 1.7e-4 were
            // found in a cylindrical pore): agreement is asserted for planar interfaces and on the
            // lattice only, and recorded as a statistic for generated pores.
            let asserted = case.demand || matches!(built, Built::Planar(_));
            obs.class(if asserted { "pair compared (asserted)" } else { "pair compared (statistic only)" });
            let mut sharp = asserted;
            for (oa, ob) in a.obs.iter().zip(&b.obs) {
                let scale = oa.2.max(ob.2);
                let atol = cmp_atol(a, b, t0, scale, oa.3);
                let d = (oa.1 - ob.1).abs();
                sharp &= atol <= 1e-3 * scale;
                let key = oa.0.split(' ').next().unwrap();
                worst(&format!("cross-chain: {key}: diff / tolerance"), d / atol);
                let i = a.int_res + b.int_res;
                if oa.3 {
                    worst(&format!("cross-chain: {key}: diff / (T int|res|)"), (d - 1e-9 * scale).max(0.0) / (t0 * i));
                } else {
                    worst(&format!("cross-chain: {key}: kappa = diff / int|res|"), (d - 1e-9 * scale).max(0.0) / i);
                }
                if debug() {
                    eprintln!(
                        "DBG cmp {key} prob={} d/scale={:.3e} atol/scale={:.3e} tols=({:.1e},{:.1e}) rho_rms={:.3e} wall_ratio=({:.2},{:.2}) [{}] vs [{}]",
                        serde_json::to_string(&case.problem).unwrap().replace(' ', ""), d / scale, atol / scale, a.chain.tol_last(), b.chain.tol_last(), a.rho_rms, a.wall_ratio, b.wall_ratio, a.chain.label(), b.chain.label()
                    );
                }
                obs.count();
                if !(d <= atol) && !asserted {
                    obs.class(format!("pore pair beyond tolerance, not asserted: {key}"));
                }
                if !(d <= atol) && asserted {
                    obs.fail(format!(
                        "{} differs between [{}] and [{}]: {:e} vs {:e} (diff {d:e} > tolerance {atol:e}; int|res| = {:e} and {:e})",
                        oa.0, a.chain.label(), b.chain.label(), oa.1, ob.1, a.int_res, b.int_res
                    ));
                }
            }
            if sharp {
                compared_sharp += 1;
            }
        }
    }
    if compared > 0 {
        obs.class("chains compared");
    }
    if compared_sharp > 0 {
        obs.class("chains compared (tolerance <= 1e-3)");
        obs.nontrivial();
    }

    // ---- particle-number specifications
    if let Some((pn, chain)) = &case.pn {
        let solver = chain.build();
        let tol = chain.tol_last();
        let label = match pn {
            PnSpec::Moles { factor } => format!("Moles x{factor}"),
            PnSpec::TotalMoles { factor } => format!("TotalMoles x{factor}"),
            PnSpec::Equimolar => "fix_equimolar_surface".into(),
        };
        obs.class(format!("pn:{}", label.split(' ').next().unwrap()));
        let what = format!("{label} [{}]", chain.label());
        // start: the first converged ChemicalPotential profile; Equimolar: the initial profile
        let start: Option<Profile> = match (pn, &built) {
            (PnSpec::Equimolar, Built::Planar(p0)) => Some(p0.profile.clone()),
            (PnSpec::Equimolar, _) => None,
            _ => outcomes.iter().find(|o| o.drift <= 1e-9).map(|o| o.profile.clone()),
        };
        let run: Option<(Result<Profile, String>, Array1<f64>)> = start.map(|mut s| {
            let target = apply_pn(&mut s, pn);
            let r = match &built {
                Built::Planar(p0) => {
                    let mut p = p0.clone();
                    p.profile = s;
                    p.solve(solver.as_ref()).map(|p| p.profile).map_err(|e| e.to_string())
                }
                Built::Pore(p0) => {
                    let mut p = p0.clone();
                    p.profile = s;
                    p.solve(solver.as_ref()).map(|p| p.profile).map_err(|e| e.to_string())
                }
            };
            (r, target)
        });
        let total = !matches!(pn, PnSpec::Moles { .. });
        match run {
            None => obs.class("pn: no converged start profile"),
            Some((Err(e), _)) => {
                obs.class(format!("pn:err:{}", e.chars().take(28).collect::<String>()));
                // success is demanded on the lattice and where the start profile already satisfies
                // the specification to solver accuracy (factor 1, tolerance 10x coarser than the
                // one the start profile was converged to: every solver tests the residual first)
                let trivially_satisfied = matches!(pn, PnSpec::Moles { factor } | PnSpec::TotalMoles { factor } if *factor == 1.0)
                    && outcomes.first().map(|o| o.chain.tol_last() <= 0.1 * tol).unwrap_or(false);
                if case.demand || trivially_satisfied {
                    obs.known_or_fail(
                        F3,
                        format!("{what}: not accepted although the profile already contains the specified amount (or: lattice problem): {e}"),
                    );
                }
            }
            Some((Ok(p), target)) => {
                obs.class("pn:ok");
                // `Moles` on a heterosegmented functional iterates one bulk density per segment,
                // but solve() rebuilds the bulk State with one density per component (the last
                // segment wins, profile/mod.rs:506-511): the returned profile is then not a
                // stationary point for its own bulk state
                let hetero_moles = !total && p.density.shape()[0] != p.dft.components();
                if hetero_moles {
                    obs.class("pn: Moles on a heterosegmented functional");
                }
                if check_returned_known(obs, &what, &p, tol, if hetero_moles { Some(HETERO) } else { None }) {
                    let seg = segment_moles(&p);
                    let molecular = seg.len() == p.dft.components();
                    let mut sharp = true;
                    let idx: Vec<Option<usize>> = if total { vec![None] } else { (0..seg.len()).map(Some).collect() };
                    for i in idx {
                        let (have, want) = match i {
                            None => (seg.sum(), target[0]),
                            Some(i) => (seg[i], target[i]),
                        };
                        let Some((bound, frozen)) = pn_bound(&p, i, want) else { continue };
                        if frozen > 1e-8 {
                            obs.class("pn: > 1e-8 of the amount sits on frozen cut-off points (counted in z, not in N)");
                        }
                        sharp &= bound < 1e-6;
                        worst("pn: |N - N_spec|/N_spec (cases with bound < 1e-6)", if bound < 1e-6 { rel(have, want) } else { 0.0 });
                        worst("pn: deviation / bound", rel(have, want) / bound);
                        obs.count();
                        if !((have - want).abs() <= bound * have.abs().max(want.abs())) {
                            // With the partition sum integrated after the multiplication with rho_bulk
                            // (F3) the bulk equation has the spurious fixed point rho_bulk = 1/A^3:
                            // Anderson mixing can reach it and return Ok with ~1e5 x the amount.
                            obs.known_or_fail(
                                F3,
                                format!("{what}: the returned profile contains {have:e} (index {i:?}) but {want:e} was specified (bound {bound:e})"),
                            );
                            continue;
                        }
                        // heterosegmented functionals count segments in the specification but
                        // molecules in moles(): the getters are compared for molecular models only
                        if molecular {
                            let getter = match i {
                                None => p.total_moles().to_reduced(),
                                Some(i) => p.moles().to_reduced()[i],
                            };
                            obs.close(&format!("{what}: moles()/total_moles() {i:?} equals the specified amount"), getter, want, bound, 0.0);
                        }
                    }
                    obs.ensure((p.bulk.temperature.to_reduced() - t0).abs() <= 1e-14 * t0, || {
                        format!("{what}: bulk temperature changed")
                    });
                    let iterated = p.solver_log.as_ref().map(|l| l.residual().len() > 1).unwrap_or(false);
                    if iterated {
                        obs.class("pn:ok:iterated");
                    }
                    obs.class(if sharp { "pn:ok:bound<1e-6" } else { "pn:ok:bound>=1e-6 (dilute bulk: tolerance does not resolve rho_bulk)" });
                    if sharp {
                        obs.nontrivial();
                    }
                }
            }
        }
    }
}

/// Relative change of the bulk densities allowed under the default specification: the rebuilt
/// bulk State costs a few ulp (measured <= 5e-16 for Picard / Newton chains).
const BULK_DRIFT: f64 = 1e-13;
/// minimum (distance of the interface from the nearer wall) / (90-10 width) for the surface
/// tension to be compared between chains
const WALL_RATIO: f64 = 3.0;
/// adsorbed amounts differing by more than this are different stationary points
const BRANCH_GAP: f64 = 1e-2;
const CMP_K: f64 = 1e3;
const CMP_K2: f64 = 1e2;
const CMP_K1: f64 = 50.0;

// ---------------------------------------------------------------------------------------
// Lattice
// ---------------------------------------------------------------------------------------
fn shipped(file: usize, name: &str) -> Value {
    POOLS.pcsaft[file]
        .1
        .iter()
        .find(|r| r["identifier"]["name"].as_str() == Some(name))
        .unwrap_or_else(|| panic!("record {name} missing"))
        .clone()
}

pub fn lattice_specs() -> Vec<(String, ModelSpec)> {
    let pc = |name: &str| ModelSpec {
        family: Family::PcSaftFunctional,
        pure: vec![shipped(0, name)],
        binary: vec![],
        seg: None,
        opts: Opts::default(),
        source: "shipped:gross2001.json".into(),
    };
    let pets = ModelSpec {
        family: Family::PetsFunctional,
        pure: vec![json!({"identifier": {"name": "argon-like", "cas": "0-00-0"}, "molarweight": 39.948,
            "model_record": {"sigma": 3.4, "epsilon_k": 120.0}})],
        binary: vec![],
        seg: None,
        opts: Opts::default(),
        source: "lattice".into(),
    };
    vec![("propane".into(), pc("propane")), ("butane".into(), pc("butane")), ("pets".into(), pets)]
}

fn lattice() -> Vec<Case> {
    let mut v = vec![];
    let newton = ChainSpec {
        stages: vec![
            StageSpec::Anderson { log: true, damping: 0.15, mmax: 100, max_iter: 50, tol: 1e-5 },
            StageSpec::Newton { log: false, max_iter: 50, gmres: 200, tol: 1e-11 },
        ],
    };
    let picard = ChainSpec {
        stages: vec![
            StageSpec::Anderson { log: true, damping: 0.15, mmax: 100, max_iter: 50, tol: 1e-5 },
            StageSpec::Picard { log: false, damping: None, max_iter: 500, tol: 1e-9 },
        ],
    };
    let anderson = ChainSpec {
        stages: vec![StageSpec::Anderson { log: true, damping: 0.1, mmax: 10, max_iter: 300, tol: 1e-10 }],
    };
    for (_, spec) in lattice_specs() {
        for tau in [0.6, 0.7, 0.8, 0.9] {
            for (k, pn) in [
                PnSpec::TotalMoles { factor: 1.0 },
                PnSpec::Moles { factor: 1.0 },
                PnSpec::TotalMoles { factor: 1.002 },
                PnSpec::Equimolar,
            ]
            .into_iter()
            .enumerate()
            {
                v.push(Case {
                    spec: spec.clone(),
                    problem: Problem::Planar { tau, n_grid: 512, length: 150.0, init: InitSpec::Tanh { tc_factor: 1.0 } },
                    chains: match k {
                        0 => vec![ChainSpec::default_solver(), newton.clone()],
                        1 => vec![ChainSpec::default_solver(), picard.clone()],
                        _ => vec![ChainSpec::default_solver()],
                    },
                    pn: Some((pn, ChainSpec::default_solver())),
                    demand: true,
                });
            }
            for (geom, size) in [(GeomSpec::Slit, 30.0), (GeomSpec::Sphere, 20.0)] {
                for (k, pn) in [PnSpec::Moles { factor: 1.0 }, PnSpec::Moles { factor: 1.02 }, PnSpec::TotalMoles { factor: 0.995 }]
                    .into_iter()
                    .enumerate()
                {
                    v.push(Case {
                        spec: spec.clone(),
                        problem: Problem::Pore {
                            tau,
                            p_rel: 0.2,
                            x: vec![1.0],
                            pore: PoreSpec {
                                geom,
                                size,
                                wall: WallSpec::LJ93 { sigma_ss: 3.0, epsilon_k_ss: 10.0, rho_s: 0.08 },
                                n_grid: 512,
                            },
                            prev: None,
                        },
                        chains: match k {
                            0 => vec![ChainSpec::default_solver(), newton.clone()],
                            1 => vec![ChainSpec::default_solver(), picard.clone()],
                            _ => vec![ChainSpec::default_solver(), anderson.clone()],
                        },
                        pn: Some((pn, ChainSpec::default_solver())),
                        demand: true,
                    });
                }
            }
        }
    }
    v
}

const PART: PartCfg = PartCfg {
    name: "sampled",
    genome_len: 160,
    cases_quick: 160,
    cases_thorough: 16_000,
    panic: PanicPolicy::Count,
};

pub fn run(ctx: &Ctx) {
    ctx.set_rule("lattice: {propane, butane (PC-SAFT functional, gross2001), argon-like PeTS} x T/Tc in {0.6,0.7,0.8,0.9} x {planar interface 512 points / 150 A from tanh; LJ93 slit 30 A and spherical pore 20 A at p/p_sat = 0.2}, default solver (+ Anderson>Newton, Anderson>Picard), each followed by a particle-number solve (Moles / TotalMoles with the current and a perturbed amount, fix_equimolar_surface); success demanded. sampled: proptest genomes -> (functional family of {PcSaft, Pets, GcPcSaft (acyclic, <= 6 segments), SaftVRQMie}Functional, records shipped/perturbed/random, pure for planar, 1-2 components for pores, FMT version and options) x (planar: T/Tc in [0.5,0.95], 256-2048 points, 60-200 A, initial profile tanh / tanh with other width / pDGT / previous solution at a neighbouring T | pore: slit/cylinder/sphere, LJ93/Steele/HardWall/SimpleLJ93(slit), size 8-60 A, bulk vapour at p = [0.05,0.8] x lowest pure p_sat, ideal-gas or previous-solution initial density) x 2-3 solver chains (default or 1-3 stages of Picard(log, line search | damping 0.01-0.3) / Anderson(log, mmax 5-100, damping 0.05-0.3) / Newton(log, GMRES 50-300), stage tolerances 1e-5..1e-8, last 1e-8..1e-11, 15 % short last stages) x optional particle-number specification (Moles / TotalMoles x {1, 1.002, 0.995, 1.02} applied to the converged profile, or fix_equimolar_surface from the initial profile). Non-trivial: two different chains converged on the same problem and were compared with a tolerance <= 1e-3, or a particle-number solve returned Ok with a deviation bound < 1e-6. Distinct by hash of the canonical case JSON.");
    ctx.assume("Euler-Lagrange residual of a returned profile: rms of the residual field of residual(false) recomputed by the harness and residual(false).2 both <= 10 x tolerance of the last stage (the solver stops below 1 x tol; the profile is re-evaluated after the bulk state was rebuilt)");
    ctx.assume("density finite everywhere and > 0 wherever the external potential is below the cut-off 50 (frozen points keep the initial guess, whose sign is FFT noise at 1e-35)");
    ctx.assume("cross-chain agreement: |u-v| <= (1e-6 + 1e3 * tol_last / rms(rho)) x scale (measured amplification kappa <= 10); planar comparisons only when the interface is at least 3 widths (90-10) from both walls (mirror boundary conditions); pore results whose adsorbed amounts differ by more than 1 % are different stationary points (hysteresis) and are not compared; interfacial tension compared on the scale max(|Omega|, |pV|)");
    ctx.assume("default specification: bulk partial densities unchanged to 1e-13 (relative), temperature to 1e-14");
    ctx.assume("particle-number specifications: |N - N_spec|/N_spec <= 2 (|res_bulk|/rho_bulk + int|res|/N_spec) + 1e-11 with the residuals of the returned profile (an identity of the bulk equation, not a fitted tolerance); success demanded only from profiles that already satisfy the specification or on the lattice");
    ctx.assume("residual() reuses the library's Euler-Lagrange operator (validated by C17)");
    ctx.run_lattice("lattice", lattice(), PanicPolicy::Violation, false, &check);
    ctx.run_sampled(&PART, &decode, &check);
    ctx.extra("measured_worst", worst_json());
}

pub fn replay(ctx: &Ctx, _part: &str, case: &Value) -> bool {
    ctx.replay_case::<Case>(case, &check)
}
