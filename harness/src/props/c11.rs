//! C11 — independence from evaluation history and thread schedule.
//!
//! Stateful / model-based: a history is a sequence of operations on up to three state
//! handles (evaluate a getter on a handle, clone one handle into another). The reference
//! model is "every getter evaluated on its own fresh state". Schedules: whole getter calls are
//! serialised by the cache mutex, so real-thread runs on a shared state must return the
//! reference values as well.
use crate::engine::{Ctx, Gen, Obs, PanicPolicy, PartCfg};
use crate::model::*;
use feos::core::{Contributions, PhaseDiagram, ReferenceSystem, SolverOptions, State};
use quantity::*;
use serde::{Deserialize, Serialize};
use serde_json::{json, Value};
use std::sync::{Arc, Barrier};

type S = State<FullModel>;
use Contributions::{IdealGas as IG, Residual as RES, Total as TOT};

fn sel(k: usize) -> Contributions {
    [TOT, RES, IG][k % 3]
}

/// Number of getters known to `eval`.
pub const N_GETTERS: usize = 66;
/// The 12 "atomic" getters: together they touch every cache key of the system exactly through
/// one kind of dual number each.
pub const ATOMIC: [usize; 12] = [0, 1, 2, 3, 4, 5, 6, 7, 8, 9, 10, 11];

fn v1(x: f64) -> Vec<f64> {
    vec![x]
}

/// Evaluate getter `g` (with auxiliary index `aux`) on a state; flattened result.
pub fn eval(s: &S, g: usize, aux: usize, has_mw: bool, has_transport: bool) -> Option<Vec<f64>> {
    let n = s.moles.len();
    let i = aux % n;
    let c = sel(aux);
    Some(match g {
        // --- atomic: one cache key class each ---
        0 => v1(s.residual_helmholtz_energy().to_reduced()), // Zeroth (f64)
        1 => v1(s.pressure(RES).to_reduced()),               // First(DV) Dual64
        2 => v1(s.residual_entropy().to_reduced()),          // First(DT)
        3 => s.residual_chemical_potential().to_reduced().to_vec(), // First(DN(i))
        4 => v1(s.dp_dv(RES).to_reduced()),                  // Second(DV) Dual2
        5 => v1(s.ds_res_dt().to_reduced()),                 // Second(DT)
        6 => v1(s.dp_dt(RES).to_reduced()),                  // Mixed(DV,DT) HyperDual
        7 => s.dp_dni(RES).to_reduced().to_vec(),            // Mixed(DV,DN)
        8 => s.dmu_res_dt().to_reduced().to_vec(),           // Mixed(DT,DN)
        9 => s.dmu_dni(RES).to_reduced().iter().copied().collect(), // Mixed(DN,DN)
        10 => v1(s.d2p_dv2(RES).to_reduced()),               // Third(DV) Dual3
        11 => v1(s.d2s_res_dt2().to_reduced()),              // Third(DT)
        // --- composite / selector getters ---
        12 => v1(s.pressure(c).to_reduced()),
        13 => v1(s.compressibility(c)),
        14 => v1(s.dp_dv(c).to_reduced()),
        15 => v1(s.dp_drho(c).to_reduced()),
        16 => v1(s.dp_dt(c).to_reduced()),
        17 => s.dp_dni(c).to_reduced().to_vec(),
        18 => v1(s.d2p_dv2(c).to_reduced()),
        19 => v1(s.d2p_drho2(c).to_reduced()),
        20 => v1(s.structure_factor()),
        21 => s.partial_molar_volume().to_reduced().to_vec(),
        22 => s.dmu_dni(c).to_reduced().iter().copied().collect(),
        23 => v1(s.isothermal_compressibility().to_reduced()),
        24 => s.ln_phi().to_vec(),
        25 => s.dln_phi_dt().to_reduced().to_vec(),
        26 => s.dln_phi_dp().to_reduced().to_vec(),
        27 => (s.dln_phi_dnj() * Moles::from_reduced(1.0)).into_value().iter().copied().collect(),
        28 => {
            if n < 2 {
                return None;
            }
            s.thermodynamic_factor().iter().copied().collect()
        }
        29 => v1(s.residual_molar_isochoric_heat_capacity().to_reduced()),
        30 => v1(s.dc_v_res_dt().to_reduced()),
        31 => v1(s.residual_molar_isobaric_heat_capacity().to_reduced()),
        32 => v1(s.residual_enthalpy().to_reduced()),
        33 => v1(s.residual_internal_energy().to_reduced()),
        34 => v1(s.residual_gibbs_energy().to_reduced()),
        35 => s.pressure_contributions().iter().map(|(_, p)| p.to_reduced()).collect(),
        36 => s.residual_chemical_potential_contributions(i).iter().map(|(_, p)| p.to_reduced()).collect(),
        37 => s.residual_helmholtz_energy_contributions().iter().map(|(_, p)| p.to_reduced()).collect(),
        38 => s.chemical_potential(c).to_reduced().to_vec(),
        39 => s.dmu_dt(c).to_reduced().to_vec(),
        40 => v1(s.molar_isochoric_heat_capacity(c).to_reduced()),
        41 => v1(s.dc_v_dt(c).to_reduced()),
        42 => v1(s.molar_isobaric_heat_capacity(c).to_reduced()),
        43 => v1(s.entropy(c).to_reduced()),
        44 => v1(s.ds_dt(c).to_reduced()),
        45 => v1(s.d2s_dt2(c).to_reduced()),
        46 => v1(s.enthalpy(c).to_reduced()),
        47 => v1(s.helmholtz_energy(c).to_reduced()),
        48 => v1(s.internal_energy(c).to_reduced()),
        49 => v1(s.gibbs_energy(c).to_reduced()),
        50 => v1(s.joule_thomson().to_reduced()),
        51 => v1(s.isentropic_compressibility().to_reduced()),
        52 => v1(s.thermal_expansivity().to_reduced()),
        53 => v1(s.grueneisen_parameter()),
        54 => s.partial_molar_entropy().to_reduced().to_vec(),
        55 => s.partial_molar_enthalpy().to_reduced().to_vec(),
        56 => s.chemical_potential_contributions(i, c).iter().map(|(_, p)| p.to_reduced()).collect(),
        57 => v1(s.molar_entropy(c).to_reduced()),
        58 => v1(s.molar_gibbs_energy(c).to_reduced()),
        59 => v1(s.isenthalpic_compressibility().to_reduced()),
        60 => {
            if !has_mw {
                return None;
            }
            let w = s.speed_of_sound().to_reduced();
            if !w.is_finite() {
                return None;
            }
            v1(w)
        }
        61 => {
            if !has_mw {
                return None;
            }
            vec![
                s.specific_enthalpy(c).to_reduced(),
                s.specific_entropy(c).to_reduced(),
                s.specific_isobaric_heat_capacity(c).to_reduced(),
                s.mass_density().to_reduced(),
            ]
        }
        62 => {
            if !has_transport {
                return None;
            }
            vec![s.viscosity().ok()?.to_reduced(), s.ln_viscosity_reduced().ok()?, s.viscosity_reference().ok()?.to_reduced()]
        }
        63 => {
            if !has_transport {
                return None;
            }
            vec![s.diffusion().ok()?.to_reduced(), s.ln_diffusion_reduced().ok()?]
        }
        64 => {
            if !has_transport {
                return None;
            }
            vec![s.thermal_conductivity().ok()?.to_reduced(), s.ln_thermal_conductivity_reduced().ok()?]
        }
        65 => v1(s.residual_molar_entropy().to_reduced()),
        _ => return None,
    })
}

#[derive(Serialize, Deserialize, Clone, Debug, PartialEq)]
pub enum Op {
    /// evaluate getter `g` with auxiliary index `aux` on handle `h`
    Eval { h: usize, g: usize, aux: usize },
    /// handle `dst` becomes a clone of handle `src`
    CloneTo { src: usize, dst: usize },
    /// handle `dst` becomes `src.update_temperature(T_src * factor)`
    UpdateT { src: usize, dst: usize, factor: f64 },
}

#[derive(Serialize, Deserialize, Clone, Debug)]
pub struct Case {
    pub spec: ModelSpec,
    pub state: StateSpec,
    pub ig: Vec<usize>,
    pub ops: Vec<Op>,
    /// >0: run the per-handle-0 Eval ops on this many real threads sharing one state
    pub threads: usize,
}

struct Sys {
    eos: Arc<FullModel>,
    inputs: (Temperature, Volume, Moles<ndarray::Array1<f64>>),
    has_mw: bool,
    has_transport: bool,
}

fn build(case: &Case, obs: &mut Obs) -> Option<Sys> {
    let model = match case.spec.build() {
        Ok(m) => m,
        Err(e) => {
            obs.discard(format!("build:{}", e.chars().take(40).collect::<String>()));
            return None;
        }
    };
    let inputs = match state_inputs(&case.spec, &model, &case.state) {
        Ok(i) => i,
        Err(e) => {
            obs.discard(format!("inputs:{e}"));
            return None;
        }
    };
    let ig = dippr_model(&case.ig).ok()?;
    let has_transport = case.spec.family == Family::PcSaft
        && case.spec.pure.iter().all(|p| {
            let m = &p["model_record"];
            m.get("viscosity").is_some() && m.get("diffusion").is_some() && m.get("thermal_conductivity").is_some()
        });
    Some(Sys {
        has_mw: model.has_molar_weight(),
        has_transport,
        eos: full_model(ig, model),
        inputs,
    })
}

fn fresh(sys: &Sys) -> Option<S> {
    State::new_nvt(&sys.eos, sys.inputs.0, sys.inputs.1, &sys.inputs.2).ok()
}

/// tolerance: history-dependent by-products differ at 2e-16 relative in the cached value
/// (Dual64 vs Dual3 arithmetic); composite getters amplify that by their cancellation.
/// A mis-keyed or stale cache entry gives O(1) errors.
const RTOL: f64 = 1e-9;

/// relative perturbation of the volume used to measure the conditioning of a getter
const PERT: f64 = 1e-11;
/// allowed deviation = RTOL*scale + AMP * |getter(V(1+PERT)) - getter(V)|: by-products differ
/// by ~2e-16 relative, i.e. PERT/5e4; AMP = 100 leaves a factor ~5e6 between legitimate
/// noise and the tolerance while a wrong cache entry (O(1) relative error of one derivative)
/// is only hidden where the getter amplifies input noise by more than ~1e8.
const AMP: f64 = 100.0;

struct Ref {
    value: Vec<f64>,
    sens: Vec<f64>,
    /// atomic getters (one cache entry each) of models without an iterative association term: the
    /// contribution-wise absolute sum of that derivative of A (cancellation-safe scale); empty otherwise
    tight: Vec<f64>,
}

/// Atomic getters read one cache entry: the value stored by a lower-order evaluation and the real /
/// lower-order part of a higher-order dual-number evaluation of the same formulas may differ only by the
/// roundoff of each contribution, i.e. by ~1e-15 of sum_c |d^k A_c|. 1e-11 of that scale (plus 1 % of the
/// 1e-11-perturbation response) separates this from a by-product whose value depends on the dual-number type
/// (e.g. an inner iteration that stops earlier for f64) by three orders of magnitude on either side.
const TOL_ATOMIC: f64 = 1e-11;
static WORST_ATOMIC: std::sync::Mutex<f64> = std::sync::Mutex::new(0.0);

thread_local! {
    /// the model of the running case has an association contribution (iterative solver possible)
    static ASSOC_MODEL: std::cell::Cell<bool> = const { std::cell::Cell::new(false) };
}

fn compare(obs: &mut Obs, what: &str, got: &[f64], reference: &Ref) {
    obs.count();
    if got.len() != reference.value.len() {
        obs.fail(format!("{what}: length {} vs reference {}", got.len(), reference.value.len()));
        return;
    }
    let scale = reference.value.iter().fold(0.0f64, |a, b| a.max(b.abs()));
    for (k, (u, v)) in got.iter().zip(&reference.value).enumerate() {
        if (u.is_nan() && v.is_nan()) || u == v {
            continue;
        }
        let mut tol = RTOL * scale.max(u.abs()) + AMP * reference.sens[k];
        if let Some(sk) = reference.tight.get(k) {
            if sk.is_finite() && *sk > 0.0 {
                let t = TOL_ATOMIC * sk + 0.01 * reference.sens[k];
                let mut w = WORST_ATOMIC.lock().unwrap();
                let r = (u - v).abs() / t;
                if r > *w {
                    *w = r;
                }
                tol = tol.min(t);
            }
        }
        if u.is_nan() != v.is_nan() && ASSOC_MODEL.with(|c| c.get()) {
            // the iterative cross-association solver returns NaN when it needs more than
            // max_iter steps; the f64 and dual-number routes see partial densities that differ
            // by 1 ulp, so at the limit one route converges and the other does not
            obs.known_or_fail(
                "C11/association-nonconvergence-flips-with-route",
                format!("{what}[{k}]: {u:e} vs reference {v:e} (fresh state): one of the two is NaN"),
            );
            return;
        }
        if !((u - v).abs() <= tol) {
            obs.fail(format!("{what}[{k}]: {u:e} vs reference {v:e} (fresh state; tolerance {tol:e})"));
            return;
        }
        if tol > 1e-3 * v.abs() && v.abs() > 0.0 {
            obs.class("ill-conditioned getter value (comparison weak)");
        }
    }
}

pub fn check(case: &Case, obs: &mut Obs) {
    obs.class(case.spec.label());
    obs.class(format!("n={}", case.spec.n()));
    if case.state.x.iter().any(|&v| v == 0.0) {
        obs.class("zero-mole component");
    }
    let Some(sys) = build(case, obs) else { return };
    let Some(s0) = fresh(&sys) else {
        obs.discard("state");
        return;
    };
    ASSOC_MODEL.with(|c| c.set(case.spec.has_association()));
    if !s0.residual_helmholtz_energy().to_reduced().is_finite() || !s0.dp_dv(TOT).to_reduced().is_finite() {
        // history probe before discarding: NaN as the first property, finite as a by-product?
        if let Some(s1) = fresh(&sys) {
            let a_first = s0.residual_helmholtz_energy().to_reduced();
            let _ = s1.pressure(Contributions::Residual);
            let a_after = s1.residual_helmholtz_energy().to_reduced();
            if a_first.is_nan() && a_after.is_finite() && case.spec.has_association() {
                obs.known_or_fail(
                    "C11/association-nonconvergence-flips-with-route",
                    format!("residual_helmholtz_energy() is NaN as the first property of the state but {a_after:e} after pressure(Residual)"),
                );
            } else if a_first.is_nan() != a_after.is_nan() {
                obs.fail(format!("residual_helmholtz_energy() = {a_first:e} as the first property but {a_after:e} after pressure(Residual)"));
            }
        }
        obs.discard("non-finite");
        return;
    }
    // reference values: every getter on its own fresh state
    let fresh_at = |t: Temperature| State::new_nvt(&sys.eos, t, sys.inputs.1, &sys.inputs.2).ok();
    let reference_at = |g: usize, aux: usize, temp: Temperature| -> Option<Ref> {
        let value = eval(&fresh_at(temp)?, g, aux, sys.has_mw, sys.has_transport)?;
        let sp = State::new_nvt(&sys.eos, temp, sys.inputs.1 * (1.0 + PERT), &sys.inputs.2).ok()?;
        let vp = eval(&sp, g, aux, sys.has_mw, sys.has_transport)?;
        if vp.len() != value.len() {
            return None;
        }
        // natural scale of getters that vanish by exact cancellation (ideal-gas limit, pure fluids)
        let s = fresh_at(temp)?;
        let (t, v, ntot, rho) = (s.temperature.to_reduced(), s.volume.to_reduced(), s.total_moles.to_reduced(), s.density.to_reduced());
        let floor = match g {
            19 => 2.0 * t / rho,
            25 => 1.0 / t,
            26 => 1.0 / s.pressure(TOT).to_reduced().abs(),
            27 => 1.0 / ntot,
            28 => 1.0,
            50 | 59 => v / (ntot * s.molar_isobaric_heat_capacity(TOT).to_reduced().abs()),
            _ => 0.0,
        };
        let sens = value
            .iter()
            .zip(&vp)
            .map(|(a, b)| RTOL * floor / AMP + if (a - b).is_finite() { (a - b).abs() } else { 0.0 })
            .collect();
        // cancellation-safe scales of the atomic getters (models without association only: the site
        // fractions are iterated to tol_cross_assoc from a start value that depends on the history)
        let tight: Vec<f64> = if g < 12 && !case.spec.has_association() {
            use crate::scales::{contrib_abs, PD};
            use feos::core::Derivative::{DN, DT, DV};
            let n = s.moles.len();
            match g {
                0 => vec![contrib_abs(&s, PD::Zeroth)],
                1 => vec![contrib_abs(&s, PD::First(DV))],
                2 => vec![contrib_abs(&s, PD::First(DT))],
                3 => (0..n).map(|i| contrib_abs(&s, PD::First(DN(i)))).collect(),
                4 => vec![contrib_abs(&s, PD::Second(DV))],
                5 => vec![contrib_abs(&s, PD::Second(DT))],
                6 => vec![contrib_abs(&s, PD::Mixed(DV, DT))],
                7 => (0..n).map(|i| contrib_abs(&s, PD::Mixed(DV, DN(i)))).collect(),
                8 => (0..n).map(|i| contrib_abs(&s, PD::Mixed(DT, DN(i)))).collect(),
                9 => (0..n).flat_map(|i| (0..n).map(move |j| (i, j))).map(|(i, j)| contrib_abs(&s, PD::Mixed(DN(i), DN(j)))).collect(),
                10 => vec![contrib_abs(&s, PD::Third(DV))],
                _ => vec![contrib_abs(&s, PD::Third(DT))],
            }
        } else {
            vec![]
        };
        let tight = if tight.len() == value.len() { tight } else { vec![] };
        Some(Ref { value, sens, tight })
    };
    let reference = |g: usize, aux: usize| reference_at(g, aux, sys.inputs.0);

    if case.threads == 0 {
        // sequential history over up to 3 handles
        let mut handles: Vec<S> = vec![fresh(&sys).unwrap(), fresh(&sys).unwrap(), fresh(&sys).unwrap()];
        let mut temps = [sys.inputs.0; 3];
        let mut evaluated = [0usize; 3];
        let mut update_after_eval = false;
        let mut order_keys: Vec<usize> = vec![];
        let mut clone_after_eval = false;
        for (step, op) in case.ops.iter().enumerate() {
            match op {
                Op::Eval { h, g, aux } => {
                    let h = h % 3;
                    let Some(r) = reference_at(*g, *aux, temps[h]) else { continue };
                    let Some(got) = eval(&handles[h], *g, *aux, sys.has_mw, sys.has_transport) else { continue };
                    compare(obs, &format!("step {step} getter {g} aux {aux} on handle {h}"), &got, &r);
                    evaluated[h] += 1;
                    if h == 0 {
                        order_keys.push(*g);
                    }
                }
                Op::CloneTo { src, dst } => {
                    let (src, dst) = (src % 3, dst % 3);
                    if src != dst {
                        if evaluated[src] > 0 {
                            clone_after_eval = true;
                        }
                        handles[dst] = handles[src].clone();
                        evaluated[dst] = evaluated[src];
                        temps[dst] = temps[src];
                    }
                }
                Op::UpdateT { src, dst, factor } => {
                    let (src, dst) = (src % 3, dst % 3);
                    let tnew = temps[src] * *factor;
                    if let Ok(st) = handles[src].update_temperature(tnew) {
                        if evaluated[src] > 0 {
                            update_after_eval = true;
                        }
                        handles[dst] = st;
                        temps[dst] = tnew;
                        evaluated[dst] = 0;
                    }
                }
            }
        }
        // non-trivial: a higher-order key before a lower-order key it produces as by-product,
        // or a clone after at least one evaluation
        let rank = |g: usize| match g {
            0 => 0,
            1..=3 => 1,
            4..=9 => 2,
            10 | 11 => 3,
            _ => 2,
        };
        let higher_first = order_keys.windows(2).any(|w| rank(w[0]) > rank(w[1]))
            || order_keys.iter().enumerate().any(|(k, g)| order_keys[..k].iter().any(|g0| rank(*g0) > rank(*g)));
        if higher_first {
            obs.class("higher-order before lower-order");
        }
        if clone_after_eval {
            obs.class("clone after evaluation");
        }
        if update_after_eval {
            obs.class("update_temperature after evaluation");
        }
        if higher_first || clone_after_eval || update_after_eval {
            obs.nontrivial();
        }
        obs.class(format!("len<={}", ((case.ops.len() + 9) / 10) * 10));
    } else {
        // real threads sharing one state: every thread runs the Eval ops assigned to it
        let k = case.threads.clamp(2, 16);
        obs.class(format!("threads={k}"));
        let evals: Vec<(usize, usize, usize)> = case
            .ops
            .iter()
            .filter_map(|o| match o {
                Op::Eval { h, g, aux } => Some((*h, *g, *aux)),
                _ => None,
            })
            .collect();
        let refs: Vec<Option<Ref>> = evals.iter().map(|(_, g, aux)| reference(*g, *aux)).collect();
        let reps = 5;
        for rep in 0..reps {
            let shared = Arc::new(fresh(&sys).unwrap());
            let barrier = Arc::new(Barrier::new(k));
            let results: Vec<Vec<(usize, Option<Vec<f64>>)>> = std::thread::scope(|scope| {
                let hs: Vec<_> = (0..k)
                    .map(|tid| {
                        let shared = shared.clone();
                        let barrier = barrier.clone();
                        let evals = &evals;
                        let (mw, tr) = (sys.has_mw, sys.has_transport);
                        scope.spawn(move || {
                            barrier.wait();
                            let mut out = vec![];
                            for (idx, (h, g, aux)) in evals.iter().enumerate() {
                                if h % k == tid {
                                    out.push((idx, eval(&shared, *g, *aux, mw, tr)));
                                }
                            }
                            out
                        })
                    })
                    .collect();
                hs.into_iter().map(|h| h.join().unwrap_or_default()).collect()
            });
            for (idx, got) in results.into_iter().flatten() {
                if let (Some(got), Some(r)) = (got, &refs[idx]) {
                    compare(obs, &format!("threaded rep {rep} getter {} aux {}", evals[idx].1, evals[idx].2), &got, r);
                }
            }
        }
        if evals.len() >= 2 * k {
            obs.nontrivial();
        }
    }
}

// ---------------------------------------------------------------------------------------
fn fixed_systems() -> Vec<(ModelSpec, StateSpec)> {
    let find = |file: &str, name: &str| -> Value {
        POOLS
            .pcsaft
            .iter()
            .find(|(f, _)| *f == file)
            .unwrap()
            .1
            .iter()
            .find(|r| r["identifier"]["name"].as_str() == Some(name))
            .unwrap_or_else(|| panic!("record {name} in {file}"))
            .clone()
    };
    let mk = |family: Family, pure: Vec<Value>, binary: Vec<(usize, usize, Value)>, seg: Option<(String, Option<String>)>, source: &str| ModelSpec {
        family,
        pure,
        binary,
        seg,
        opts: Opts::default(),
        source: source.into(),
    };
    let st = |tau: f64, f_eta: f64, x: Vec<f64>| StateSpec {
        tau,
        f_eta,
        x,
        lambda: 1.7,
        no_t_floor: false,
    };
    let gc = |name: &str| -> Value {
        POOLS
            .gc_substances
            .iter()
            .find(|r| r["identifier"]["name"].as_str() == Some(name))
            .unwrap()
            .clone()
    };
    vec![
        // cross-associating binary (iterative association solver), liquid-like
        (
            mk(Family::PcSaft, vec![find("gross2002.json", "methanol"), find("gross2002.json", "1-propanol")], vec![(0, 1, json!({"k_ij": 0.02}))], None, "fixed:methanol/1-propanol"),
            st(0.7, 0.75, vec![0.3, 0.7]),
        ),
        // polar binary, gas-like
        (
            mk(Family::PcSaft, vec![find("gross2006.json", "acetone"), find("gross2005_fit.json", "carbon dioxide")], vec![(0, 1, json!({"k_ij": -0.03}))], None, "fixed:acetone/co2"),
            st(1.1, 0.15, vec![0.6, 0.4]),
        ),
        // cubic
        (
            mk(
                Family::PengRobinson,
                vec![
                    json!({"identifier": {"name": "a"}, "molarweight": 44.0, "model_record": {"tc": 369.8, "pc": 4.25e6, "acentric_factor": 0.153}}),
                    json!({"identifier": {"name": "b"}, "molarweight": 58.0, "model_record": {"tc": 425.2, "pc": 3.8e6, "acentric_factor": 0.199}}),
                ],
                vec![(0, 1, json!(0.01))],
                None,
                "fixed:PR propane/butane",
            ),
            st(0.8, 0.7, vec![0.45, 0.55]),
        ),
        // heterosegmented GC model with association
        (
            mk(Family::GcPcSaft, vec![gc("propane"), gc("ethanol")], vec![], Some(("sauer2014_hetero.json".into(), None)), "fixed:gc propane/ethanol"),
            st(0.75, 0.7, vec![0.5, 0.5]),
        ),
        // pure substance with entropy-scaling coefficients (transport getters)
        (
            mk(Family::PcSaft, vec![transport_record()], vec![], None, "fixed:transport"),
            st(0.8, 0.7, vec![1.0]),
        ),
    ]
}

fn transport_record() -> Value {
    // first loetgeringlin2018 record, completed with diffusion / thermal conductivity coefficients
    let mut r = POOLS.pcsaft.iter().find(|(f, _)| *f == "loetgeringlin2018.json").unwrap().1[0].clone();
    r["model_record"]["diffusion"] = json!([-0.2, -0.4, -0.01, 0.001, 0.0]);
    r["model_record"]["thermal_conductivity"] = json!([-0.1, 0.5, -0.2, 0.01]);
    r
}

fn lattice_cases(maxlen: usize) -> Vec<Case> {
    let mut out = vec![];
    for (spec, state) in fixed_systems() {
        let n = spec.n();
        let ig: Vec<usize> = (0..n).map(|i| 3 + 7 * i).collect();
        let mut seqs: Vec<Vec<usize>> = vec![vec![]];
        let mut all: Vec<Vec<usize>> = vec![];
        for _ in 0..maxlen {
            let mut next = vec![];
            for s in &seqs {
                for g in ATOMIC {
                    let mut t = s.clone();
                    t.push(g);
                    next.push(t);
                }
            }
            all.extend(next.iter().cloned());
            seqs = next;
        }
        for seq in all {
            out.push(Case {
                spec: spec.clone(),
                state: state.clone(),
                ig: ig.clone(),
                ops: seq.iter().map(|g| Op::Eval { h: 0, g: *g, aux: 0 }).collect(),
                threads: 0,
            });
        }
    }
    out
}

fn gen_ops(g: &mut Gen, maxlen: usize, with_clone: bool) -> Vec<Op> {
    let len = 1 + g.index(maxlen);
    (0..len)
        .map(|_| {
            if with_clone && g.bool(0.15) {
                Op::CloneTo {
                    src: g.index(3),
                    dst: g.index(3),
                }
            } else if with_clone && g.bool(0.08) {
                Op::UpdateT {
                    src: g.index(3),
                    dst: g.index(3),
                    factor: g.range(0.9, 1.15),
                }
            } else {
                // half of the evaluations use the atomic getters (pure cache-key traffic)
                let gi = if g.bool(0.5) { g.index(N_GETTERS) } else { ATOMIC[g.index(12)] };
                Op::Eval {
                    h: g.index(3),
                    g: gi,
                    aux: g.index(6),
                }
            }
        })
        .collect()
}

fn gen_sys(g: &mut Gen) -> (ModelSpec, StateSpec, Vec<usize>) {
    // half fixed systems (well-conditioned, asymmetric), half the whole zoo
    let (spec, mut state) = if g.bool(0.5) {
        let spec = gen_model(g, &GenCfg::all(3));
        let st = gen_state(g, spec.n());
        (spec, st)
    } else {
        let f = fixed_systems();
        let (spec, mut st) = f[g.index(f.len())].clone();
        st.tau = g.range(0.6, 1.5);
        st.f_eta = g.range(0.05, 0.8);
        (spec, st)
    };
    // keep away from the dilute end: there the residual Helmholtz energy of the chain
    // functionals is a 1e-7 remainder of cancelling contributions (1 ulp of those = 1e-9 of A),
    // and getters are compared with rtol 1e-9. The cache mechanism does not depend on the state.
    state.f_eta = state.f_eta.max(0.02);
    // a component that is present in the model with exactly zero moles (the iterative association
    // solver, the ideal-gas term and several getters have special branches for it)
    let zero_ok = spec.n() >= 2 && !(spec.family == Family::EPcSaft && spec.source.starts_with("shipped"));
    if zero_ok && g.bool(0.15) {
        let k = g.index(spec.n());
        state.x[k] = 0.0;
        let sum: f64 = state.x.iter().sum();
        state.x.iter_mut().for_each(|v| *v /= sum);
    }
    let ig = (0..spec.n()).map(|_| g.index(POOLS.dippr.len())).collect();
    (spec, state, ig)
}

pub fn decode_history(g: &mut Gen) -> Case {
    let (spec, state, ig) = gen_sys(g);
    Case {
        spec,
        state,
        ig,
        ops: gen_ops(g, 50, true),
        threads: 0,
    }
}

pub fn decode_threads(g: &mut Gen) -> Case {
    let (spec, state, ig) = gen_sys(g);
    let threads = 2 + g.index(15);
    Case {
        spec,
        state,
        ig,
        ops: gen_ops(g, 50, false),
        threads,
    }
}

// ---------------------------------------------------------------------------------------
// par_pure vs pure
#[derive(Serialize, Deserialize, Clone, Debug)]
pub struct ParCase {
    pub file: usize,
    pub record: usize,
    pub tmin_red: f64,
    pub npoints: usize,
    pub chunksize: usize,
    pub threads: Vec<usize>,
    /// solver option max_iter (None = default); small values make single points fail
    #[serde(default)]
    pub max_iter: Option<usize>,
}

pub fn decode_par(g: &mut Gen) -> ParCase {
    // Gross-Sadowski collections (non-associating, associating, polar): C04's success domain
    let file = g.index(5);
    let record = g.index(POOLS.pcsaft[file].1.len());
    let npoints = 3 + g.index(198);
    let chunksize = 1 + g.index(npoints);
    let pool = [1usize, 2, 3, 4, 8, 16];
    let t1 = pool[g.index(6)];
    let t2 = pool[g.index(6)];
    let tmin_red = g.range(0.45, 0.9);
    // a tight iteration limit makes single grid temperatures fail: the sequential diagram skips
    // exactly the failing points. (Temperatures below 0.45 T_c are not used: outside the solver's
    // success domain the pure models have several liquid-like roots and the converged state
    // legitimately depends on the continuation.)
    let max_iter = if g.bool(0.3) { Some(2 + g.index(6)) } else { None };
    ParCase {
        file,
        record,
        tmin_red,
        npoints,
        chunksize,
        threads: vec![t1, t2],
        max_iter,
    }
}

pub fn check_par(case: &ParCase, obs: &mut Obs) {
    let rec = POOLS.pcsaft[case.file].1[case.record].clone();
    let spec = ModelSpec {
        family: Family::PcSaft,
        pure: vec![rec],
        binary: vec![],
        seg: None,
        opts: Opts::default(),
        source: format!("shipped:{}", POOLS.pcsaft[case.file].0),
    };
    obs.class(spec.source.clone());
    let Ok(model) = spec.build() else {
        obs.discard("build");
        return;
    };
    let tc = pure_tc(&spec, &model, 0);
    let tmin = case.tmin_red * tc * KELVIN;
    let options = match case.max_iter {
        Some(k) => SolverOptions::default().max_iter(k),
        None => SolverOptions::default(),
    };
    if case.max_iter.is_some() {
        obs.class("small max_iter");
    }
    if case.tmin_red < 0.45 {
        obs.class("T_min below the success domain");
    }
    let seq = match PhaseDiagram::pure(&model, tmin, case.npoints, None, options) {
        Ok(d) => d,
        Err(e) => {
            obs.discard(format!("sequential diagram failed: {e}"));
            return;
        }
    };
    let sig = |d: &PhaseDiagram<Model, 2>| -> Vec<[f64; 4]> {
        d.states
            .iter()
            .map(|s| {
                [
                    s.vapor().temperature.to_reduced(),
                    s.vapor().density.to_reduced(),
                    s.liquid().density.to_reduced(),
                    s.vapor().pressure(Contributions::Total).to_reduced(),
                ]
            })
            .collect()
    };
    let a = sig(&seq);
    let mut pars = vec![];
    for &k in &case.threads {
        let pool = rayon::ThreadPoolBuilder::new().num_threads(k).build().unwrap();
        match PhaseDiagram::par_pure(&model, tmin, case.npoints, case.chunksize, pool, None, options) {
            Ok(d) => pars.push((k, sig(&d))),
            Err(e) => {
                obs.fail(format!("par_pure failed where pure succeeded: {e}"));
                return;
            }
        }
    }
    // Reference model of the documented algorithm: the temperature grid is cut into chunks of
    // `chunksize`; inside a chunk every point is solved with the previous point of the chunk as
    // initial state and a failing point is skipped (exactly what `pure` does on the whole grid).
    let expected: Option<Vec<[f64; 4]>> = (|| {
        let sc = State::critical_point(&model, None, None, SolverOptions::default()).ok()?;
        let t0 = tmin.to_reduced();
        let tmax = t0 + (sc.temperature.to_reduced() - t0) * ((case.npoints - 2) as f64 / (case.npoints - 1) as f64);
        // same expression as the library (quantities in K): min + (Tc - min) * (n-2)/(n-1)
        let tmax_q = tmin + (sc.temperature - tmin) * ((case.npoints - 2) as f64 / (case.npoints - 1) as f64);
        let _ = tmax;
        let grid = ndarray::Array1::linspace(t0, tmax_q.to_reduced(), case.npoints - 1);
        let mut out = vec![];
        for chunk in grid.to_vec().chunks(case.chunksize) {
            let mut vle: Option<feos::core::PhaseEquilibrium<Model, 2>> = None;
            for &ti in chunk {
                vle = feos::core::PhaseEquilibrium::pure(&model, Temperature::from_reduced(ti), vle.as_ref(), options).ok();
                if let Some(v) = vle.as_ref() {
                    out.push([
                        v.vapor().temperature.to_reduced(),
                        v.vapor().density.to_reduced(),
                        v.liquid().density.to_reduced(),
                        v.vapor().pressure(Contributions::Total).to_reduced(),
                    ]);
                }
            }
        }
        out.push([
            sc.temperature.to_reduced(),
            sc.density.to_reduced(),
            sc.density.to_reduced(),
            sc.pressure(Contributions::Total).to_reduced(),
        ]);
        Some(out)
    })();
    let some_point_failed = a.len() < case.npoints || pars.iter().any(|(_, b)| b.len() < case.npoints);
    for (k, b) in &pars {
        obs.count();
        // (i) against the chunk-wise reference model: always, exactly
        if let Some(e) = &expected {
            if e.len() != b.len() {
                obs.fail(format!(
                    "par_pure({k} threads, chunksize {}) returns {} states, the chunk-wise reference model (skip only the failing points) gives {}",
                    case.chunksize,
                    b.len(),
                    e.len()
                ));
            } else {
                for (idx, (u, v)) in e.iter().zip(b).enumerate() {
                    for q in 0..4 {
                        obs.close(&format!("par_pure vs chunk-wise model [{idx}][{q}] ({k} threads)"), u[q], v[q], 1e-12, 0.0);
                    }
                }
            }
        }
        // (ii) against the sequential diagram: the property itself
        let mut o = Obs::default();
        if b.len() != a.len() {
            o.fail(format!("par_pure({k} threads, chunksize {}) returns {} states, pure returns {}", case.chunksize, b.len(), a.len()));
        } else {
            for (idx, (u, v)) in a.iter().zip(b).enumerate() {
                // same temperatures in the same order; densities and pressure to solver tolerance
                o.close(&format!("T[{idx}] ({k} threads)"), u[0], v[0], 1e-13, 0.0);
                o.close(&format!("rho_v[{idx}] ({k} threads)"), u[1], v[1], 1e-8, 0.0);
                o.close(&format!("rho_l[{idx}] ({k} threads)"), u[2], v[2], 1e-8, 0.0);
                o.close(&format!("p[{idx}] ({k} threads)"), u[3], v[3], 1e-8, 0.0);
            }
        }
        obs.comparisons += o.comparisons;
        for f in o.fails {
            if some_point_failed {
                // continuation across chunk boundaries decides which points can be solved at all
                obs.known_or_fail("C11/par-pure-differs-from-pure-when-points-fail", f);
            } else {
                obs.fail(f);
            }
        }
    }
    if pars.len() == 2 && pars[0].1.len() == pars[1].1.len() {
        // same chunksize, different pool sizes: identical work per chunk => identical numbers
        for (idx, (u, v)) in pars[0].1.iter().zip(&pars[1].1).enumerate() {
            for q in 0..4 {
                obs.close(&format!("pool-size independence [{idx}][{q}]"), u[q], v[q], 1e-13, 0.0);
            }
        }
    }
    if a.len() == case.npoints {
        obs.class("all points converged");
    } else {
        obs.class("sequential diagram skipped failing points");
    }
    if case.chunksize < case.npoints - 1 && case.threads.iter().any(|&k| k > 1) {
        obs.nontrivial();
        obs.class("multi-chunk");
    }
}

const HIST: PartCfg = PartCfg {
    name: "history",
    genome_len: 260,
    cases_quick: 16000,
    cases_thorough: 600_000,
    panic: PanicPolicy::Count,
};
const THREADS: PartCfg = PartCfg {
    name: "threads",
    genome_len: 260,
    cases_quick: 192,
    cases_thorough: 20_000,
    panic: PanicPolicy::Count,
};
const PAR: PartCfg = PartCfg {
    name: "par_pure",
    genome_len: 12,
    cases_quick: 600,
    cases_thorough: 20_000,
    panic: PanicPolicy::Count,
};

pub fn run(ctx: &Ctx) {
    ctx.set_rule("lattice: EXHAUSTIVE enumeration of all sequences of the 12 atomic getters (one per cache-key class: Zeroth, First(DV|DT|DN), Second(DV|DT), Mixed(DV,DT|DV,DN|DT,DN|DN,DN), Third(DV|DT)) up to length 2 (quick) / 3 (thorough) on 5 fixed systems (cross-associating, polar, cubic, group-contribution, transport). history: proptest-generated operation sequences (length 1-50) over 66 getters x selector/index arguments and clone / update_temperature operations on 3 state handles, on fixed systems and the whole model zoo. threads: the same sequences distributed over 2-16 real threads sharing one state (barrier start, 5 repetitions). par_pure: (record of the Gross-Sadowski PC-SAFT collections, T_min/T_c, npoints in [3,200], chunksize in [1,npoints], two pool sizes from {1,2,3,4,8,16}). Oracle: each returned value equals the value of the same getter on its own fresh state (rtol 1e-9 of the largest component plus 100x the change of the getter under a 1e-11 relative volume perturbation, which measures its conditioning). Non-trivial: a higher-order cache key evaluated before a lower-order one it produces as by-product, or a clone / update_temperature after an evaluation; threads: at least 2 evaluations per thread; par_pure: more than one chunk on more than one thread.");
    ctx.assume("by-products cached from different dual-number types differ at 2e-16; composite getters amplify this, hence rtol 1e-9 (a mis-keyed or stale entry gives O(1) errors); states with f_eta < 0.02 are not used here (cancellation between contributions makes A_res itself only 1e-9 accurate there)");
    ctx.assume("thread schedules: lookup+compute happen under one Mutex lock, so any concurrent execution is equivalent to an interleaving of whole getter calls; real-thread runs are a stress supplement, not an enumeration of interleavings");
    ctx.assume("par_pure vs pure: chunks restart without the previous point's guess, so densities/pressures are compared to 1e-8 (solver tolerance), temperatures and pool-size independence to 1e-13");
    let maxlen = ctx.pick(2, 3);
    ctx.run_lattice("lattice", lattice_cases(maxlen), PanicPolicy::Count, true, &check);
    ctx.run_sampled(&HIST, &decode_history, &check);
    ctx.run_sampled(&THREADS, &decode_threads, &check);
    ctx.run_sampled(&PAR, &decode_par, &check_par);
    ctx.assume("atomic getters (one cache entry each: A_res, p_res, S_res, mu_res, dp/dV, dS/dT, dp/dT, dp/dN, dmu/dT, dmu/dN, d2p/dV2, d2S/dT2) of models without an association term are compared with 1e-11 of the contribution-wise absolute sum of that derivative of A (plus 1 % of the perturbation response): the real part of every dual-number evaluation must be the f64 evaluation up to roundoff");
    ctx.extra("worst_atomic_deviation_over_tolerance", json!(*WORST_ATOMIC.lock().unwrap()));
}

pub fn replay(ctx: &Ctx, part: &str, case: &Value) -> bool {
    match part {
        "par_pure" => ctx.replay_case::<ParCase>(case, &check_par),
        _ => ctx.replay_case::<Case>(case, &check),
    }
}
