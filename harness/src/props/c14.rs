//! C14 — parameter construction is order-independent and faithful to its records.
//!
//! Parts: `files` (synthetic JSON files, sampled), `files-exhaustive` (every ordered subset up
//! to size 4 of a 5-record file, lattice), `shipped` (random ordered queries against the shipped
//! files), `gc` (group contribution combining rules), `serde` (record round trips).
use crate::engine::{verif_root, Ctx, Gen, Obs, PanicPolicy, PartCfg};
use crate::model::params_dir;
use feos::core::cubic::{PengRobinson, PengRobinsonParameters};
use feos::core::parameter::{
    BinaryRecord, ChemicalRecord, Identifier, IdentifierOption, Parameter, ParameterError,
    ParameterHetero, PureRecord, SegmentRecord,
};
use feos::core::{Contributions, IdealGas, ReferenceSystem, Residual, State};
use feos::epcsaft::{ElectrolytePcSaft, ElectrolytePcSaftParameters};
use feos::gc_pcsaft::{
    GcPcSaft, GcPcSaftEosParameters, GcPcSaftFunctional, GcPcSaftFunctionalParameters,
    GcPcSaftRecord,
};
use feos::ideal_gas::{Dippr, Joback, JobackRecord};
use feos::pcsaft::{PcSaft, PcSaftParameters, PcSaftRecord};
use feos::pets::{Pets, PetsParameters};
use feos::saftvrmie::{SaftVRMie, SaftVRMieParameters};
use feos::saftvrqmie::{SaftVRQMie, SaftVRQMieParameters};
use feos::uvtheory::{UVTheory, UVTheoryParameters};
use feos::ResidualModel;
use ndarray::{Array1, Array2};
use quantity::*;
use serde::de::DeserializeOwned;
use serde::{Deserialize, Serialize};
use serde_json::{json, Value};
use std::collections::hash_map::DefaultHasher;
use std::collections::{BTreeMap, HashMap};
use std::hash::{Hash, Hasher};
use std::path::{Path, PathBuf};
use std::sync::{Arc, LazyLock, Mutex};

// ---------------------------------------------------------------------------------------
// common
// ---------------------------------------------------------------------------------------
pub const KINDS: [&str; 6] = ["cas", "name", "iupac_name", "smiles", "inchi", "formula"];

fn opt_of(kind: &str) -> IdentifierOption {
    match kind {
        "cas" => IdentifierOption::Cas,
        "name" => IdentifierOption::Name,
        "iupac_name" => IdentifierOption::IupacName,
        "smiles" => IdentifierOption::Smiles,
        "inchi" => IdentifierOption::Inchi,
        _ => IdentifierOption::Formula,
    }
}

#[derive(Serialize, Deserialize, Clone, Copy, Debug, PartialEq, Eq, Hash)]
pub enum Fam {
    PcSaft,
    EPcSaft,
    VrMie,
    Vrq,
    Pets,
    Uv,
    Joback,
    Dippr,
}
pub const FAMS: [Fam; 8] = [Fam::PcSaft, Fam::EPcSaft, Fam::VrMie, Fam::Vrq, Fam::Pets, Fam::Uv, Fam::Joback, Fam::Dippr];

/// a state at which model behaviour is compared: T in K, fraction of the maximum density,
/// unnormalised composition weights (first n used)
#[derive(Serialize, Deserialize, Clone, Debug)]
pub struct Probe {
    pub t: f64,
    pub f_eta: f64,
    pub x: Vec<f64>,
}

fn gen_probes(g: &mut Gen, cold: bool) -> Vec<Probe> {
    (0..3)
        .map(|_| Probe {
            t: if cold { r6(g.range(20.0, 120.0)) } else { r6(g.range(250.0, 600.0)) },
            f_eta: r6(g.log_range(1e-3, 0.8)),
            x: (0..4).map(|_| r6(g.range(0.05, 1.0))).collect(),
        })
        .collect()
}

/// round to 6 significant digits (decimal strings of that length are parsed exactly)
fn r6(x: f64) -> f64 {
    format!("{x:.5e}").parse().unwrap()
}

/// Per-case scratch files under $VERIF_ROOT/work/c14-p<pid>/, every file name prefixed with the
/// hash of the case and the thread id; the files are removed when the case ends (Drop), the
/// directory when the run / replay ends. (One directory per case was measured at 3.6 ms per
/// `rmdir` on the CI file system - 80 % of the wall time - whereas unlinking files is free.)
fn scratch_root() -> PathBuf {
    verif_root().join("work").join(format!("c14-p{}", std::process::id()))
}
fn remove_scratch_root() {
    let _ = std::fs::remove_dir(scratch_root());
}
struct WorkDir {
    prefix: String,
    files: std::cell::RefCell<Vec<PathBuf>>,
}
impl WorkDir {
    fn new<C: Serialize>(case: &C) -> Self {
        let mut h = DefaultHasher::new();
        serde_json::to_string(case).unwrap_or_default().hash(&mut h);
        let tid: String = format!("{:?}", std::thread::current().id()).chars().filter(|c| c.is_ascii_digit()).collect();
        WorkDir { prefix: format!("{:016x}-t{tid}", h.finish()), files: Default::default() }
    }
    /// write a JSON array; return the path and the values as the library will read them
    fn write(&self, name: &str, recs: &[Value]) -> (PathBuf, Vec<Value>) {
        let p = scratch_root().join(format!("{}-{name}", self.prefix));
        let text = serde_json::to_string_pretty(recs).unwrap();
        let mut res = Ok(());
        for _ in 0..3 {
            let _ = std::fs::create_dir_all(scratch_root());
            res = std::fs::write(&p, &text);
            if res.is_ok() {
                break;
            }
        }
        res.expect("write scratch file");
        self.files.borrow_mut().push(p.clone());
        (p, serde_json::from_str(&text).unwrap())
    }
}
impl Drop for WorkDir {
    fn drop(&mut self) {
        for f in self.files.borrow().iter() {
            let _ = std::fs::remove_file(f);
        }
    }
}

static WORST_FP: Mutex<f64> = Mutex::new(0.0);
static WORST_GC: Mutex<f64> = Mutex::new(0.0);
static WORST_GC_FP: Mutex<f64> = Mutex::new(0.0);
static WORST_GC_FP_ASSOC: Mutex<f64> = Mutex::new(0.0);
fn track(m: &Mutex<f64>, v: f64) {
    let mut g = m.lock().unwrap();
    if v.is_finite() && v > *g {
        *g = v;
    }
}

/// behaviour fingerprint of a residual model at the probes
fn fp_residual(model: ResidualModel, n: usize, probes: &[Probe]) -> Vec<f64> {
    let eos = Arc::new(model);
    let mut out = vec![];
    for pr in probes {
        let w: Vec<f64> = pr.x.iter().cycle().take(n).copied().collect();
        let s: f64 = w.iter().sum();
        let moles = Array1::from_vec(w.iter().map(|v| v / s).collect()) * MOL;
        let Ok(rho_max) = eos.max_density(Some(&moles)) else {
            out.push(f64::NAN);
            continue;
        };
        let v = moles.sum() / (pr.f_eta * rho_max);
        match State::new_nvt(&eos, pr.t * KELVIN, v, &moles) {
            Ok(st) => {
                out.push(st.residual_molar_helmholtz_energy().to_reduced());
                out.push(st.pressure(Contributions::Total).to_reduced());
                out.extend(st.residual_chemical_potential().to_reduced().iter());
            }
            Err(_) => out.push(f64::NAN),
        }
    }
    out
}

fn fp_ideal<I: IdealGas>(ig: &I, probes: &[Probe]) -> Vec<f64> {
    let mut out = vec![];
    for pr in probes {
        out.extend(ig.ln_lambda3(pr.t).iter());
        out.extend(ig.ln_lambda3(2.0 * pr.t).iter());
    }
    out
}

/// compare two fingerprints; `tol` relative to the larger of the pair and of 1e-3 x the
/// largest entry (entries that cancel to ~0)
fn cmp_fp(obs: &mut Obs, what: &str, a: &[f64], b: &[f64], tol: f64, worst: &Mutex<f64>) {
    obs.count();
    if a.len() != b.len() {
        obs.fail(format!("{what}: fingerprints have different length {} vs {}", a.len(), b.len()));
        return;
    }
    let big = a.iter().chain(b).filter(|v| v.is_finite()).fold(0.0f64, |m, v| m.max(v.abs()));
    for (k, (u, v)) in a.iter().zip(b).enumerate() {
        // unphysical generated molecules (e.g. group tables with negative m contributions) make
        // the model overflow: such entries carry no information
        let degenerate = |x: f64| !x.is_finite() || x.abs() > 1e30;
        let moderate = |x: f64| x.is_finite() && x.abs() < 1e10;
        if (degenerate(*u) && !moderate(*v)) || (degenerate(*v) && !moderate(*u)) {
            obs.class("behaviour:overflowing-model-entry-skipped");
            continue;
        }
        let sc = u.abs().max(v.abs()).max(1e-3 * big).max(1e-300);
        let d = (u - v).abs() / sc;
        track(worst, d);
        if !(d <= tol) {
            obs.fail(format!("{what}: behaviour differs at entry {k}: {u:e} vs {v:e} (rel {d:e} > {tol:e})"));
            return;
        }
    }
}

/// `cmp_fp`, routed to the ePC-SAFT ion finding when `known` (signature decided by the caller):
/// the ion self-interaction k_ii = 1 is only applied when a binary matrix is supplied
/// (src/epcsaft/parameters.rs:401-424)
fn cmp_fp_ion(obs: &mut Obs, what: &str, a: &[f64], b: &[f64], known: bool) {
    if !known {
        return cmp_fp(obs, what, a, b, TOL_FP, &WORST_FP);
    }
    let mut o2 = Obs::default();
    cmp_fp(&mut o2, what, a, b, TOL_FP, &Mutex::new(0.0));
    obs.comparisons += o2.comparisons;
    for m in o2.fails {
        obs.known_or_fail("C14/epcsaft-ion-self-kij-only-with-binary-matrix", m);
    }
}

type Fields = BTreeMap<String, Vec<f64>>;
fn flat(a: &Array2<f64>) -> Vec<f64> {
    a.iter().copied().collect()
}

/// the real parameter types behind one interface
pub trait FamP: Parameter + Sized {
    fn behaviour(self, probes: &[Probe]) -> Vec<f64>;
    fn fields(&self) -> Fields;
}

fn ncomp<P: Parameter>(p: &P) -> usize {
    p.records().0.len()
}

impl FamP for PcSaftParameters {
    fn behaviour(self, probes: &[Probe]) -> Vec<f64> {
        let n = ncomp(&self);
        fp_residual(ResidualModel::PcSaft(PcSaft::new(Arc::new(self))), n, probes)
    }
    fn fields(&self) -> Fields {
        let mut f = Fields::new();
        f.insert("molarweight".into(), self.molarweight.to_vec());
        f.insert("m".into(), self.m.to_vec());
        f.insert("sigma".into(), self.sigma.to_vec());
        f.insert("epsilon_k".into(), self.epsilon_k.to_vec());
        f.insert("mu".into(), self.mu.to_vec());
        f.insert("q".into(), self.q.to_vec());
        f.insert("k_ij".into(), flat(&(1.0 - &self.epsilon_k_ij / &self.e_k_ij)));
        f
    }
}
impl FamP for ElectrolytePcSaftParameters {
    fn behaviour(self, probes: &[Probe]) -> Vec<f64> {
        let n = ncomp(&self);
        // shipped permittivity correlations: 280-370 K
        let pr: Vec<Probe> = probes.iter().map(|p| Probe { t: 280.0 + (p.t - 250.0) / 350.0 * 90.0, ..p.clone() }).collect();
        fp_residual(ResidualModel::ElectrolytePcSaft(ElectrolytePcSaft::new(Arc::new(self))), n, &pr)
    }
    fn fields(&self) -> Fields {
        let mut f = Fields::new();
        f.insert("molarweight".into(), self.molarweight.to_vec());
        f.insert("m".into(), self.m.to_vec());
        f.insert("sigma".into(), self.sigma.to_vec());
        f.insert("epsilon_k".into(), self.epsilon_k.to_vec());
        f.insert("z".into(), self.z.to_vec());
        for k in 0..4 {
            f.insert(format!("k_ij{k}"), self.k_ij.iter().map(|v| v[k]).collect());
        }
        // permittivity of component i is the (T-sorted) record of component i
        let perm: Vec<Value> = self.permittivity.iter().map(|p| serde_json::to_value(p).unwrap()).collect();
        f.insert(
            "permittivity_points".into(),
            perm.iter().map(|p| p["ExperimentalData"]["data"].as_array().map(|a| a.len() as f64).unwrap_or(0.0)).collect(),
        );
        f.insert(
            "permittivity_sum".into(),
            perm.iter()
                .map(|p| {
                    p["ExperimentalData"]["data"]
                        .as_array()
                        .map(|a| a.iter().map(|tv| tv[0].as_f64().unwrap_or(0.0) + tv[1].as_f64().unwrap_or(0.0)).sum())
                        .unwrap_or(0.0)
                })
                .collect(),
        );
        f
    }
}
impl FamP for SaftVRMieParameters {
    fn behaviour(self, probes: &[Probe]) -> Vec<f64> {
        let n = ncomp(&self);
        fp_residual(ResidualModel::SaftVRMie(SaftVRMie::new(Arc::new(self))), n, probes)
    }
    fn fields(&self) -> Fields {
        let mut f = Fields::new();
        f.insert("molarweight".into(), self.molarweight.to_vec());
        f.insert("m".into(), self.m.to_vec());
        f.insert("sigma".into(), self.sigma.to_vec());
        f.insert("epsilon_k".into(), self.epsilon_k.to_vec());
        f.insert("lr".into(), self.lr.to_vec());
        f.insert("la".into(), self.la.to_vec());
        f.insert("k_ij".into(), flat(&(1.0 - &self.epsilon_k_ij / &self.e_k_ij)));
        let n = self.m.len();
        let g = Array2::from_shape_fn((n, n), |(i, j)| 1.0 - (self.lr_ij[(i, j)] - 3.0) / ((self.lr[i] - 3.0) * (self.lr[j] - 3.0)).sqrt());
        f.insert("gamma_ij".into(), flat(&g));
        f
    }
}
impl FamP for SaftVRQMieParameters {
    fn behaviour(self, probes: &[Probe]) -> Vec<f64> {
        let n = ncomp(&self);
        fp_residual(ResidualModel::SaftVRQMie(SaftVRQMie::new(Arc::new(self))), n, probes)
    }
    fn fields(&self) -> Fields {
        let mut f = Fields::new();
        f.insert("molarweight".into(), self.molarweight.to_vec());
        f.insert("m".into(), self.m.to_vec());
        f.insert("sigma".into(), self.sigma.to_vec());
        f.insert("epsilon_k".into(), self.epsilon_k.to_vec());
        f.insert("lr".into(), self.lr.to_vec());
        f.insert("la".into(), self.la.to_vec());
        f.insert("fh".into(), self.fh.iter().map(|&v| v as f64).collect());
        f.insert("k_ij".into(), flat(&self.k_ij));
        f.insert("l_ij".into(), flat(&self.l_ij));
        f
    }
}
impl FamP for PetsParameters {
    fn behaviour(self, probes: &[Probe]) -> Vec<f64> {
        let n = ncomp(&self);
        fp_residual(ResidualModel::Pets(Pets::new(Arc::new(self))), n, probes)
    }
    fn fields(&self) -> Fields {
        let mut f = Fields::new();
        let n = self.sigma.len();
        f.insert("molarweight".into(), self.molarweight.to_vec());
        f.insert("sigma".into(), self.sigma.to_vec());
        f.insert("epsilon_k".into(), self.epsilon_k.to_vec());
        f.insert("k_ij".into(), self.k_ij.as_ref().map(flat).unwrap_or(vec![0.0; n * n]));
        f
    }
}
impl FamP for UVTheoryParameters {
    fn behaviour(self, probes: &[Probe]) -> Vec<f64> {
        let n = ncomp(&self);
        fp_residual(ResidualModel::UVTheory(UVTheory::new(Arc::new(self))), n, probes)
    }
    fn fields(&self) -> Fields {
        let mut f = Fields::new();
        let n = self.sigma.len();
        f.insert("molarweight".into(), self.molarweight.to_vec());
        f.insert("rep".into(), self.rep.to_vec());
        f.insert("att".into(), self.att.to_vec());
        f.insert("sigma".into(), self.sigma.to_vec());
        f.insert("epsilon_k".into(), self.epsilon_k.to_vec());
        f.insert("k_ij".into(), self.k_ij.as_ref().map(flat).unwrap_or(vec![0.0; n * n]));
        f
    }
}
impl FamP for Joback {
    fn behaviour(self, probes: &[Probe]) -> Vec<f64> {
        fp_ideal(&self, probes)
    }
    fn fields(&self) -> Fields {
        Fields::new()
    }
}
impl FamP for Dippr {
    fn behaviour(self, probes: &[Probe]) -> Vec<f64> {
        fp_ideal(&self, probes)
    }
    fn fields(&self) -> Fields {
        Fields::new()
    }
}
impl FamP for PengRobinsonParameters {
    fn behaviour(self, probes: &[Probe]) -> Vec<f64> {
        let n = ncomp(&self);
        fp_residual(ResidualModel::PengRobinson(PengRobinson::new(Arc::new(self))), n, probes)
    }
    fn fields(&self) -> Fields {
        Fields::new()
    }
}

/// expected public fields from the expected records (harness side)
fn expected_fields(pure: &[Value], bin: &[Vec<Option<Value>>], keys: &Fields) -> Fields {
    let n = pure.len();
    let mut f = Fields::new();
    for k in keys.keys() {
        let v: Vec<f64> = match k.as_str() {
            "molarweight" => pure.iter().map(|r| r["molarweight"].as_f64().unwrap_or(0.0)).collect(),
            "m" | "sigma" | "epsilon_k" | "lr" | "la" | "rep" | "att" | "mu" | "q" | "z" | "fh" => {
                pure.iter().map(|r| r["model_record"][k.as_str()].as_f64().unwrap_or(0.0)).collect()
            }
            "k_ij" | "l_ij" | "gamma_ij" => (0..n * n)
                .map(|t| bin[t / n][t % n].as_ref().and_then(|b| b[k.as_str()].as_f64()).unwrap_or(0.0))
                .collect(),
            "k_ij0" | "k_ij1" | "k_ij2" | "k_ij3" => {
                let c: usize = k[4..].parse().unwrap();
                (0..n * n)
                    .map(|t| bin[t / n][t % n].as_ref().and_then(|b| b["k_ij"].get(c)).and_then(|x| x.as_f64()).unwrap_or(0.0))
                    .collect()
            }
            "permittivity_points" => pure
                .iter()
                .map(|r| r["model_record"]["permittivity_record"]["ExperimentalData"]["data"].as_array().map(|a| a.len() as f64).unwrap_or(0.0))
                .collect(),
            "permittivity_sum" => pure
                .iter()
                .map(|r| {
                    r["model_record"]["permittivity_record"]["ExperimentalData"]["data"]
                        .as_array()
                        .map(|a| a.iter().map(|tv| tv[0].as_f64().unwrap_or(0.0) + tv[1].as_f64().unwrap_or(0.0)).sum())
                        .unwrap_or(0.0)
                })
                .collect(),
            _ => continue,
        };
        f.insert(k.clone(), v);
    }
    f
}

fn err_kind(e: &ParameterError) -> &'static str {
    match e {
        ParameterError::FileIO(_) => "FileIO",
        ParameterError::Serde(_) => "Serde",
        ParameterError::ComponentsNotFound(_) => "ComponentsNotFound",
        ParameterError::IdentifierNotFound(_) => "IdentifierNotFound",
        ParameterError::InsufficientInformation => "InsufficientInformation",
        ParameterError::IncompatibleParameters(_) => "IncompatibleParameters",
    }
}

// ---------------------------------------------------------------------------------------
// reference model of from_json / from_multiple_json
// ---------------------------------------------------------------------------------------
#[derive(Debug)]
enum Expect {
    Ok {
        pure: Vec<Value>,
        /// n x n, None = documented default
        binary: Vec<Vec<Option<Value>>>,
        /// (file, position in file) of every component
        pos: Vec<(usize, usize)>,
        reversed_used: bool,
        binary_used: usize,
    },
    Dup,
    Missing,
    DupAndMissing,
    /// the queried string matches several records of a file: outside the property
    Ambiguous,
}

fn id_str(ident: &Value, kind: &str) -> Option<String> {
    ident.get(kind).and_then(|s| s.as_str()).map(|s| s.to_string())
}

fn reference(files: &[&[Value]], binary: Option<&[Value]>, query: &[(usize, Vec<String>)], kind: &str) -> Expect {
    let all: Vec<&String> = query.iter().flat_map(|(_, q)| q.iter()).collect();
    let mut dup = false;
    for (i, a) in all.iter().enumerate() {
        if all[..i].contains(a) {
            dup = true;
        }
    }
    let mut pure = vec![];
    let mut pos = vec![];
    let mut missing = false;
    let mut ambiguous = false;
    for (f, qs) in query {
        // duplicates inside one list are rejected before the file is read
        for q in qs {
            let hits: Vec<usize> = files[*f]
                .iter()
                .enumerate()
                .filter(|(_, r)| id_str(&r["identifier"], kind).as_deref() == Some(q.as_str()))
                .map(|(i, _)| i)
                .collect();
            match hits.len() {
                0 => missing = true,
                1 => {
                    pure.push(files[*f][hits[0]].clone());
                    pos.push((*f, hits[0]));
                }
                _ => ambiguous = true,
            }
        }
    }
    match (dup, missing) {
        (true, true) => return Expect::DupAndMissing,
        (true, false) => return Expect::Dup,
        (false, true) => return Expect::Missing,
        _ => {}
    }
    if ambiguous {
        return Expect::Ambiguous;
    }
    let n = pure.len();
    let mut bm = vec![vec![None; n]; n];
    let mut reversed_used = false;
    let mut binary_used = 0;
    if let Some(b) = binary {
        for i in 0..n {
            for j in 0..n {
                let (a, c) = (id_str(&pure[i]["identifier"], kind), id_str(&pure[j]["identifier"], kind));
                let mut hit: Vec<(bool, &Value)> = vec![];
                for r in b {
                    let (r1, r2) = (id_str(&r["id1"], kind), id_str(&r["id2"], kind));
                    if r1.is_none() || r2.is_none() {
                        continue;
                    }
                    if r1 == a && r2 == c {
                        hit.push((false, &r["model_record"]));
                    } else if r1 == c && r2 == a {
                        hit.push((true, &r["model_record"]));
                    }
                }
                if hit.len() > 1 && hit.iter().any(|h| h.1 != hit[0].1) {
                    return Expect::Ambiguous;
                }
                if let Some((rev, v)) = hit.first() {
                    bm[i][j] = Some((*v).clone());
                    if i < j {
                        binary_used += 1;
                        if *rev {
                            reversed_used = true;
                        }
                    }
                }
            }
        }
    }
    Expect::Ok { pure, binary: bm, pos, reversed_used, binary_used }
}

fn norm<T: DeserializeOwned + Serialize>(v: &Value) -> Result<Value, String> {
    let t: T = serde_json::from_value(v.clone()).map_err(|e| format!("harness record does not parse: {e}: {v}"))?;
    serde_json::to_value(&t).map_err(|e| e.to_string())
}

fn call_route<P: FamP>(paths: &[PathBuf], bpath: Option<&PathBuf>, query: &[(usize, Vec<String>)], opt: IdentifierOption) -> Result<P, ParameterError> {
    if query.len() == 1 {
        let q: Vec<&str> = query[0].1.iter().map(|s| s.as_str()).collect();
        P::from_json(q, paths[query[0].0].clone(), bpath.cloned(), opt)
    } else {
        let input: Vec<(Vec<&str>, PathBuf)> = query.iter().map(|(f, q)| (q.iter().map(|s| s.as_str()).collect(), paths[*f].clone())).collect();
        P::from_multiple_json(&input, bpath.cloned(), opt)
    }
}

/// compare the records retained by `p` with the expectation
fn cmp_records<P: FamP>(obs: &mut Obs, what: &str, p: &P, pure: &[Value], bin: &[Vec<Option<Value>>], kind: Option<(&str, &[String])>) -> bool
where
    P::Pure: Serialize,
    P::Binary: Serialize,
{
    let (pr, br) = p.records();
    obs.count();
    if pr.len() != pure.len() {
        obs.fail(format!("{what}: {} components built for {} queried", pr.len(), pure.len()));
        return false;
    }
    let mut ok = true;
    for (i, (got, exp)) in pr.iter().zip(pure).enumerate() {
        obs.count();
        let got = serde_json::to_value(got).unwrap();
        let exp = match norm::<PureRecord<P::Pure>>(exp) {
            Ok(v) => v,
            Err(e) => {
                obs.fail(e);
                return false;
            }
        };
        if got != exp {
            obs.fail(format!("{what}: component {i} is not the queried record: got {got} expected {exp}"));
            ok = false;
        }
        if let Some((k, q)) = kind {
            if id_str(&got["identifier"], k).as_deref() != Some(q[i].as_str()) {
                obs.fail(format!("{what}: component {i} carries {k} = {:?}, queried '{}'", got["identifier"].get(k), q[i]));
                ok = false;
            }
        }
    }
    let n = pure.len();
    let default = serde_json::to_value(P::Binary::default()).unwrap();
    for i in 0..n {
        for j in 0..n {
            obs.count();
            let exp = match &bin[i][j] {
                Some(v) => match norm::<P::Binary>(v) {
                    Ok(v) => v,
                    Err(e) => {
                        obs.fail(e);
                        return false;
                    }
                },
                None => default.clone(),
            };
            let got = match br {
                Some(b) => serde_json::to_value(&b[(i, j)]).unwrap(),
                None => default.clone(),
            };
            if got != exp {
                obs.fail(format!("{what}: binary record ({i},{j}) = {got}, expected {exp} ({})", if bin[i][j].is_some() { "stored in the binary file" } else { "documented default" }));
                ok = false;
            }
        }
    }
    ok
}

fn typed_inputs<P: FamP>(pure: &[Value], bin: &[Vec<Option<Value>>]) -> Result<(Vec<PureRecord<P::Pure>>, Array2<P::Binary>), String> {
    let pr: Vec<PureRecord<P::Pure>> = pure
        .iter()
        .map(|v| serde_json::from_value(v.clone()).map_err(|e| format!("harness record does not parse: {e}")))
        .collect::<Result<_, _>>()?;
    let n = pure.len();
    let mut m = Array2::from_elem((n, n), P::Binary::default());
    for i in 0..n {
        for j in 0..n {
            if let Some(v) = &bin[i][j] {
                m[(i, j)] = serde_json::from_value(v.clone()).map_err(|e| format!("harness binary record does not parse: {e}"))?;
            }
        }
    }
    Ok((pr, m))
}

const TOL_FP: f64 = 1e-13;

/// known finding: ePC-SAFT writes the sorted permittivity data of the k-th record *that has
/// one* into slot k (src/epcsaft/parameters.rs: `.filter(is_some).enumerate()`), so a component
/// without permittivity record that precedes one with a record receives the other's data.
fn epcsaft_permittivity_signature(pure: &[Value]) -> bool {
    let has: Vec<bool> = pure.iter().map(|r| r["model_record"].get("permittivity_record").is_some()).collect();
    // some record with data is preceded by a record without
    has.iter().enumerate().any(|(i, &h)| h && has[..i].iter().any(|&x| !x))
}

/// Everything that is asserted about one successful construction.
#[allow(clippy::too_many_arguments)]
fn check_built<P: FamP>(obs: &mut Obs, fam: Fam, what: &str, p: P, pure: &[Value], bin: &[Vec<Option<Value>>], kind: Option<(&str, &[String])>, subset: &[usize], probes: &[Probe]) -> Option<Vec<f64>>
where
    P::Pure: Serialize,
    P::Binary: Serialize,
{
    if !cmp_records(obs, what, &p, pure, bin, kind) {
        return None;
    }
    // public fields are the records' numbers
    let got = p.fields();
    let mut exp = expected_fields(pure, bin, &got);
    let br_is_some = p.records().1.is_some();
    if fam == Fam::EPcSaft {
        // model logic, not record fidelity: like-charged self interaction is switched off
        // (k_ii = [1,0,0,0]) for ions
        let n = pure.len();
        for i in 0..n {
            if pure[i]["model_record"]["z"].as_f64().unwrap_or(0.0) != 0.0 {
                for c in 0..4 {
                    let key = format!("k_ij{c}");
                    if let (Some(e), Some(g)) = (exp.get_mut(&key), got.get(&key)) {
                        e[i * n + i] = g[i * n + i];
                    }
                }
            }
        }
    }
    for (k, g) in &got {
        let Some(e) = exp.get(k) else { continue };
        obs.count();
        let bad = g.len() != e.len() || g.iter().zip(e).any(|(a, b)| !((a - b).abs() <= 1e-13 * a.abs().max(b.abs()) + 1e-13));
        if bad {
            let msg = format!("{what}: public field `{k}` = {g:?}, records say {e:?}");
            if fam == Fam::EPcSaft && k.starts_with("permittivity") && epcsaft_permittivity_signature(pure) {
                obs.known_or_fail("C14/epcsaft-permittivity-slot", msg);
            } else {
                obs.fail(msg);
            }
        }
    }
    let n = pure.len();
    // reference: from_records with the harness-built inputs
    let (tp, tb) = match typed_inputs::<P>(pure, bin) {
        Ok(x) => x,
        Err(e) => {
            obs.fail(e);
            return None;
        }
    };
    let all_default = bin.iter().all(|r| r.iter().all(|b| b.is_none()));
    let reference = match P::from_records(tp.clone(), Some(tb.clone())) {
        Ok(r) => r,
        Err(e) => {
            obs.fail(format!("{what}: from_records of the expected records fails: {e}"));
            return None;
        }
    };
    // subset before the parameters are consumed
    if !subset.is_empty() {
        let sub = p.subset(subset);
        let spure: Vec<Value> = subset.iter().map(|&i| pure[i].clone()).collect();
        let sbin: Vec<Vec<Option<Value>>> = subset.iter().map(|&i| subset.iter().map(|&j| bin[i][j].clone()).collect()).collect();
        if cmp_records(obs, &format!("{what}/subset{subset:?}"), &sub, &spure, &sbin, None) {
            if let Ok((sp, sb)) = typed_inputs::<P>(&spure, &sbin) {
                if let Ok(r) = P::from_records(sp, Some(sb)) {
                    cmp_fp(obs, &format!("{what}/subset{subset:?} vs from_records"), &sub.behaviour(probes), &r.behaviour(probes), TOL_FP, &WORST_FP);
                }
            }
        }
    }
    let ions = fam == Fam::EPcSaft && pure.iter().any(|r| r["model_record"]["z"].as_f64().unwrap_or(0.0) != 0.0);
    let fp = p.behaviour(probes);
    cmp_fp(obs, &format!("{what} vs from_records(expected)"), &fp, &reference.behaviour(probes), TOL_FP, &WORST_FP);
    if all_default {
        if let Ok(r) = P::from_records(tp.clone(), None) {
            cmp_fp_ion(obs, &format!("{what} vs from_records(expected, None)"), &fp, &r.behaviour(probes), ions && br_is_some);
        }
    }
    if n == 2 {
        let b = bin[0][1].as_ref().map(|_| tb[(0, 1)].clone());
        match P::new_binary(tp, b) {
            Ok(r) => {
                let mut nb = vec![vec![None, bin[0][1].clone()], vec![bin[0][1].clone(), None]];
                if bin[0][1].is_none() {
                    nb = vec![vec![None, None], vec![None, None]];
                }
                // the stored record must be symmetric for this comparison to be meaningful
                if bin[0][1] == bin[1][0] {
                    cmp_records(obs, &format!("{what}/new_binary"), &r, pure, &nb, None);
                    cmp_fp_ion(obs, &format!("{what} vs new_binary"), &fp, &r.behaviour(probes), ions && br_is_some && bin[0][1].is_none());
                }
            }
            Err(e) => obs.fail(format!("{what}: new_binary fails: {e}")),
        }
    }
    Some(fp)
}

/// one query through one route against the expectation; returns the fingerprint on success
#[allow(clippy::too_many_arguments)]
fn check_query<P: FamP>(obs: &mut Obs, fam: Fam, what: &str, paths: &[PathBuf], bpath: Option<&PathBuf>, query: &[(usize, Vec<String>)], kind: &str, expect: &Expect, subset: &[usize], probes: &[Probe]) -> Option<Vec<f64>>
where
    P::Pure: Serialize,
    P::Binary: Serialize,
{
    let res = call_route::<P>(paths, bpath, query, opt_of(kind));
    obs.count();
    let nq: usize = query.iter().map(|q| q.1.len()).sum();
    match (expect, res) {
        (Expect::Ok { pure, binary, .. }, Ok(p)) => {
            let flatq: Vec<String> = query.iter().flat_map(|q| q.1.iter().cloned()).collect();
            check_built(obs, fam, what, p, pure, binary, Some((kind, &flatq)), subset, probes)
        }
        (Expect::Ok { .. }, Err(e)) => {
            obs.fail(format!("{what}: every queried substance exists exactly once, but construction fails: {} ({e})", err_kind(&e)));
            None
        }
        (Expect::Dup, Err(ParameterError::IncompatibleParameters(_))) => None,
        (Expect::Missing, Err(ParameterError::ComponentsNotFound(_))) => None,
        (Expect::DupAndMissing, Err(ParameterError::IncompatibleParameters(_) | ParameterError::ComponentsNotFound(_))) => None,
        (Expect::Ambiguous, _) => None,
        (e, Ok(p)) => {
            obs.fail(format!("{what}: query {query:?} must be rejected ({e:?}) but a model with {} components (of {nq} queried) was built", ncomp(&p)));
            None
        }
        (e, Err(err)) => {
            obs.fail(format!("{what}: expected {} but got {} ({err})", match e { Expect::Dup => "IncompatibleParameters", Expect::Missing => "ComponentsNotFound", _ => "IncompatibleParameters or ComponentsNotFound" }, err_kind(&err)));
            None
        }
    }
}

macro_rules! dispatch {
    ($fam:expr, $f:ident ( $($a:expr),* )) => {
        match $fam {
            Fam::PcSaft => $f::<PcSaftParameters>($($a),*),
            Fam::EPcSaft => $f::<ElectrolytePcSaftParameters>($($a),*),
            Fam::VrMie => $f::<SaftVRMieParameters>($($a),*),
            Fam::Vrq => $f::<SaftVRQMieParameters>($($a),*),
            Fam::Pets => $f::<PetsParameters>($($a),*),
            Fam::Uv => $f::<UVTheoryParameters>($($a),*),
            Fam::Joback => $f::<Joback>($($a),*),
            Fam::Dippr => $f::<Dippr>($($a),*),
        }
    };
}

// ---------------------------------------------------------------------------------------
// synthetic record generators (numbers rounded to 6 significant digits)
// ---------------------------------------------------------------------------------------
fn arr(g: &mut Gen, n: usize) -> Value {
    json!((0..n).map(|_| r6(g.range(-2.0, 2.0))).collect::<Vec<f64>>())
}

/// model record of a family with every optional field randomly present / absent
pub fn gen_model_record(g: &mut Gen, fam: Fam, fh: usize) -> Value {
    let mut r = json!({});
    let transport = |g: &mut Gen, r: &mut Value| {
        if g.bool(0.2) {
            r["viscosity"] = arr(g, 4);
        }
        if g.bool(0.1) {
            r["diffusion"] = arr(g, 5);
        }
        if g.bool(0.1) {
            r["thermal_conductivity"] = arr(g, 4);
        }
    };
    match fam {
        Fam::PcSaft => {
            r = json!({"m": r6(g.range(1.0, 6.0)), "sigma": r6(g.range(2.5, 4.5)), "epsilon_k": r6(g.range(150.0, 400.0))});
            if g.bool(0.3) {
                r["mu"] = json!(r6(g.range(0.5, 4.0)));
            }
            if g.bool(0.2) {
                r["q"] = json!(r6(g.range(1.0, 8.0)));
            }
            if g.bool(0.35) {
                r["kappa_ab"] = json!(r6(g.log_range(1e-3, 0.2)));
                r["epsilon_k_ab"] = json!(r6(g.range(1000.0, 3500.0)));
                let (na, nb, nc) = [(1.0, 1.0, 0.0), (2.0, 1.0, 0.0), (2.0, 2.0, 0.0), (0.0, 0.0, 1.0), (1.0, 1.0, 1.0), (0.0, 1.0, 0.0)][g.index(6)];
                for (k, v) in [("na", na), ("nb", nb), ("nc", nc)] {
                    if v != 0.0 || g.bool(0.2) {
                        r[k] = json!(v);
                    }
                }
            }
            transport(g, &mut r);
        }
        Fam::EPcSaft => {
            r = json!({"m": r6(g.range(1.0, 6.0)), "sigma": r6(g.range(2.5, 4.5)), "epsilon_k": r6(g.range(150.0, 400.0))});
            if g.bool(0.3) {
                r["kappa_ab"] = json!(r6(g.log_range(1e-3, 0.2)));
                r["epsilon_k_ab"] = json!(r6(g.range(1000.0, 3500.0)));
                r["na"] = json!(1.0);
                r["nb"] = json!(1.0);
            }
            if g.bool(0.15) {
                r["z"] = json!(0.0);
            }
            if g.bool(0.4) {
                let k = 1 + g.index(3);
                let mut data: Vec<(f64, f64)> = (0..k).map(|_| (r6(g.range(280.0, 370.0)), r6(g.range(2.0, 80.0)))).collect();
                if g.bool(0.5) {
                    data.sort_by(|a, b| a.0.partial_cmp(&b.0).unwrap());
                }
                r["permittivity_record"] = json!({"ExperimentalData": {"data": data}});
            }
        }
        Fam::VrMie => {
            r = json!({"m": r6(g.range(1.0, 4.0)), "sigma": r6(g.range(2.8, 4.8)), "epsilon_k": r6(g.range(100.0, 450.0)), "lr": r6(g.range(8.0, 30.0)), "la": 6.0});
            if g.bool(0.3) {
                r["rc_ab"] = json!(r6(g.range(0.3, 0.5)));
                r["epsilon_k_ab"] = json!(r6(g.range(1500.0, 3000.0)));
                r["na"] = json!(1.0);
                r["nb"] = json!(1.0);
            }
            transport(g, &mut r);
        }
        Fam::Vrq => {
            r = json!({"m": 1.0, "sigma": r6(g.range(2.5, 3.5)), "epsilon_k": r6(g.range(10.0, 50.0)), "lr": r6(g.range(8.0, 14.0)), "la": 6.0, "fh": fh});
            transport(g, &mut r);
        }
        Fam::Pets => {
            r = json!({"sigma": r6(g.range(2.5, 4.5)), "epsilon_k": r6(g.range(80.0, 400.0))});
            transport(g, &mut r);
        }
        Fam::Uv => {
            r = json!({"rep": r6(g.range(8.0, 24.0)), "att": 6.0, "sigma": r6(g.range(2.5, 4.5)), "epsilon_k": r6(g.range(80.0, 400.0))});
        }
        Fam::Joback => {
            r = json!({"a": r6(g.range(10.0, 60.0)), "b": r6(g.range(-0.05, 0.3)), "c": r6(g.range(-3e-4, 3e-4)), "d": r6(g.range(-2e-7, 2e-7)), "e": r6(g.range(-1e-11, 1e-11))});
        }
        Fam::Dippr => {
            r = match g.index(3) {
                0 => {
                    let k = 1 + g.index(5);
                    json!({"DIPPR100": (0..k).map(|i| r6(g.range(1.0, 5.0) * 10f64.powi(4 - 3 * i as i32))).collect::<Vec<f64>>()})
                }
                1 => json!({"DIPPR107": [r6(g.range(3e4, 1e5)), r6(g.range(5e4, 3e5)), r6(g.range(500.0, 2500.0)), r6(g.range(3e4, 2e5)), r6(g.range(300.0, 1200.0))]}),
                _ => json!({"DIPPR127": [r6(g.range(3e4, 5e4)), r6(g.range(1e4, 1e5)), r6(g.range(500.0, 1500.0)), r6(g.range(1e4, 1e5)), r6(g.range(1500.0, 3000.0)), r6(g.range(1e4, 1e5)), r6(g.range(3000.0, 6000.0))]}),
            };
        }
    }
    r
}

/// binary model record of a family (None: the family has no binary parameters)
pub fn gen_binary_record(g: &mut Gen, fam: Fam) -> Option<Value> {
    Some(match fam {
        Fam::PcSaft => {
            let mut b = json!({});
            if g.bool(0.8) {
                b["k_ij"] = json!(r6(g.range(-0.15, 0.15)));
            }
            if g.bool(0.25) {
                b["kappa_ab"] = json!(r6(g.log_range(1e-3, 0.2)));
            }
            if g.bool(0.25) {
                b["epsilon_k_ab"] = json!(r6(g.range(1000.0, 3500.0)));
            }
            b
        }
        Fam::EPcSaft => {
            let k = g.index(5);
            let mut b = json!({"k_ij": (0..k).map(|i| r6(g.range(-0.1, 0.1) * 10f64.powi(-2 * i as i32))).collect::<Vec<f64>>()});
            if g.bool(0.2) {
                b["kappa_ab"] = json!(r6(g.log_range(1e-3, 0.2)));
                b["epsilon_k_ab"] = json!(r6(g.range(1000.0, 3500.0)));
            }
            b
        }
        Fam::VrMie => {
            let mut b = json!({});
            if g.bool(0.7) {
                b["k_ij"] = json!(r6(g.range(-0.1, 0.1)));
            }
            if g.bool(0.5) {
                b["gamma_ij"] = json!(r6(g.range(-0.1, 0.1)));
            }
            if g.bool(0.2) {
                b["rc_ab"] = json!(r6(g.range(0.3, 0.5)));
                b["epsilon_k_ab"] = json!(r6(g.range(1500.0, 3000.0)));
            }
            b
        }
        Fam::Vrq => json!({"k_ij": r6(g.range(-0.1, 0.1)), "l_ij": r6(g.range(-0.05, 0.05))}),
        Fam::Pets | Fam::Uv => json!({"k_ij": r6(g.range(-0.15, 0.15))}),
        Fam::Joback | Fam::Dippr => return None,
    })
}

/// identifier strings: distinct inside one kind, colliding across kinds on purpose
const POOL: [&str; 14] = ["a", "A", "a ", "ab", "\u{3b1}-x", "a-1", "1", "10", "1,2-x", "x/y", "Z", "zz", "b", "B-2"];
fn id_value(k: usize, kind_index: usize) -> String {
    POOL[(k + 3 * kind_index) % POOL.len()].to_string()
}
fn full_identifier(k: usize) -> Value {
    let mut v = json!({});
    for (c, kind) in KINDS.iter().enumerate() {
        v[*kind] = json!(id_value(k, c));
    }
    v
}
fn drop_kinds(g: &mut Gen, ident: &Value, p: f64) -> Value {
    let mut v = ident.clone();
    for kind in KINDS {
        if g.bool(p) {
            v.as_object_mut().unwrap().remove(kind);
        }
    }
    v
}

// ---------------------------------------------------------------------------------------
// part `files` / `files-exhaustive`
// ---------------------------------------------------------------------------------------
#[derive(Serialize, Deserialize, Clone, Debug)]
pub struct FilesCase {
    pub fam: Fam,
    /// identifier kind used for lookup
    pub option: String,
    /// pure files, records in file order
    pub files: Vec<Vec<Value>>,
    /// binary file (None: no file given), records in file order
    pub binary: Option<Vec<Value>>,
    /// request: (file, queried strings) in request order; one entry => from_json
    pub query: Vec<(usize, Vec<String>)>,
    /// indices (into the built components, taken modulo n) for `subset`
    pub subset: Vec<usize>,
    pub probes: Vec<Probe>,
}

fn gen_files(g: &mut Gen, fam: Fam, n_univ: usize, n_files: usize, drop_p: f64) -> (Vec<Vec<Value>>, Vec<Vec<usize>>, Option<Vec<Value>>) {
    let fh_all = g.index(3);
    let mut files: Vec<Vec<Value>> = vec![vec![]; n_files];
    let mut members: Vec<Vec<usize>> = vec![vec![]; n_files];
    for k in 0..n_univ {
        let home = g.index(n_files);
        for f in 0..n_files {
            if f == home || g.bool(0.35) {
                let fh = if g.bool(0.2) { 0 } else { fh_all };
                let mut rec = json!({"identifier": drop_kinds(g, &full_identifier(k), drop_p), "model_record": gen_model_record(g, fam, fh)});
                if fam == Fam::Vrq || !g.bool(0.1) {
                    rec["molarweight"] = json!(r6(g.range(2.0, 200.0)));
                }
                files[f].push(rec);
                members[f].push(k);
            }
        }
    }
    for f in 0..n_files {
        let perm = g.permutation(files[f].len());
        files[f] = perm.iter().map(|&i| files[f][i].clone()).collect();
        members[f] = perm.iter().map(|&i| members[f][i]).collect();
    }
    // binary file
    let mode = g.index(20);
    let binary = if mode == 0 || matches!(fam, Fam::Joback | Fam::Dippr) {
        None
    } else if mode == 1 {
        Some(vec![])
    } else {
        let mut b = vec![];
        for i in 0..n_univ {
            for j in i + 1..n_univ {
                if g.bool(0.6) {
                    let rec = gen_binary_record(g, fam).unwrap();
                    let (a, c) = if g.bool(0.5) { (j, i) } else { (i, j) };
                    b.push(json!({"id1": drop_kinds(g, &full_identifier(a), drop_p * 0.5), "id2": drop_kinds(g, &full_identifier(c), drop_p * 0.5), "model_record": rec}));
                }
            }
        }
        let perm = g.permutation(b.len());
        Some(perm.iter().map(|&i| b[i].clone()).collect())
    };
    (files, members, binary)
}

pub fn decode_files(g: &mut Gen) -> FilesCase {
    let fam = g.pick(&FAMS);
    let kind_index = g.index(6);
    let option = KINDS[kind_index].to_string();
    let n_univ = 2 + g.index(7);
    let n_files = 1 + g.index(3);
    let (files, members, binary) = gen_files(g, fam, n_univ, n_files, 0.05);
    // request
    let n_lists = if g.bool(0.5) { 1 } else { 2 + g.index(2) };
    let mut query: Vec<(usize, Vec<String>)> = vec![];
    let mut total = 0;
    let target = 1 + g.index(4);
    for l in 0..n_lists {
        let f = g.index(n_files);
        let mut avail = members[f].clone();
        let want = if l + 1 == n_lists { target.saturating_sub(total).max(1) } else { 1 + g.index(2) };
        let mut qs = vec![];
        for _ in 0..want {
            if avail.is_empty() || total >= 4 {
                break;
            }
            let k = avail.remove(g.index(avail.len()));
            // a substance already requested from another file would be a duplicate string
            if query.iter().any(|(_, q)| q.contains(&id_value(k, kind_index))) {
                continue;
            }
            qs.push(id_value(k, kind_index));
            total += 1;
        }
        if !qs.is_empty() {
            query.push((f, qs));
        }
    }
    if query.is_empty() {
        query.push((0, vec![id_value(members[0].first().copied().unwrap_or(0), kind_index)]));
    }
    // injections
    if g.bool(0.12) {
        let (l, p) = (g.index(query.len()), g.index(4));
        let s = query[l].1[p % query[l].1.len()].clone();
        let l2 = g.index(query.len());
        let at = g.index(query[l2].1.len() + 1);
        query[l2].1.insert(at, s);
    }
    if g.bool(0.12) {
        let l = g.index(query.len());
        let s = match g.index(3) {
            0 => "no-such-substance".to_string(),
            // the string of the same substance under another identifier kind
            1 => id_value(g.index(n_univ), (kind_index + 1 + g.index(5)) % 6),
            // a substance of the universe that may live in another file only
            _ => id_value(g.index(n_univ + 2), kind_index),
        };
        let at = g.index(query[l].1.len() + 1);
        query[l].1.insert(at, s);
    }
    let subset = (0..1 + g.index(4)).map(|_| g.index(4)).collect();
    FilesCase { fam, option, files, binary, query, subset, probes: gen_probes(g, fam == Fam::Vrq) }
}

fn reversed_files(case: &FilesCase) -> (Vec<Vec<Value>>, Option<Vec<Value>>) {
    let files = case.files.iter().map(|f| f.iter().rev().cloned().collect()).collect();
    let binary = case.binary.as_ref().map(|b| b.iter().rev().map(|r| json!({"id1": r["id2"], "id2": r["id1"], "model_record": r["model_record"]})).collect());
    (files, binary)
}

fn files_generic<P: FamP>(case: &FilesCase, obs: &mut Obs)
where
    P::Pure: Serialize,
    P::Binary: Serialize,
{
    let dir = WorkDir::new(case);
    let kind = case.option.as_str();
    obs.class(format!("{:?}", case.fam));
    obs.class(format!("option={kind}"));
    obs.class(if case.query.len() == 1 { "from_json" } else { "from_multiple_json" });
    let mut paths = vec![];
    let mut read: Vec<Vec<Value>> = vec![];
    for (i, f) in case.files.iter().enumerate() {
        let (p, v) = dir.write(&format!("pure{i}.json"), f);
        paths.push(p);
        read.push(v);
    }
    let (bpath, bread) = match &case.binary {
        Some(b) => {
            let (p, v) = dir.write("binary.json", b);
            (Some(p), Some(v))
        }
        None => (None, None),
    };
    obs.class(match &case.binary {
        None => "binary-file:none",
        Some(b) if b.is_empty() => "binary-file:empty",
        _ => "binary-file:given",
    });
    let refs: Vec<&[Value]> = read.iter().map(|v| v.as_slice()).collect();
    let expect = reference(&refs, bread.as_deref(), &case.query, kind);
    let nq: usize = case.query.iter().map(|q| q.1.len()).sum();
    obs.class(format!("queried={}", nq.min(5)));
    let fp = match &expect {
        Expect::Ok { pure, pos, reversed_used, binary_used, .. } => {
            let n = pure.len();
            let subset: Vec<usize> = case.subset.iter().map(|i| i % n).collect();
            // non-trivial: query order differs from file order, or a reversed binary record is used
            let in_file_order = pos.windows(2).all(|w| w[0] < w[1]);
            if !in_file_order && n > 1 {
                obs.class("query-order!=file-order");
                obs.nontrivial();
            }
            if *reversed_used {
                obs.class("reversed-binary-record-used");
                obs.nontrivial();
            }
            obs.class(format!("binary-entries-used={}", (*binary_used).min(4)));
            if pure.iter().any(|r| KINDS.iter().any(|k| r["identifier"].get(k).is_none())) {
                obs.class("record-with-missing-identifier-kinds");
            }
            check_query::<P>(obs, case.fam, "file route", &paths, bpath.as_ref(), &case.query, kind, &expect, &subset, &case.probes)
        }
        Expect::Ambiguous => {
            obs.discard("ambiguous identifier in generated file");
            return;
        }
        e => {
            obs.class(match e {
                Expect::Dup => "inject:duplicate",
                Expect::Missing => "inject:unknown",
                _ => "inject:duplicate+unknown",
            });
            obs.nontrivial();
            check_query::<P>(obs, case.fam, "file route", &paths, bpath.as_ref(), &case.query, kind, &expect, &[], &case.probes)
        }
    };
    // independence from file order: same content, every file reversed, binary records reversed
    // and stored in the other orientation
    let (rf, rb) = reversed_files(case);
    let mut paths2 = vec![];
    for (i, f) in rf.iter().enumerate() {
        paths2.push(dir.write(&format!("rev_pure{i}.json"), f).0);
    }
    let bpath2 = rb.as_ref().map(|b| dir.write("rev_binary.json", b).0);
    let fp2 = check_query::<P>(obs, case.fam, "reversed files", &paths2, bpath2.as_ref(), &case.query, kind, &expect, &[], &case.probes);
    if let (Some(a), Some(b)) = (fp, fp2) {
        cmp_fp(obs, "file order independence", &a, &b, TOL_FP, &WORST_FP);
    }
}

pub fn check_files(case: &FilesCase, obs: &mut Obs) {
    dispatch!(case.fam, files_generic(case, obs))
}

/// deterministic pseudo-genome for the seed-independent lattice (fixed data, not an RNG stream)
fn fixed_genome(tag: u64, len: usize) -> Vec<u32> {
    (0..len as u64)
        .map(|i| {
            let mut x = (i + 1).wrapping_mul(0x9E3779B97F4A7C15) ^ tag.wrapping_mul(0xD1B54A32D192ED03);
            x ^= x >> 29;
            x = x.wrapping_mul(0xBF58476D1CE4E5B9);
            x ^= x >> 32;
            x as u32
        })
        .collect()
}

/// every ordered subset up to size 4 of a 5-record file: all six identifier options for
/// PC-SAFT, one option (cycling) for each other family
pub fn exhaustive_cases() -> Vec<FilesCase> {
    let mut out = vec![];
    for (fi, fam) in FAMS.iter().enumerate() {
        let genome = fixed_genome(fi as u64 + 1, 400);
        let mut g = Gen::new(&genome);
        let (files, members, mut binary) = gen_files(&mut g, *fam, 5, 1, 0.0);
        if binary.as_ref().map(|b| b.is_empty()).unwrap_or(true) && !matches!(fam, Fam::Joback | Fam::Dippr) {
            // make sure the lattice exercises a binary file
            let mut b = vec![];
            for (i, j) in [(1usize, 0usize), (0, 2), (3, 1), (2, 4), (4, 3), (0, 4)] {
                b.push(json!({"id1": full_identifier(i), "id2": full_identifier(j), "model_record": gen_binary_record(&mut g, *fam).unwrap()}));
            }
            binary = Some(b);
        }
        let probes = gen_probes(&mut g, *fam == Fam::Vrq);
        let options: Vec<usize> = if *fam == Fam::PcSaft { (0..6).collect() } else { vec![fi % 6] };
        let n = members[0].len();
        let mut subsets: Vec<Vec<usize>> = vec![];
        for a in 0..n {
            subsets.push(vec![a]);
            for b in 0..n {
                if b == a {
                    continue;
                }
                subsets.push(vec![a, b]);
                for c in 0..n {
                    if c == a || c == b {
                        continue;
                    }
                    subsets.push(vec![a, b, c]);
                    for d in 0..n {
                        if d == a || d == b || d == c {
                            continue;
                        }
                        subsets.push(vec![a, b, c, d]);
                    }
                }
            }
        }
        for &o in &options {
            for s in &subsets {
                out.push(FilesCase {
                    fam: *fam,
                    option: KINDS[o].to_string(),
                    files: files.clone(),
                    binary: binary.clone(),
                    query: vec![(0, s.iter().map(|&k| id_value(k, o)).collect())],
                    subset: (0..s.len()).rev().collect(),
                    probes: probes.clone(),
                });
            }
        }
    }
    out
}

// ---------------------------------------------------------------------------------------
// part `shipped`: random ordered queries against the shipped files
// ---------------------------------------------------------------------------------------
pub const GROUPS: [(Fam, &[&str], Option<&str>); 8] = [
    (Fam::PcSaft, &["pcsaft/gross2001.json", "pcsaft/gross2002.json"], Some("pcsaft/gross2002_binary.json")),
    (Fam::PcSaft, &["pcsaft/esper2023.json", "pcsaft/gross2006.json", "pcsaft/gross2005_fit.json"], None),
    (Fam::PcSaft, &["pcsaft/loetgeringlin2018.json", "pcsaft/rehner2020.json", "pcsaft/eller2022.json", "pcsaft/gross2005_literature.json"], None),
    (Fam::EPcSaft, &["epcsaft/held2014_w_permittivity_added.json"], Some("epcsaft/held2014_binary.json")),
    (Fam::VrMie, &["saftvrmie/lafitte2013.json"], None),
    (Fam::Vrq, &["saftvrqmie/aasen2019.json", "saftvrqmie/hammer2023.json"], Some("saftvrqmie/aasen2020_binary.json")),
    (Fam::Vrq, &["saftvrqmie/aasen2019_fh2.json"], Some("saftvrqmie/aasen2020_binary_fh2.json")),
    (Fam::Dippr, &["ideal_gas/poling2000.json"], None),
];

static SHIPPED: LazyLock<Mutex<HashMap<String, Arc<Vec<Value>>>>> = LazyLock::new(|| Mutex::new(HashMap::new()));
/// a shipped file as the library reads it (same JSON parser)
fn shipped(rel: &str) -> Arc<Vec<Value>> {
    if let Some(v) = SHIPPED.lock().unwrap().get(rel) {
        return v.clone();
    }
    let text = std::fs::read_to_string(params_dir().join(rel)).unwrap_or_else(|e| panic!("read {rel}: {e}"));
    let v: Arc<Vec<Value>> = Arc::new(serde_json::from_str(&text).unwrap_or_else(|e| panic!("parse {rel}: {e}")));
    SHIPPED.lock().unwrap().insert(rel.to_string(), v.clone());
    v
}

#[derive(Serialize, Deserialize, Clone, Debug)]
pub struct ShippedCase {
    pub group: usize,
    pub option: String,
    /// (file index inside the group, record indices) in request order
    pub query: Vec<(usize, Vec<usize>)>,
    /// repeat the string of flattened position .0 at the end of list .1
    pub dup: Option<(usize, usize)>,
    /// append an unknown string to list .0
    pub unknown: Option<(usize, String)>,
    pub subset: Vec<usize>,
    pub probes: Vec<Probe>,
}

pub fn decode_shipped(g: &mut Gen) -> ShippedCase {
    let group = g.index(GROUPS.len());
    let (fam, files, _) = GROUPS[group];
    // weight the default option
    let option = if g.bool(0.6) { KINDS[g.index(6)] } else { "name" }.to_string();
    let n_lists = if g.bool(0.5) { 1 } else { 1 + g.index(3) };
    let total = 1 + g.index(4);
    let mut query: Vec<(usize, Vec<usize>)> = vec![];
    let mut left = total;
    for l in 0..n_lists {
        if left == 0 {
            break;
        }
        let f = g.index(files.len());
        let n = shipped(files[f]).len();
        let k = if l + 1 == n_lists { left } else { 1 + g.index(left) };
        let mut idx = vec![];
        for _ in 0..k {
            let i = g.index(n);
            if !idx.contains(&i) {
                idx.push(i);
            }
        }
        left -= k.min(left);
        query.push((f, idx));
    }
    let nq: usize = query.iter().map(|q| q.1.len()).sum();
    let dup = g.bool(0.08).then(|| (g.index(nq), g.index(query.len())));
    let unknown = g.bool(0.08).then(|| (g.index(query.len()), if g.bool(0.5) { "unobtainium".to_string() } else { "Methane ".to_string() }));
    let subset = (0..1 + g.index(4)).map(|_| g.index(4)).collect();
    ShippedCase { group, option, query, dup, unknown, subset, probes: gen_probes(g, fam == Fam::Vrq) }
}

fn shipped_generic<P: FamP>(case: &ShippedCase, obs: &mut Obs)
where
    P::Pure: Serialize,
    P::Binary: Serialize,
{
    let (fam, files, bfile) = GROUPS[case.group];
    let kind = case.option.as_str();
    obs.class(format!("group:{}{}", files[0], if files.len() > 1 { "+..." } else { "" }));
    obs.class(format!("option={kind}"));
    let contents: Vec<Arc<Vec<Value>>> = files.iter().map(|f| shipped(f)).collect();
    let bcontent = bfile.map(shipped);
    // request strings
    let mut query: Vec<(usize, Vec<String>)> = vec![];
    for (f, idx) in &case.query {
        let mut qs = vec![];
        for &i in idx {
            match id_str(&contents[*f][i % contents[*f].len()]["identifier"], kind) {
                Some(s) => qs.push(s),
                None => {
                    obs.discard(format!("record has no {kind}"));
                    return;
                }
            }
        }
        if !qs.is_empty() {
            query.push((*f, qs));
        }
    }
    if query.is_empty() {
        obs.discard("empty query");
        return;
    }
    if let Some((pos, l)) = case.dup {
        let flatq: Vec<String> = query.iter().flat_map(|q| q.1.iter().cloned()).collect();
        let s = flatq[pos % flatq.len()].clone();
        let l = l % query.len();
        query[l].1.push(s);
    }
    if let Some((l, s)) = &case.unknown {
        let l = l % query.len();
        query[l].1.insert(0, s.clone());
    }
    obs.class(if query.len() == 1 { "from_json" } else { "from_multiple_json" });
    let refs: Vec<&[Value]> = contents.iter().map(|v| v.as_slice()).collect();
    let expect = reference(&refs, bcontent.as_ref().map(|b| b.as_slice()), &query, kind);
    let paths: Vec<PathBuf> = files.iter().map(|f| params_dir().join(f)).collect();
    let bpath = bfile.map(|b| params_dir().join(b));
    match &expect {
        Expect::Ok { pure, pos, reversed_used, binary_used, .. } => {
            let n = pure.len();
            obs.class(format!("components={n}"));
            let subset: Vec<usize> = case.subset.iter().map(|i| i % n).collect();
            if n > 1 && !pos.windows(2).all(|w| w[0] < w[1]) {
                obs.class("query-order!=file-order");
                obs.nontrivial();
            }
            if *binary_used > 0 {
                obs.class("shipped-binary-record-used");
                obs.nontrivial();
            }
            if *reversed_used {
                obs.class("reversed-binary-record-used");
            }
            check_query::<P>(obs, fam, "shipped files", &paths, bpath.as_ref(), &query, kind, &expect, &subset, &case.probes);
        }
        Expect::Ambiguous => {
            // several shipped records carry the queried string (documented for SAFT-VRQ Mie,
            // reported by C15 elsewhere): which one is returned is not stated by the property
            obs.class("ambiguous-identifier-in-shipped-file");
            obs.discard("ambiguous identifier");
        }
        e => {
            obs.class(match e {
                Expect::Dup => "rejected:duplicate",
                Expect::Missing => "rejected:unknown",
                _ => "rejected:duplicate+unknown",
            });
            obs.nontrivial();
            check_query::<P>(obs, fam, "shipped files", &paths, bpath.as_ref(), &query, kind, &expect, &[], &case.probes);
        }
    }
}

pub fn check_shipped(case: &ShippedCase, obs: &mut Obs) {
    dispatch!(GROUPS[case.group].0, shipped_generic(case, obs))
}

// ---------------------------------------------------------------------------------------
// part `gc`: group contribution combining rules
// ---------------------------------------------------------------------------------------
#[derive(Serialize, Deserialize, Clone, Debug)]
pub struct GcCase {
    /// "homo" | "hetero-eos" | "hetero-dft"
    pub route: String,
    pub table_src: String,
    /// segment table in file order
    pub segments: Vec<Value>,
    /// binary segment records (id1, id2, model_record = k_ab)
    pub seg_binary: Option<Vec<Value>>,
    /// chemical records (identifier, segments, optional bonds) in component order
    pub chem: Vec<Value>,
    pub option: String,
    /// genes for the permutations applied inside the check
    pub perm_seed: Vec<u32>,
    pub dup_query: bool,
    pub missing_query: bool,
    pub probes: Vec<Probe>,
}

const HOMO_TABLES: [(&str, Option<&str>); 3] = [
    ("pcsaft/sauer2014_homo.json", None),
    ("pcsaft/loetgeringlin2015_homo.json", None),
    ("pcsaft/rehner2023_homo.json", Some("pcsaft/rehner2023_homo_binary.json")),
];
const HETERO_TABLES: [(&str, Option<&str>); 2] = [
    ("pcsaft/sauer2014_hetero.json", None),
    ("pcsaft/rehner2023_hetero.json", Some("pcsaft/rehner2023_hetero_binary.json")),
];
const SEG_IDS: [&str; 6] = ["S0", "s0", "S 1", ">X<", "=Y", "S0a"];

pub fn decode_gc(g: &mut Gen) -> GcCase {
    let route = g.pick(&["homo", "hetero-eos", "hetero-dft"]).to_string();
    let homo = route == "homo";
    let shipped_table = g.bool(0.6);
    let (table_src, segments, mut seg_binary): (String, Vec<Value>, Option<Vec<Value>>) = if shipped_table {
        let (t, b) = if homo { HOMO_TABLES[g.index(3)] } else { HETERO_TABLES[g.index(2)] };
        let bin = match b {
            Some(b) if g.bool(0.7) => Some(shipped(b).as_ref().clone()),
            _ => None,
        };
        (t.to_string(), shipped(t).as_ref().clone(), bin)
    } else {
        let n = 2 + g.index(5);
        let polar = g.index(n + 2);
        let assoc = g.index(n + 2);
        let segs = (0..n)
            .map(|k| {
                let mut mr = json!({"m": r6(g.range(0.3, 1.6)), "sigma": r6(g.range(2.6, 4.2)), "epsilon_k": r6(g.range(150.0, 400.0))});
                if k == polar {
                    mr["mu"] = json!(r6(g.range(0.5, 3.5)));
                }
                if k == assoc {
                    mr["kappa_ab"] = json!(r6(g.log_range(1e-3, 0.05)));
                    mr["epsilon_k_ab"] = json!(r6(g.range(1000.0, 3000.0)));
                    mr["na"] = json!(1.0);
                    mr["nb"] = json!(1.0);
                }
                if homo && g.bool(0.15) {
                    mr["q"] = json!(r6(g.range(1.0, 6.0)));
                }
                if !homo && g.bool(0.2) {
                    mr["psi_dft"] = json!(r6(g.range(1.2, 1.8)));
                }
                json!({"identifier": SEG_IDS[k], "molarweight": r6(g.range(12.0, 60.0)), "model_record": mr})
            })
            .collect();
        ("synthetic".to_string(), segs, None)
    };
    let ids: Vec<String> = segments.iter().map(|s| s["identifier"].as_str().unwrap().to_string()).collect();
    if seg_binary.is_none() && g.bool(0.5) {
        // synthetic binary segment table: each unordered pair at most once, random orientation
        let mut b = vec![];
        let k = ids.len().min(8);
        for i in 0..k {
            for j in i + 1..k {
                if g.bool(0.5) {
                    let (x, y) = if g.bool(0.5) { (j, i) } else { (i, j) };
                    b.push(json!({"id1": ids[x], "id2": ids[y], "model_record": r6(g.range(-0.1, 0.1))}));
                }
            }
        }
        seg_binary = Some(b);
    }
    let ncomp = 1 + g.index(3);
    let subs = shipped("pcsaft/gc_substances.json");
    let mut chem = vec![];
    for k in 0..ncomp {
        if shipped_table && g.bool(0.3) {
            let mut r = subs[g.index(subs.len())].clone();
            // unique identifiers inside the case
            r["identifier"] = full_identifier(k);
            chem.push(r);
            continue;
        }
        let n_seg = 1 + g.index(8);
        let palette: Vec<String> = (0..1 + g.index(3)).map(|_| ids[g.index(ids.len())].clone()).collect();
        let segs: Vec<String> = (0..n_seg).map(|_| palette[g.index(palette.len())].clone()).collect();
        let mut r = json!({"identifier": full_identifier(k), "segments": segs});
        if g.bool(0.5) {
            // explicit bonds: a random tree (branched unless it happens to be a path)
            let bonds: Vec<[usize; 2]> = (1..n_seg)
                .map(|s| {
                    let parent = g.index(s);
                    if g.bool(0.5) { [parent, s] } else { [s, parent] }
                })
                .collect();
            r["bonds"] = json!(bonds);
        }
        chem.push(r);
    }
    GcCase {
        route,
        table_src,
        segments,
        seg_binary,
        chem,
        option: KINDS[g.index(6)].to_string(),
        perm_seed: (0..24).map(|_| g.raw()).collect(),
        dup_query: g.bool(0.15),
        missing_query: g.bool(0.1),
        probes: gen_probes(g, false),
    }
}

fn seg_list(c: &Value) -> Vec<String> {
    c["segments"].as_array().map(|a| a.iter().map(|s| s.as_str().unwrap_or("").to_string()).collect()).unwrap_or_default()
}
fn bond_list(c: &Value) -> Vec<[usize; 2]> {
    match c.get("bonds").and_then(|b| b.as_array()) {
        Some(a) => a.iter().map(|b| [b[0].as_u64().unwrap() as usize, b[1].as_u64().unwrap() as usize]).collect(),
        None => {
            let n = seg_list(c).len();
            (1..n).map(|i| [i - 1, i]).collect()
        }
    }
}
fn seg_counts(c: &Value) -> BTreeMap<String, f64> {
    let mut m = BTreeMap::new();
    for s in seg_list(c) {
        *m.entry(s).or_insert(0.0) += 1.0;
    }
    m
}
fn k_ab(bin: Option<&[Value]>, a: &str, b: &str) -> f64 {
    bin.and_then(|bin| {
        bin.iter().find(|r| {
            let (x, y) = (r["id1"].as_str().unwrap_or(""), r["id2"].as_str().unwrap_or(""));
            (x == a && y == b) || (x == b && y == a)
        })
    })
    .and_then(|r| r["model_record"].as_f64())
    .unwrap_or(0.0)
}
/// is a branch present (a bead with three or more bonds)?
fn branched(c: &Value) -> bool {
    let mut deg = vec![0; seg_list(c).len()];
    for b in bond_list(c) {
        deg[b[0]] += 1;
        deg[b[1]] += 1;
    }
    deg.iter().any(|&d| d >= 3)
}

/// the same molecule with its beads renumbered (new bead k = old bead perm[k]); bonds explicit
fn permute_chem(c: &Value, perm: &[usize]) -> Value {
    let segs = seg_list(c);
    let mut inv = vec![0; perm.len()];
    for (k, &p) in perm.iter().enumerate() {
        inv[p] = k;
    }
    let bonds: Vec<[usize; 2]> = bond_list(c).iter().map(|b| [inv[b[0]], inv[b[1]]]).collect();
    json!({"identifier": c["identifier"], "segments": perm.iter().map(|&p| segs[p].clone()).collect::<Vec<_>>(), "bonds": bonds})
}

fn close_gc(obs: &mut Obs, what: &str, got: f64, exp: f64, tol: f64) {
    obs.count();
    let d = (got - exp).abs() / got.abs().max(exp.abs()).max(1e-300);
    if got == exp {
        return;
    }
    track(&WORST_GC, d);
    if !(d <= tol) {
        obs.fail(format!("{what}: {got:e}, documented rule gives {exp:e} (rel {d:e} > {tol:e})"));
    }
}

/// HashMap summation order in the builders: worst 3.6e-14 over 1.5e5 thorough cases
const TOL_GC: f64 = 1e-11;
const TOL_GC_FP: f64 = 1e-9;
/// iterative cross-association solver: X converged to 1e-10 (GUIDE)
const TOL_GC_FP_ASSOC: f64 = 1e-6;

static F11: LazyLock<Mutex<BTreeMap<String, u64>>> = LazyLock::new(|| Mutex::new(BTreeMap::new()));

struct GcInputs {
    chem: Vec<Value>,
    segments: Vec<Value>,
    binary: Option<Vec<Value>>,
}

fn typed_vec<T: DeserializeOwned>(v: &[Value], what: &str) -> Result<Vec<T>, String> {
    v.iter().map(|x| serde_json::from_value(x.clone()).map_err(|e| format!("harness {what} does not parse: {e}: {x}"))).collect()
}

/// homosegmented: PcSaftParameters::from_segments against the documented rules
fn gc_homo(case: &GcCase, inp: &GcInputs, obs: &mut Obs, assert_rules: bool) -> Option<(Vec<Value>, Vec<f64>, Vec<f64>)> {
    let chem: Vec<ChemicalRecord> = typed_vec(&inp.chem, "chemical record").map_err(|e| obs.fail(e)).ok()?;
    let segs: Vec<SegmentRecord<PcSaftRecord>> = typed_vec(&inp.segments, "segment record").map_err(|e| obs.fail(e)).ok()?;
    let bin: Option<Vec<BinaryRecord<String, f64>>> = match &inp.binary {
        Some(b) => Some(typed_vec(b, "binary segment record").map_err(|e| obs.fail(e)).ok()?),
        None => None,
    };
    let seg_of = |id: &str| inp.segments.iter().find(|s| s["identifier"].as_str() == Some(id)).cloned().unwrap_or(Value::Null);
    let polar_count: f64 = inp
        .chem
        .iter()
        .map(|c| {
            seg_counts(c)
                .iter()
                .map(|(id, n)| {
                    let mr = &seg_of(id)["model_record"];
                    let sites = mr["na"].as_f64().unwrap_or(0.0) + mr["nb"].as_f64().unwrap_or(0.0) + mr["nc"].as_f64().unwrap_or(0.0);
                    if mr.get("mu").is_some() || mr.get("q").is_some() || sites > 0.0 { *n } else { 0.0 }
                })
                .sum::<f64>()
        })
        .fold(0.0, f64::max);
    obs.count();
    let p = match PcSaftParameters::from_segments(chem, segs, bin) {
        Ok(p) => p,
        Err(ParameterError::IncompatibleParameters(_)) if polar_count > 1.0 => {
            // the homosegmented method allows one polar / associating group per molecule
            obs.class("homo:more-than-one-polar-group-rejected");
            return None;
        }
        Err(e) => {
            obs.fail(format!("PcSaftParameters::from_segments fails: {e}"));
            return None;
        }
    };
    let (pr, br) = p.records();
    let n = inp.chem.len();
    obs.ensure(pr.len() == n, || format!("from_segments built {} components for {n} chemical records", pr.len()));
    let recs: Vec<Value> = pr.iter().map(|r| serde_json::to_value(r).unwrap()).collect();
    let mut kij = vec![];
    for i in 0..n {
        for j in 0..n {
            kij.push(br.map(|b| serde_json::to_value(b[(i, j)]).unwrap()["k_ij"].as_f64().unwrap_or(0.0)).unwrap_or(0.0));
        }
    }
    if assert_rules {
        for (i, c) in inp.chem.iter().enumerate() {
            let cnt = seg_counts(c);
            let (mut m, mut s3, mut e, mut mw) = (0.0, 0.0, 0.0, 0.0);
            let (mut mu, mut q): (Option<f64>, Option<f64>) = (None, None);
            let mut assoc = [0.0; 5];
            for (id, nn) in &cnt {
                let sr = seg_of(id);
                let mr = &sr["model_record"];
                let (mi, si, ei) = (mr["m"].as_f64().unwrap(), mr["sigma"].as_f64().unwrap(), mr["epsilon_k"].as_f64().unwrap());
                m += nn * mi;
                s3 += nn * mi * si.powi(3);
                e += nn * mi * ei;
                mw += nn * sr["molarweight"].as_f64().unwrap_or(0.0);
                if let Some(x) = mr["mu"].as_f64() {
                    mu = Some(mu.unwrap_or(0.0) + nn * x);
                }
                if let Some(x) = mr["q"].as_f64() {
                    q = Some(q.unwrap_or(0.0) + nn * x);
                }
                for (t, key) in ["kappa_ab", "epsilon_k_ab", "na", "nb", "nc"].iter().enumerate() {
                    assoc[t] += nn * mr[*key].as_f64().unwrap_or(0.0);
                }
            }
            let got = &recs[i];
            let gm = &got["model_record"];
            obs.ensure(got["identifier"] == serde_json::to_value(serde_json::from_value::<Identifier>(c["identifier"].clone()).unwrap()).unwrap(), || format!("component {i} carries identifier {} instead of {}", got["identifier"], c["identifier"]));
            close_gc(obs, &format!("component {i} molarweight = sum n_i MW_i"), got["molarweight"].as_f64().unwrap_or(f64::NAN), mw, TOL_GC);
            close_gc(obs, &format!("component {i} m = sum n_i m_i"), gm["m"].as_f64().unwrap_or(f64::NAN), m, TOL_GC);
            close_gc(obs, &format!("component {i} sigma^3 = sum n_i m_i sigma_i^3 / m"), gm["sigma"].as_f64().unwrap_or(f64::NAN), (s3 / m).cbrt(), TOL_GC);
            close_gc(obs, &format!("component {i} epsilon_k = sum n_i m_i eps_i / m"), gm["epsilon_k"].as_f64().unwrap_or(f64::NAN), e / m, TOL_GC);
            close_gc(obs, &format!("component {i} mu = sum n_i mu_i"), gm["mu"].as_f64().unwrap_or(0.0), mu.unwrap_or(0.0), TOL_GC);
            close_gc(obs, &format!("component {i} q = sum n_i q_i"), gm["q"].as_f64().unwrap_or(0.0), q.unwrap_or(0.0), TOL_GC);
            for (t, key) in ["kappa_ab", "epsilon_k_ab", "na", "nb", "nc"].iter().enumerate() {
                close_gc(obs, &format!("component {i} {key} = sum n_i {key}_i"), gm[*key].as_f64().unwrap_or(0.0), assoc[t], TOL_GC);
            }
        }
        for i in 0..n {
            for j in 0..n {
                let exp = if i == j {
                    0.0
                } else {
                    let (ci, cj) = (seg_counts(&inp.chem[i]), seg_counts(&inp.chem[j]));
                    let (mut num, mut den) = (0.0, 0.0);
                    for (a, na) in &ci {
                        for (b, nb) in &cj {
                            num += na * nb * k_ab(inp.binary.as_deref(), a, b);
                            den += na * nb;
                        }
                    }
                    num / den
                };
                close_gc(obs, &format!("k_ij({i},{j}) = sum n_a n_b k_ab / sum n_a n_b"), kij[i * n + j], exp, TOL_GC);
            }
        }
    }
    let fp = p.behaviour(&case.probes);
    Some((recs, kij, fp))
}

/// leaves of a JSON value as (path, number)
fn leaves(v: &Value, path: String, out: &mut Vec<(String, f64)>) {
    match v {
        Value::Number(n) => out.push((path, n.as_f64().unwrap_or(f64::NAN))),
        Value::Array(a) => a.iter().enumerate().for_each(|(i, x)| leaves(x, format!("{path}[{i}]"), out)),
        Value::Object(o) => o.iter().for_each(|(k, x)| leaves(x, format!("{path}.{k}"), out)),
        _ => {}
    }
}

fn cmp_values(obs: &mut Obs, what: &str, a: &[Value], b: &[Value], tol: f64) {
    let (mut la, mut lb) = (vec![], vec![]);
    leaves(&json!(a), String::new(), &mut la);
    leaves(&json!(b), String::new(), &mut lb);
    obs.count();
    if la.len() != lb.len() || la.iter().zip(&lb).any(|(x, y)| x.0 != y.0) {
        obs.fail(format!("{what}: records differ in structure: {} vs {}", json!(a), json!(b)));
        return;
    }
    for ((k, x), (_, y)) in la.iter().zip(&lb) {
        close_gc(obs, &format!("{what}{k}"), *x, *y, tol);
    }
}

/// per-bead view of heterosegmented parameters: (component, segment id) -> (m_total, count), bonds
struct HeteroView {
    beads: BTreeMap<(usize, String), (f64, f64)>,
    bonds: BTreeMap<(usize, String, String), f64>,
    kij: BTreeMap<(usize, String, usize, String), f64>,
    mw: Vec<f64>,
    psi: BTreeMap<(usize, String), f64>,
}

fn hetero_expected(inp: &GcInputs, dft: bool) -> HeteroView {
    let seg_of = |id: &str| inp.segments.iter().find(|s| s["identifier"].as_str() == Some(id)).cloned().unwrap_or(Value::Null);
    let mut v = HeteroView { beads: BTreeMap::new(), bonds: BTreeMap::new(), kij: BTreeMap::new(), mw: vec![], psi: BTreeMap::new() };
    for (i, c) in inp.chem.iter().enumerate() {
        let mut mw = 0.0;
        for (id, n) in seg_counts(c) {
            let sr = seg_of(&id);
            v.beads.insert((i, id.clone()), (sr["model_record"]["m"].as_f64().unwrap() * n, n));
            mw += n * sr["molarweight"].as_f64().unwrap_or(0.0);
            if dft {
                v.psi.insert((i, id.clone()), sr["model_record"]["psi_dft"].as_f64().unwrap_or(1.5357));
            }
        }
        v.mw.push(mw);
        let segs = seg_list(c);
        for b in bond_list(c) {
            let (mut a, mut d) = (segs[b[0]].clone(), segs[b[1]].clone());
            if a > d {
                std::mem::swap(&mut a, &mut d);
            }
            *v.bonds.entry((i, a, d)).or_insert(0.0) += 1.0;
        }
    }
    let keys: Vec<(usize, String)> = v.beads.keys().cloned().collect();
    for (i, a) in &keys {
        for (j, b) in &keys {
            if i != j {
                let k = k_ab(inp.binary.as_deref(), a, b);
                if k != 0.0 {
                    v.kij.insert((*i, a.clone(), *j, b.clone()), k);
                }
            }
        }
    }
    v
}

/// map (sigma, epsilon_k) bit patterns to segment identifiers; None if not unique in the table
fn seg_lookup(segments: &[Value]) -> Option<HashMap<(u64, u64), String>> {
    let mut m = HashMap::new();
    for s in segments {
        let key = (s["model_record"]["sigma"].as_f64()?.to_bits(), s["model_record"]["epsilon_k"].as_f64()?.to_bits());
        if m.insert(key, s["identifier"].as_str()?.to_string()).is_some() {
            return None;
        }
    }
    Some(m)
}

fn cmp_view(obs: &mut Obs, what: &str, got: &HeteroView, exp: &HeteroView) {
    obs.count();
    if got.beads.keys().collect::<Vec<_>>() != exp.beads.keys().collect::<Vec<_>>() {
        obs.fail(format!("{what}: segments per component {:?}, chemical records say {:?}", got.beads.keys().collect::<Vec<_>>(), exp.beads.keys().collect::<Vec<_>>()));
        return;
    }
    for (k, (m, n)) in &exp.beads {
        let g = got.beads[k];
        close_gc(obs, &format!("{what}: m x count of segment {k:?}"), g.0, *m, TOL_GC);
        close_gc(obs, &format!("{what}: count of segment {k:?}"), g.1, *n, 0.0);
    }
    obs.count();
    if got.bonds != exp.bonds {
        obs.fail(format!("{what}: bond counts {:?}, chemical records say {:?}", got.bonds, exp.bonds));
    }
    obs.count();
    if got.kij != exp.kij {
        obs.fail(format!("{what}: segment k_ij {:?}, binary segment records say {:?}", got.kij, exp.kij));
    }
    for (i, (g, e)) in got.mw.iter().zip(&exp.mw).enumerate() {
        close_gc(obs, &format!("{what}: molarweight of component {i} = sum n MW"), *g, *e, TOL_GC);
    }
    obs.count();
    if got.psi != exp.psi {
        obs.fail(format!("{what}: psi_dft {:?}, segment records say {:?}", got.psi, exp.psi));
    }
}

fn gc_hetero(case: &GcCase, inp: &GcInputs, obs: &mut Obs, dft: bool) -> Option<Vec<f64>> {
    let chem: Vec<ChemicalRecord> = typed_vec(&inp.chem, "chemical record").map_err(|e| obs.fail(e)).ok()?;
    let segs: Vec<SegmentRecord<GcPcSaftRecord>> = typed_vec(&inp.segments, "segment record").map_err(|e| obs.fail(e)).ok()?;
    let bin: Option<Vec<BinaryRecord<String, f64>>> = match &inp.binary {
        Some(b) => Some(typed_vec(b, "binary segment record").map_err(|e| obs.fail(e)).ok()?),
        None => None,
    };
    let exp = hetero_expected(inp, dft);
    let lookup = seg_lookup(&inp.segments);
    if lookup.is_none() {
        obs.class("segment-table-not-identifiable-by-(sigma,epsilon)");
    }
    obs.count();
    if !dft {
        let p = match GcPcSaftEosParameters::from_segments(chem, segs, bin) {
            Ok(p) => p,
            Err(e) => {
                obs.fail(format!("GcPcSaftEosParameters::from_segments fails: {e}"));
                return None;
            }
        };
        if let Some(lk) = &lookup {
            let nb = p.m.len();
            let id = |k: usize| lk.get(&(p.sigma[k].to_bits(), p.epsilon_k[k].to_bits())).cloned().unwrap_or_else(|| format!("?{k}"));
            let seg_m = |s: &str| inp.segments.iter().find(|x| x["identifier"].as_str() == Some(s)).and_then(|x| x["model_record"]["m"].as_f64()).unwrap_or(f64::NAN);
            let mut got = HeteroView { beads: BTreeMap::new(), bonds: BTreeMap::new(), kij: BTreeMap::new(), mw: p.molarweight.to_vec(), psi: BTreeMap::new() };
            for k in 0..nb {
                let prev = got.beads.insert((p.component_index[k], id(k)), (p.m[k], (p.m[k] / seg_m(&id(k))).round()));
                obs.ensure(prev.is_none(), || format!("segment {} appears twice in component {}", id(k), p.component_index[k]));
            }
            for (b, c) in p.bonds.iter() {
                let (mut a, mut d) = (id(b[0]), id(b[1]));
                if a > d {
                    std::mem::swap(&mut a, &mut d);
                }
                obs.ensure(p.component_index[b[0]] == p.component_index[b[1]], || "bond between segments of different components".to_string());
                *got.bonds.entry((p.component_index[b[0]], a, d)).or_insert(0.0) += c;
            }
            for i in 0..nb {
                for j in 0..nb {
                    if p.k_ij[(i, j)] != 0.0 {
                        got.kij.insert((p.component_index[i], id(i), p.component_index[j], id(j)), p.k_ij[(i, j)]);
                    }
                }
            }
            cmp_view(obs, "gc-PC-SAFT EoS parameters", &got, &exp);
        }
        let n = inp.chem.len();
        Some(fp_residual(ResidualModel::GcPcSaft(GcPcSaft::new(Arc::new(p))), n, &case.probes))
    } else {
        let p = match GcPcSaftFunctionalParameters::from_segments(chem, segs, bin) {
            Ok(p) => p,
            Err(e) => {
                obs.fail(format!("GcPcSaftFunctionalParameters::from_segments fails: {e}"));
                return None;
            }
        };
        // one bead per segment in the order of the chemical records
        let mut k = 0;
        let mut got = HeteroView { beads: BTreeMap::new(), bonds: BTreeMap::new(), kij: BTreeMap::new(), mw: p.molarweight.to_vec(), psi: BTreeMap::new() };
        let mut bead_id: Vec<(usize, String)> = vec![];
        for (i, c) in inp.chem.iter().enumerate() {
            for s in seg_list(c) {
                let sr = inp.segments.iter().find(|x| x["identifier"].as_str() == Some(s.as_str())).cloned().unwrap_or(Value::Null);
                obs.count();
                if k >= p.m.len() || p.component_index[k] != i || p.m[k] != sr["model_record"]["m"].as_f64().unwrap_or(f64::NAN) || p.sigma[k] != sr["model_record"]["sigma"].as_f64().unwrap_or(f64::NAN) || p.epsilon_k[k] != sr["model_record"]["epsilon_k"].as_f64().unwrap_or(f64::NAN) {
                    obs.fail(format!("functional parameters: bead {k} is not segment '{s}' of component {i}"));
                    return None;
                }
                let e = got.beads.entry((i, s.clone())).or_insert((0.0, 0.0));
                e.0 += p.m[k];
                e.1 += 1.0;
                got.psi.insert((i, s.clone()), p.psi_dft[k]);
                bead_id.push((i, s));
                k += 1;
            }
        }
        obs.ensure(k == p.m.len(), || format!("functional parameters hold {} beads, chemical records {k}", p.m.len()));
        // exact m sums differ in summation order only
        for e in p.bonds.edge_indices() {
            let (a, b) = p.bonds.edge_endpoints(e).unwrap();
            let (a, b) = (a.index(), b.index());
            if a >= bead_id.len() || b >= bead_id.len() {
                obs.fail(format!("bond ({a},{b}) refers to a bead that does not exist"));
                return None;
            }
            obs.ensure(bead_id[a].0 == bead_id[b].0, || format!("bond ({a},{b}) joins different components"));
            let (mut x, mut y) = (bead_id[a].1.clone(), bead_id[b].1.clone());
            if x > y {
                std::mem::swap(&mut x, &mut y);
            }
            *got.bonds.entry((bead_id[a].0, x, y)).or_insert(0.0) += 1.0;
        }
        for i in 0..bead_id.len() {
            for j in 0..bead_id.len() {
                if p.k_ij[(i, j)] != 0.0 {
                    got.kij.insert((bead_id[i].0, bead_id[i].1.clone(), bead_id[j].0, bead_id[j].1.clone()), p.k_ij[(i, j)]);
                }
            }
        }
        cmp_view(obs, "gc-PC-SAFT functional parameters", &got, &exp);
        let n = inp.chem.len();
        Some(fp_residual(ResidualModel::GcPcSaftFunctional(GcPcSaftFunctional::new(Arc::new(p))), n, &case.probes))
    }
}

/// number of association site pairs of the model (1 => analytic, more => iterative solver)
fn assoc_sites(case: &GcCase, dft: bool) -> f64 {
    let mut sites = 0.0;
    for c in &case.chem {
        for (id, n) in seg_counts(c) {
            let mr = case.segments.iter().find(|s| s["identifier"].as_str() == Some(id.as_str())).map(|s| s["model_record"].clone()).unwrap_or(Value::Null);
            let s = mr["na"].as_f64().unwrap_or(0.0) + mr["nb"].as_f64().unwrap_or(0.0) + mr["nc"].as_f64().unwrap_or(0.0);
            if s > 0.0 {
                sites += if dft { n } else { 1.0 };
            }
        }
    }
    sites
}

/// signature of the known finding `gc-functional-association-strength-of-bead-0`: the
/// functional has exactly one A site bead and one B site bead and no C site (analytic branch)
fn dft_single_ab_pair(case: &GcCase) -> bool {
    let (mut a, mut b, mut c) = (0.0, 0.0, 0.0);
    for ch in &case.chem {
        for (id, n) in seg_counts(ch) {
            let mr = case.segments.iter().find(|s| s["identifier"].as_str() == Some(id.as_str())).map(|s| s["model_record"].clone()).unwrap_or(Value::Null);
            if mr["na"].as_f64().unwrap_or(0.0) > 0.0 {
                a += n;
            }
            if mr["nb"].as_f64().unwrap_or(0.0) > 0.0 {
                b += n;
            }
            if mr["nc"].as_f64().unwrap_or(0.0) > 0.0 {
                c += n;
            }
        }
    }
    a * b == 1.0 && c == 0.0
}

pub fn check_gc(case: &GcCase, obs: &mut Obs) {
    let homo = case.route == "homo";
    let dft = case.route == "hetero-dft";
    obs.class(format!("route:{}", case.route));
    obs.class(format!("table:{}{}", case.table_src, if case.seg_binary.is_some() { "+binary" } else { "" }));
    obs.class(format!("components={}", case.chem.len()));
    let repeated = case.chem.iter().any(|c| seg_counts(c).values().any(|&n| n > 1.0));
    let branch = case.chem.iter().any(branched);
    if repeated {
        obs.class("repeated-segment");
    }
    if branch {
        obs.class("branched");
    }
    if case.chem.iter().any(|c| c.get("bonds").is_none()) {
        obs.class("bonds:linear-default");
    }
    if repeated && (homo || branch) {
        obs.nontrivial();
    }
    let sites = assoc_sites(case, dft);
    let tol_fp = if sites > 1.0 { TOL_GC_FP_ASSOC } else { TOL_GC_FP };
    let worst = if sites > 1.0 { &WORST_GC_FP_ASSOC } else { &WORST_GC_FP };
    if sites > 1.0 {
        obs.class("cross-association(iterative)");
    }
    let base = GcInputs { chem: case.chem.clone(), segments: case.segments.clone(), binary: case.seg_binary.clone() };
    // variant: beads renumbered inside every molecule, segment table and binary table permuted,
    // binary records stored the other way round
    let mut pg = Gen::new(&case.perm_seed);
    let perm_chem: Vec<Value> = case.chem.iter().map(|c| permute_chem(c, &pg.permutation(seg_list(c).len()))).collect();
    let sp = pg.permutation(case.segments.len());
    let perm_segments: Vec<Value> = sp.iter().map(|&i| case.segments[i].clone()).collect();
    let perm_binary = case.seg_binary.as_ref().map(|b| {
        let bp = pg.permutation(b.len());
        bp.iter().map(|&i| json!({"id1": b[i]["id2"], "id2": b[i]["id1"], "model_record": b[i]["model_record"]})).collect::<Vec<_>>()
    });
    let variant = GcInputs { chem: perm_chem, segments: perm_segments, binary: perm_binary };

    // from_json_segments: chemical records in a file with distractors, in another order
    let dir = WorkDir::new(case);
    let kind = case.option.as_str();
    let mut file_chem: Vec<Value> = case.chem.clone();
    file_chem.push(json!({"identifier": full_identifier(7), "segments": [case.segments[0]["identifier"]]}));
    let fp_ = pg.permutation(file_chem.len());
    let file_chem: Vec<Value> = fp_.iter().map(|&i| file_chem[i].clone()).collect();
    let (p_chem, _) = dir.write("chem.json", &file_chem);
    let (p_seg, _) = dir.write("segments.json", &variant.segments);
    let p_bin = variant.binary.as_ref().map(|b| dir.write("seg_binary.json", b).0);
    let names: Vec<String> = case.chem.iter().map(|c| id_str(&c["identifier"], kind).unwrap()).collect();
    let mut q: Vec<&str> = names.iter().map(|s| s.as_str()).collect();
    let opt = opt_of(kind);

    let fp_base;
    if homo {
        let Some((recs, kij, fp)) = gc_homo(case, &base, obs, true) else { return };
        fp_base = fp;
        if let Some((r2, k2, f2)) = gc_homo(case, &variant, obs, false) {
            cmp_values(obs, "segment order invariance: record", &recs, &r2, TOL_GC);
            cmp_values(obs, "segment order invariance: k_ij", &[json!(kij)], &[json!(k2)], TOL_GC);
            cmp_fp(obs, "segment order invariance (behaviour)", &fp_base, &f2, tol_fp, worst);
        } else {
            obs.fail("permuted inputs are rejected although the original inputs are accepted");
        }
        obs.count();
        match PcSaftParameters::from_json_segments(&q, p_chem.clone(), p_seg.clone(), p_bin.clone(), opt) {
            Ok(p) => {
                let r3: Vec<Value> = p.records().0.iter().map(|r| serde_json::to_value(r).unwrap()).collect();
                cmp_values(obs, "from_json_segments vs from_segments: record", &recs, &r3, TOL_GC);
                cmp_fp(obs, "from_json_segments vs from_segments (behaviour)", &fp_base, &p.behaviour(&case.probes), tol_fp, worst);
            }
            Err(e) => obs.fail(format!("PcSaftParameters::from_json_segments fails: {e}")),
        }
    } else {
        let Some(fp) = gc_hetero(case, &base, obs, dft) else { return };
        fp_base = fp;
        match gc_hetero(case, &variant, obs, dft) {
            Some(f2) => {
                if dft && dft_single_ab_pair(case) {
                    // known finding: the analytic A-B branch of the association functional
                    // evaluates the association strength with the diameters of bead 0
                    // (src/association/dft.rs:205-208 `association_strength(temperature, 0, 0, ..)`)
                    let mut o2 = Obs::default();
                    cmp_fp(&mut o2, "segment order invariance (behaviour)", &fp_base, &f2, tol_fp, &Mutex::new(0.0));
                    obs.comparisons += o2.comparisons;
                    for m in o2.fails {
                        obs.known_or_fail("C14/gc-functional-association-strength-of-bead-0", m);
                    }
                } else {
                    cmp_fp(obs, "segment order invariance (behaviour)", &fp_base, &f2, tol_fp, worst)
                }
            }
            None => obs.fail("permuted inputs are rejected although the original inputs are accepted"),
        }
        obs.count();
        let n = case.chem.len();
        let r = if dft {
            GcPcSaftFunctionalParameters::from_json_segments(&q, p_chem.clone(), p_seg.clone(), p_bin.clone(), opt).map(|p| {
                (p.chemical_records.len(), fp_residual(ResidualModel::GcPcSaftFunctional(GcPcSaftFunctional::new(Arc::new(p))), n, &case.probes))
            })
        } else {
            GcPcSaftEosParameters::from_json_segments(&q, p_chem.clone(), p_seg.clone(), p_bin.clone(), opt).map(|p| {
                (p.chemical_records.len(), fp_residual(ResidualModel::GcPcSaft(GcPcSaft::new(Arc::new(p))), n, &case.probes))
            })
        };
        match r {
            Ok((k, f3)) => {
                obs.ensure(k == n, || format!("from_json_segments built {k} components for {n} queried"));
                cmp_fp(obs, "from_json_segments vs from_segments (behaviour)", &fp_base, &f3, tol_fp, worst);
            }
            Err(e) => obs.fail(format!("from_json_segments fails: {e}")),
        }
    }
    // unknown substance: must be rejected
    if case.missing_query {
        obs.class("inject:unknown");
        let mut q2 = q.clone();
        q2.insert(q2.len() / 2, "no-such-substance");
        let r = match case.route.as_str() {
            "homo" => PcSaftParameters::from_json_segments(&q2, p_chem.clone(), p_seg.clone(), p_bin.clone(), opt).map(|p| ncomp(&p)),
            "hetero-eos" => GcPcSaftEosParameters::from_json_segments(&q2, p_chem.clone(), p_seg.clone(), p_bin.clone(), opt).map(|p| p.chemical_records.len()),
            _ => GcPcSaftFunctionalParameters::from_json_segments(&q2, p_chem.clone(), p_seg.clone(), p_bin.clone(), opt).map(|p| p.chemical_records.len()),
        };
        obs.count();
        match r {
            Err(ParameterError::ComponentsNotFound(_)) => {}
            Err(e) => obs.fail(format!("from_json_segments with an unknown substance: expected ComponentsNotFound, got {} ({e})", err_kind(&e))),
            Ok(k) => obs.fail(format!("from_json_segments with an unknown substance built a model with {k} components for {} queried", q2.len())),
        }
    }
    // candidate F11: a repeated query. Observed and reported, not asserted.
    if case.dup_query {
        obs.class("observe:duplicate-query(F11)");
        q.push(q[0]);
        let r = match case.route.as_str() {
            "homo" => PcSaftParameters::from_json_segments(&q, p_chem, p_seg, p_bin, opt).map(|p| ncomp(&p)),
            "hetero-eos" => GcPcSaftEosParameters::from_json_segments(&q, p_chem, p_seg, p_bin, opt).map(|p| p.chemical_records.len()),
            _ => GcPcSaftFunctionalParameters::from_json_segments(&q, p_chem, p_seg, p_bin, opt).map(|p| p.chemical_records.len()),
        };
        let key = match r {
            Ok(k) if k == q.len() => format!("{}: Ok with all {} queried entries", case.route, "n"),
            Ok(k) if k + 1 == q.len() => format!("{}: Ok, silently de-duplicated (n-1 components for n queried strings)", case.route),
            Ok(_) => format!("{}: Ok with another component count", case.route),
            Err(e) => format!("{}: Err({})", case.route, err_kind(&e)),
        };
        *F11.lock().unwrap().entry(key).or_insert(0) += 1;
    }
}

// ---------------------------------------------------------------------------------------
// part `serde`: record round trips
// ---------------------------------------------------------------------------------------
#[derive(Serialize, Deserialize, Clone, Debug)]
pub struct SerdeCase {
    /// "pure:<Fam>", "pure:PengRobinson", "binary:<Fam>", "binary:PengRobinson", "segment:homo",
    /// "segment:hetero", "segment:joback", "segment-binary", "chemical", "identifier"
    pub kind: String,
    pub value: Value,
    /// floats carry all 17 digits (else 6 significant digits)
    pub full_precision: bool,
    pub probes: Vec<Probe>,
}

const SERDE_KINDS: [&str; 23] = [
    "pure:PcSaft", "pure:EPcSaft", "pure:VrMie", "pure:Vrq", "pure:Pets", "pure:Uv", "pure:Joback", "pure:Dippr", "pure:PengRobinson",
    "binary:PcSaft", "binary:EPcSaft", "binary:VrMie", "binary:Vrq", "binary:Pets", "binary:Uv", "binary:PengRobinson",
    "segment:homo", "segment:hetero", "segment:joback", "segment-binary", "chemical", "identifier", "pure:PcSaft",
];

fn fam_of(name: &str) -> Option<Fam> {
    FAMS.iter().copied().find(|f| format!("{f:?}") == name)
}

fn roughen(g: &mut Gen, v: &mut Value) {
    match v {
        Value::Number(n) => {
            if let Some(x) = n.as_f64() {
                if n.is_f64() && x.fract() != 0.0 {
                    *v = json!(x * (1.0 + g.unit() * 1e-3));
                }
            }
        }
        Value::Array(a) => a.iter_mut().for_each(|x| roughen(g, x)),
        Value::Object(o) => o.iter_mut().filter(|(k, _)| k.as_str() != "identifier").for_each(|(_, x)| roughen(g, x)),
        _ => {}
    }
}

pub fn decode_serde(g: &mut Gen) -> SerdeCase {
    let kind = g.pick(&SERDE_KINDS).to_string();
    let (a, b) = kind.split_once(':').unwrap_or((kind.as_str(), ""));
    let ident = |g: &mut Gen| {
        let k = g.index(10);
        drop_kinds(g, &full_identifier(k), 0.4)
    };
    let hetero_ids: Vec<String> = shipped("pcsaft/sauer2014_hetero.json").iter().map(|s| s["identifier"].as_str().unwrap().to_string()).collect();
    let mut value = match (a, b) {
        ("pure", "PengRobinson") => json!({"identifier": ident(g), "molarweight": r6(g.range(16.0, 200.0)), "model_record": {"tc": r6(g.range(100.0, 800.0)), "pc": r6(g.range(5e5, 1e7)), "acentric_factor": r6(g.range(-0.1, 0.9))}}),
        ("pure", f) => {
            let fam = fam_of(f).unwrap();
            let fh = g.index(3);
            let mut r = json!({"identifier": ident(g), "model_record": gen_model_record(g, fam, fh)});
            if fam == Fam::Vrq || g.bool(0.8) {
                r["molarweight"] = json!(r6(g.range(2.0, 200.0)));
            }
            r
        }
        ("binary", "PengRobinson") => json!({"id1": ident(g), "id2": ident(g), "model_record": r6(g.range(-0.15, 0.15))}),
        ("binary", f) => json!({"id1": ident(g), "id2": ident(g), "model_record": gen_binary_record(g, fam_of(f).unwrap()).unwrap()}),
        ("segment", "homo") => json!({"identifier": SEG_IDS[g.index(6)], "molarweight": r6(g.range(12.0, 60.0)), "model_record": gen_model_record(g, Fam::PcSaft, 0)}),
        ("segment", "hetero") => {
            let mut mr = json!({"m": r6(g.range(0.3, 1.6)), "sigma": r6(g.range(2.6, 4.2)), "epsilon_k": r6(g.range(150.0, 400.0))});
            if g.bool(0.4) {
                mr["mu"] = json!(r6(g.range(0.5, 3.5)));
            }
            if g.bool(0.4) {
                mr["kappa_ab"] = json!(r6(g.log_range(1e-3, 0.05)));
                mr["epsilon_k_ab"] = json!(r6(g.range(1000.0, 3000.0)));
                mr["na"] = json!(1.0);
                if g.bool(0.7) {
                    mr["nb"] = json!(1.0);
                }
            }
            if g.bool(0.3) {
                mr["psi_dft"] = json!(r6(g.range(1.2, 1.8)));
            }
            json!({"identifier": SEG_IDS[g.index(6)], "molarweight": r6(g.range(12.0, 60.0)), "model_record": mr})
        }
        ("segment", _) => json!({"identifier": SEG_IDS[g.index(6)], "molarweight": r6(g.range(12.0, 60.0)), "model_record": gen_model_record(g, Fam::Joback, 0)}),
        ("segment-binary", _) => json!({"id1": hetero_ids[g.index(hetero_ids.len())], "id2": hetero_ids[g.index(hetero_ids.len())], "model_record": r6(g.range(-0.1, 0.1))}),
        ("chemical", _) => {
            let n = 1 + g.index(8);
            let segs: Vec<String> = (0..n).map(|_| hetero_ids[g.index(6)].clone()).collect();
            let mut r = json!({"identifier": ident(g), "segments": segs});
            if g.bool(0.5) {
                r["bonds"] = json!((1..n).map(|s| [g.index(s), s]).collect::<Vec<_>>());
            }
            r
        }
        _ => ident(g),
    };
    let full_precision = g.bool(0.3);
    if full_precision {
        roughen(g, &mut value);
    }
    let cold = kind == "pure:Vrq" || kind == "binary:Vrq";
    SerdeCase { kind, value, full_precision, probes: gen_probes(g, cold) }
}

/// three serialisations of a record: s1 = to_string(r), s2 = to_string(from_str(s1)), s3 likewise
fn round_trip<T: DeserializeOwned + Serialize>(obs: &mut Obs, case: &SerdeCase) -> Option<(T, T)> {
    obs.count();
    let r: T = match serde_json::from_value(case.value.clone()) {
        Ok(r) => r,
        Err(e) => {
            obs.fail(format!("{}: a record with only documented fields does not parse: {e}: {}", case.kind, case.value));
            return None;
        }
    };
    let s1 = serde_json::to_string(&r).unwrap();
    let r2: T = match serde_json::from_str(&s1) {
        Ok(r) => r,
        Err(e) => {
            obs.fail(format!("{}: the serialised record cannot be read back: {e}: {s1}", case.kind));
            return None;
        }
    };
    let s2 = serde_json::to_string(&r2).unwrap();
    let s3 = match serde_json::from_str::<T>(&s2) {
        Ok(r3) => serde_json::to_string(&r3).unwrap(),
        Err(e) => {
            obs.fail(format!("{}: second read fails: {e}: {s2}", case.kind));
            return None;
        }
    };
    if !case.full_precision {
        obs.ensure(s1 == s2, || format!("{}: first round trip changes the text: {s1} -> {s2}", case.kind));
        obs.ensure(s2 == s3, || format!("{}: second round trip is not textually idempotent: {s2} -> {s3}", case.kind));
    } else if s2 != s3 || s1 != s2 {
        // serde_json without `float_roundtrip` may parse a 17-digit decimal one ulp off: reported only
        obs.class("17-digit-float-changed-by-serde_json-parse");
    }
    // faithful: every non-default number and every identifier string of the input is in the output
    let out = serde_json::to_value(&r).unwrap();
    let (mut li, mut lo) = (vec![], vec![]);
    leaves(&case.value, String::new(), &mut li);
    leaves(&out, String::new(), &mut lo);
    for (path, x) in li {
        if x != 0.0 && !lo.iter().any(|(p, y)| *p == path && *y == x) {
            obs.fail(format!("{}: input field {path} = {x} is not in the serialised record {out}", case.kind));
        }
    }
    for side in ["identifier", "id1", "id2"] {
        if case.value.get(side).map(|v| v.is_object()).unwrap_or(false) {
            obs.ensure(case.value[side] == out[side], || format!("{}: {side} {} serialises as {}", case.kind, case.value[side], out[side]));
        }
    }
    Some((r, r2))
}

/// fixed partner records for binary / segment behaviour (associating where the family allows it)
fn partner(fam: Fam, k: usize) -> Value {
    let genome = fixed_genome(100 + k as u64, 64);
    let mut g = Gen::new(&genome);
    let mut mr = gen_model_record(&mut g, fam, 1);
    match fam {
        Fam::PcSaft | Fam::EPcSaft => {
            mr["kappa_ab"] = json!(0.03 + 0.01 * k as f64);
            mr["epsilon_k_ab"] = json!(2500.0 - 300.0 * k as f64);
            mr["na"] = json!(1.0);
            mr["nb"] = json!(1.0);
            if let Some(o) = mr.as_object_mut() {
                o.remove("nc");
                o.remove("permittivity_record");
            }
        }
        Fam::VrMie => {
            mr["rc_ab"] = json!(0.4);
            mr["epsilon_k_ab"] = json!(2000.0 + 200.0 * k as f64);
            mr["na"] = json!(1.0);
            mr["nb"] = json!(1.0);
        }
        _ => {}
    }
    json!({"identifier": full_identifier(k), "molarweight": 30.0 + 10.0 * k as f64, "model_record": mr})
}

fn serde_pure<P: FamP>(case: &SerdeCase, obs: &mut Obs)
where
    P::Pure: Serialize,
{
    let Some((r, r2)) = round_trip::<PureRecord<P::Pure>>(obs, case) else { return };
    match (P::new_pure(r), P::new_pure(r2)) {
        (Ok(a), Ok(b)) => cmp_fp(obs, "model of the record vs model of the re-read record", &a.behaviour(&case.probes), &b.behaviour(&case.probes), serde_tol(case).0, serde_tol(case).1),
        (Err(e), _) | (_, Err(e)) => obs.fail(format!("{}: new_pure fails: {e}", case.kind)),
    }
}

fn serde_binary<P: FamP>(case: &SerdeCase, obs: &mut Obs, fam: Option<Fam>)
where
    P::Binary: Serialize,
{
    let Some((r, r2)) = round_trip::<BinaryRecord<Identifier, P::Binary>>(obs, case) else { return };
    let pure: Vec<PureRecord<P::Pure>> = match fam {
        Some(f) => (0..2).map(|k| serde_json::from_value(partner(f, k)).expect("partner record")).collect(),
        None => (0..2)
            .map(|k| serde_json::from_value(json!({"identifier": full_identifier(k), "molarweight": 40.0, "model_record": {"tc": 300.0 + 150.0 * k as f64, "pc": 4e6, "acentric_factor": 0.1 + 0.2 * k as f64}})).expect("partner record"))
            .collect(),
    };
    match (P::new_binary(pure.clone(), Some(r.model_record)), P::new_binary(pure, Some(r2.model_record))) {
        (Ok(a), Ok(b)) => cmp_fp(obs, "binary model of the record vs of the re-read record", &a.behaviour(&case.probes), &b.behaviour(&case.probes), serde_tol(case).0, serde_tol(case).1),
        (Err(e), _) | (_, Err(e)) => obs.fail(format!("{}: new_binary fails: {e}", case.kind)),
    }
}

static WORST_SERDE: Mutex<f64> = Mutex::new(0.0);
static WORST_SERDE_FULL: Mutex<f64> = Mutex::new(0.0);
/// 6-digit floats survive the text exactly: identical behaviour up to HashMap summation order
/// in the GC builders (1e-9, worst seen 4.7e-12). 17-digit floats: serde_json (built without `float_roundtrip`, as
/// feos does) re-reads about a third of them one ulp off; behaviour then agrees to 1e-8 (worst 1.8e-11 over 6e5 thorough cases).
fn serde_tol(case: &SerdeCase) -> (f64, &'static Mutex<f64>) {
    let gc = case.kind.starts_with("segment") || case.kind == "chemical";
    if case.full_precision {
        (1e-8, &WORST_SERDE_FULL)
    } else if gc {
        (TOL_GC_FP, &WORST_SERDE_GC)
    } else {
        (TOL_FP, &WORST_SERDE)
    }
}
static WORST_SERDE_GC: Mutex<f64> = Mutex::new(0.0);

pub fn check_serde(case: &SerdeCase, obs: &mut Obs) {
    obs.class(case.kind.clone());
    obs.class(if case.full_precision { "floats:17-digit" } else { "floats:6-digit" });
    // non-trivial: at least one optional field absent and one present
    let optional = ["mu", "q", "kappa_ab", "epsilon_k_ab", "rc_ab", "na", "nb", "nc", "viscosity", "diffusion", "thermal_conductivity", "z", "permittivity_record", "psi_dft", "k_ij", "gamma_ij", "molarweight", "bonds", "cas", "name", "iupac_name", "smiles", "inchi", "formula"];
    let mut keys = vec![];
    fn collect(v: &Value, out: &mut Vec<String>) {
        if let Value::Object(o) = v {
            for (k, x) in o {
                out.push(k.clone());
                collect(x, out);
            }
        }
    }
    collect(&case.value, &mut keys);
    let present = optional.iter().filter(|k| keys.iter().any(|x| x == *k)).count();
    if present > 0 {
        obs.class("optional-field-present");
    }
    obs.nontrivial();
    let (a, b) = case.kind.split_once(':').unwrap_or((case.kind.as_str(), ""));
    let tol = serde_tol(case).0;
    match (a, b) {
        ("pure", "PengRobinson") => serde_pure::<PengRobinsonParameters>(case, obs),
        ("pure", f) => {
            let fam = fam_of(f).unwrap();
            dispatch!(fam, serde_pure(case, obs))
        }
        ("binary", "PengRobinson") => serde_binary::<PengRobinsonParameters>(case, obs, None),
        ("binary", f) => {
            let fam = fam_of(f).unwrap();
            match fam {
                Fam::PcSaft => serde_binary::<PcSaftParameters>(case, obs, Some(fam)),
                Fam::EPcSaft => serde_binary::<ElectrolytePcSaftParameters>(case, obs, Some(fam)),
                Fam::VrMie => serde_binary::<SaftVRMieParameters>(case, obs, Some(fam)),
                Fam::Vrq => serde_binary::<SaftVRQMieParameters>(case, obs, Some(fam)),
                Fam::Pets => serde_binary::<PetsParameters>(case, obs, Some(fam)),
                _ => serde_binary::<UVTheoryParameters>(case, obs, Some(fam)),
            }
        }
        ("segment", "homo") => {
            let Some((r, r2)) = round_trip::<SegmentRecord<PcSaftRecord>>(obs, case) else { return };
            let other: SegmentRecord<PcSaftRecord> = serde_json::from_value(json!({"identifier": "other", "molarweight": 14.0, "model_record": {"m": 0.6, "sigma": 3.9, "epsilon_k": 250.0}})).unwrap();
            let build = |r: SegmentRecord<PcSaftRecord>| {
                let cr = ChemicalRecord::new(Identifier::default(), vec![r.identifier.clone(), "other".into(), "other".into()], None);
                PcSaftParameters::from_segments(vec![cr], vec![r, other.clone()], None)
            };
            match (build(r), build(r2)) {
                (Ok(a), Ok(b)) => cmp_fp(obs, "homo GC model of the segment vs of the re-read segment", &a.behaviour(&case.probes), &b.behaviour(&case.probes), tol, serde_tol(case).1),
                (Err(e), _) | (_, Err(e)) => obs.fail(format!("segment:homo: from_segments fails: {e}")),
            }
        }
        ("segment", "hetero") => {
            let Some((r, r2)) = round_trip::<SegmentRecord<GcPcSaftRecord>>(obs, case) else { return };
            let other: SegmentRecord<GcPcSaftRecord> = serde_json::from_value(json!({"identifier": "other", "molarweight": 14.0, "model_record": {"m": 0.6, "sigma": 3.9, "epsilon_k": 250.0}})).unwrap();
            let probes = &case.probes;
            let build = |r: SegmentRecord<GcPcSaftRecord>| -> Result<Vec<f64>, ParameterError> {
                let cr = ChemicalRecord::new(Identifier::default(), vec![r.identifier.clone(), "other".into(), "other".into()], None);
                let e = GcPcSaftEosParameters::from_segments(vec![cr.clone()], vec![r.clone(), other.clone()], None)?;
                let f = GcPcSaftFunctionalParameters::from_segments(vec![cr], vec![r, other.clone()], None)?;
                let mut v = fp_residual(ResidualModel::GcPcSaft(GcPcSaft::new(Arc::new(e))), 1, probes);
                v.extend(fp_residual(ResidualModel::GcPcSaftFunctional(GcPcSaftFunctional::new(Arc::new(f))), 1, probes));
                Ok(v)
            };
            match (build(r), build(r2)) {
                (Ok(a), Ok(b)) => cmp_fp(obs, "gc model of the segment vs of the re-read segment", &a, &b, tol, serde_tol(case).1),
                (Err(e), _) | (_, Err(e)) => obs.fail(format!("segment:hetero: from_segments fails: {e}")),
            }
        }
        ("segment", _) => {
            let Some((r, r2)) = round_trip::<SegmentRecord<JobackRecord>>(obs, case) else { return };
            let build = |r: SegmentRecord<JobackRecord>| {
                let cr = ChemicalRecord::new(Identifier::default(), vec![r.identifier.clone(), r.identifier.clone()], None);
                Joback::from_segments(vec![cr], vec![r], None)
            };
            match (build(r), build(r2)) {
                (Ok(a), Ok(b)) => cmp_fp(obs, "Joback model of the segment vs of the re-read segment", &a.behaviour(&case.probes), &b.behaviour(&case.probes), tol, serde_tol(case).1),
                (Err(e), _) | (_, Err(e)) => obs.fail(format!("segment:joback: from_segments fails: {e}")),
            }
        }
        ("segment-binary", _) => {
            let Some((r, r2)) = round_trip::<BinaryRecord<String, f64>>(obs, case) else { return };
            let segs: Vec<SegmentRecord<GcPcSaftRecord>> = typed_vec(&shipped("pcsaft/sauer2014_hetero.json"), "segment").unwrap();
            let probes = &case.probes;
            let build = |r: BinaryRecord<String, f64>| -> Result<Vec<f64>, ParameterError> {
                let c1 = ChemicalRecord::new(Identifier::default(), vec![r.id1.clone(), "CH3".into()], None);
                let c2 = ChemicalRecord::new(Identifier::default(), vec!["CH3".into(), r.id2.clone()], None);
                let e = GcPcSaftEosParameters::from_segments(vec![c1, c2], segs.clone(), Some(vec![r]))?;
                Ok(fp_residual(ResidualModel::GcPcSaft(GcPcSaft::new(Arc::new(e))), 2, probes))
            };
            match (build(r), build(r2)) {
                (Ok(a), Ok(b)) => cmp_fp(obs, "gc mixture with the binary segment record vs the re-read one", &a, &b, tol, serde_tol(case).1),
                (Err(e), _) | (_, Err(e)) => obs.fail(format!("segment-binary: from_segments fails: {e}")),
            }
        }
        ("chemical", _) => {
            let Some((r, r2)) = round_trip::<ChemicalRecord>(obs, case) else { return };
            // documented default: no bonds => linear chain
            obs.ensure(r.bonds == bond_list(&case.value), || format!("chemical record bonds {:?}, expected {:?}", r.bonds, bond_list(&case.value)));
            obs.ensure(r.segments == r2.segments && r.bonds == r2.bonds, || "re-read chemical record differs".to_string());
            let segs: Vec<SegmentRecord<GcPcSaftRecord>> = typed_vec(&shipped("pcsaft/sauer2014_hetero.json"), "segment").unwrap();
            let probes = &case.probes;
            let build = |r: ChemicalRecord| -> Result<Vec<f64>, ParameterError> {
                let e = GcPcSaftEosParameters::from_segments(vec![r.clone()], segs.clone(), None)?;
                let f = GcPcSaftFunctionalParameters::from_segments(vec![r], segs.clone(), None)?;
                let mut v = fp_residual(ResidualModel::GcPcSaft(GcPcSaft::new(Arc::new(e))), 1, probes);
                v.extend(fp_residual(ResidualModel::GcPcSaftFunctional(GcPcSaftFunctional::new(Arc::new(f))), 1, probes));
                Ok(v)
            };
            match (build(r), build(r2)) {
                (Ok(a), Ok(b)) => cmp_fp(obs, "gc model of the chemical record vs of the re-read record", &a, &b, tol, serde_tol(case).1),
                (Err(e), _) | (_, Err(e)) => obs.fail(format!("chemical: from_segments fails: {e}")),
            }
        }
        _ => {
            let Some((r, r2)) = round_trip::<Identifier>(obs, case) else { return };
            for k in KINDS {
                obs.ensure(r.as_string(opt_of(k)) == r2.as_string(opt_of(k)) && r.as_string(opt_of(k)) == id_str(&case.value, k), || format!("identifier kind {k} changes in the round trip"));
            }
        }
    }
}

const PART_SHIPPED: PartCfg = PartCfg { name: "shipped", genome_len: 64, cases_quick: 4000, cases_thorough: 100_000, panic: PanicPolicy::Violation };
const PART_GC: PartCfg = PartCfg { name: "gc", genome_len: 256, cases_quick: 9000, cases_thorough: 150_000, panic: PanicPolicy::Violation };
const PART_SERDE: PartCfg = PartCfg { name: "serde", genome_len: 96, cases_quick: 36000, cases_thorough: 600_000, panic: PanicPolicy::Violation };
const PART_FILES: PartCfg = PartCfg { name: "files", genome_len: 640, cases_quick: 10000, cases_thorough: 200_000, panic: PanicPolicy::Violation };

pub fn run(ctx: &Ctx) {
    ctx.set_rule("files (sampled): a universe of 2-8 substances with identifiers in all six kinds (strings distinct inside a kind, colliding across kinds; 5 % of the kinds dropped per record) is spread over 1-3 JSON files (overlapping, different parameters per file, random file order) of one of 8 real parameter types (PcSaft, ePC-SAFT, SAFT-VR Mie, SAFT-VRQ Mie, PeTS, uv-theory, Joback, DIPPR; every optional field present/absent); binary file absent / empty / 60 % of the pairs stored as (id1,id2) or (id2,id1) in random order; request = 1-3 (file, list) entries with 1-4 strings in total, 12 % injected duplicate, 12 % injected unknown (foreign kind, other file, nonsense); every IdentifierOption; routes from_json / from_multiple_json, then from_records, new_binary (n = 2), subset, and the same request against the reversed files with re-oriented binary records. files-exhaustive (lattice, seed independent): every ordered subset up to size 4 of a 5-record file, all six options for PcSaft and one option for each other family. shipped: 1-4 records from 1-3 files of 8 shipped file groups with their binary files, optional duplicate / unknown. gc: homo (PcSaftParameters) / hetero (GcPcSaftEosParameters, GcPcSaftFunctionalParameters) from_segments and from_json_segments over the shipped tables (and binary tables) or synthetic tables of 2-6 segments, 1-3 molecules of 1-8 beads with linear-default or explicit tree bonds (or shipped gc substances). serde: 22 record types, optional fields present/absent, 6-digit or 17-digit floats. Non-trivial: files/shipped: query order differs from file order, or a reversed binary record is used, or a rejection is demanded; gc: repeated segment and (homo or branched); serde: every case. Distinct by hash of the canonical case JSON.");
    ctx.assume("reference model in the harness: components in request order carrying the requested identifier; binary entry (i,j) = the stored record whose two identifiers match under the selected kind in either orientation, Default::default() otherwise, symmetric, default on the diagonal; repeated string => Err(IncompatibleParameters); unknown string => Err(ComponentsNotFound); both => either; never Ok with fewer components. Expected records are re-read from the very text the library reads (same JSON parser), so record equality is exact JSON equality");
    ctx.assume("model behaviour = (a_res, p, mu_res_i) at 3 states (T 250-600 K, 20-120 K for SAFT-VRQ Mie, 280-370 K for ePC-SAFT; 1e-3..0.8 of the maximum density) or ln Lambda^3 at 6 temperatures for ideal-gas models; file route vs from_records vs new_binary vs subset vs reversed files: relative 1e-13 (measured 0: identical arithmetic); GC builders iterate HashMaps: combining rules 1e-11 (worst 3.6e-14 in the thorough tier), behaviour under bead/table permutation 1e-9 (worst 2.2e-12), 1e-6 with the iterative cross-association solver (converges X to 1e-10; worst 2e-12); fingerprint entries that overflow (|value| > 1e30 or non-finite, unphysical generated molecules) are skipped and counted as a class");
    ctx.assume("documented combining rules (homo): m = sum n_i m_i, sigma^3 = sum n_i m_i sigma_i^3 / m, epsilon = sum n_i m_i eps_i / m, MW = sum n_i MW_i, mu = sum n_i mu_i, q = sum n_i q_i, kappa_ab / epsilon_k_ab / na / nb / nc summed with counts, k_ij = sum n_a n_b k_ab / sum n_a n_b; more than one polar/associating group per molecule may be rejected with IncompatibleParameters (class). Hetero EoS: one entry per (component, segment kind) with m x count, bond counts per unordered segment pair, segment k_ij only between different components; functional: one bead per listed segment in record order, bonds as listed (linear default), psi_dft default 1.5357");
    ctx.assume("serde: 6-digit floats: to_string(from_str(to_string(r))) == to_string(r) and the second round trip is textually idempotent, behaviour identical (1e-13; 1e-9 through the GC builders whose HashMap summation order differs per call, worst 4.7e-12); 17-digit floats: serde_json without `float_roundtrip` (feos' configuration) re-reads about one third of them one ulp off, so text identity is only reported (class) and behaviour is compared to 1e-8 (worst 1.8e-11)");
    ctx.assume("F11 (from_json_segments with a repeated query) is observed and reported under coverage.F11_from_json_segments_repeated_query_observed, not asserted; scratch files live in $VERIF_ROOT/work/c14-p<pid>/<hash of case>-t<thread>-*.json and are removed inside the case");
    ctx.run_sampled(&PART_FILES, &decode_files, &check_files);
    ctx.run_sampled(&PART_SHIPPED, &decode_shipped, &check_shipped);
    ctx.run_sampled(&PART_GC, &decode_gc, &check_gc);
    ctx.extra("F11_from_json_segments_repeated_query_observed", json!(*F11.lock().unwrap()));
    ctx.extra("worst_gc_rule_deviation", json!(*WORST_GC.lock().unwrap()));
    ctx.extra("worst_gc_behaviour_deviation", json!({"analytic_or_no_association": *WORST_GC_FP.lock().unwrap(), "iterative_cross_association": *WORST_GC_FP_ASSOC.lock().unwrap()}));
    ctx.run_sampled(&PART_SERDE, &decode_serde, &check_serde);
    ctx.extra("worst_behaviour_deviation_serde", json!({"6-digit floats": *WORST_SERDE.lock().unwrap(), "6-digit floats, GC builders": *WORST_SERDE_GC.lock().unwrap(), "17-digit floats": *WORST_SERDE_FULL.lock().unwrap()}));
    ctx.run_lattice("files-exhaustive", exhaustive_cases(), PanicPolicy::Violation, true, &check_files);
    ctx.extra("worst_behaviour_deviation_files", json!(*WORST_FP.lock().unwrap()));
    remove_scratch_root();
}

pub fn replay(ctx: &Ctx, part: &str, case: &Value) -> bool {
    let r = replay_inner(ctx, part, case);
    remove_scratch_root();
    r
}

fn replay_inner(ctx: &Ctx, part: &str, case: &Value) -> bool {
    match part {
        "files" | "files-exhaustive" => ctx.replay_case::<FilesCase>(case, &check_files),
        "shipped" => ctx.replay_case::<ShippedCase>(case, &check_shipped),
        "gc" => ctx.replay_case::<GcCase>(case, &check_gc),
        "serde" => ctx.replay_case::<SerdeCase>(case, &check_serde),
        _ => false,
    }
}
