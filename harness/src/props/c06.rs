//! C06 — critical points and spinodals satisfy their defining conditions.
//!
//! Every condition is recomputed from public getters on a *fresh* state rebuilt at the
//! returned (T, V, N): pure fluids dp/dV = d2p/dV2 = 0 at p > 0; mixtures the smallest
//! eigenvalue of M_ij = sqrt(N_i N_j) dmu_i/dN_j (Total) / (RT) (own Jacobi solver) and the
//! cubic form along its eigenvector (Ridders' central differences of the quadratic form).
use crate::engine::{Ctx, Gen, Obs, PanicPolicy, PartCfg};
use crate::model::*;
use crate::oracle::{jacobi_eigen, ridders};
use feos::core::{
    Components, Contributions, PhaseDiagram, PhaseEquilibrium, ReferenceSystem, Residual, SolverOptions,
    State,
};
use ndarray::Array1;
use quantity::*;
use serde::{Deserialize, Serialize};
use serde_json::{json, Value};
use std::sync::Arc;

use Contributions::Total as TOT;

// ---------------------------------------------------------------------------------------
// tolerances (dimensionless; see `run` for the reasoning and the measured worst values)
// ---------------------------------------------------------------------------------------
/// pure fluids: |V^2 dp_dv/(N R T)| and |V^3 d2p_dv2/(N R T)| at a returned critical point
/// (100 x what the solver's 1e-8 objective tolerance implies; worst seen 2.3e-12 / 1.0e-11)
pub const TOL_PURE_1: f64 = 1e-6;
pub const TOL_PURE_2: f64 = 1e-4;
/// smallest eigenvalue of M at returned spinodal states (worst seen 2.7e-12)
pub const TOL_SPINODAL: f64 = 1e-6;
/// smallest eigenvalue of M and scale-invariant cubic form at returned (mixture) critical points.
/// The solver tests norm([lambda_min, v3]) < 1e-8 *before* its last update, and its v3 scales
/// with N^(-1/2) (1e-12 for one mole), so the cubic condition does not take part in the test:
/// worst seen over 8 seeds + a 20 x run: |lambda_min| 3.2e-6, |cubic| 1.4e-5 (PC-SAFT
/// tetradecane/eicosane/hexadecane, replay kept); tolerances = 50 x that.
pub const TOL_LAMBDA: f64 = 2e-4;
pub const TOL_CUBIC: f64 = 1e-3;
/// Peng-Robinson: computed (Tc, pc) against the record
pub const TOL_PR: f64 = 3e-4;
/// binary critical point at given p (worst seen 4.9e-9)
pub const TOL_P: f64 = 1e-6;
/// two converged solves from different initial temperatures (Peng-Robinson pure: unique root)
pub const TOL_SAME: f64 = 1e-6;

type St = State<Model>;

/// largest observed values of the asserted quantities (reported in the evidence)
static WORST: std::sync::Mutex<std::collections::BTreeMap<String, f64>> = std::sync::Mutex::new(std::collections::BTreeMap::new());
fn worst(key: &str, v: f64) {
    if v.is_finite() {
        let mut w = WORST.lock().unwrap();
        let e = w.entry(key.to_string()).or_insert(0.0);
        if v > *e {
            *e = v;
        }
    }
}

/// record a violated clause together with a histogram label (the engine keeps only the first
/// ten failing lattice cases, the labels show every clause that failed anywhere)
fn ensure(obs: &mut Obs, key: &str, cond: bool, msg: impl FnOnce() -> String) -> bool {
    if !cond {
        obs.class(format!("FAILED:{key}"));
    }
    obs.ensure(cond, msg)
}

fn fresh(model: &Arc<Model>, s: &St) -> Option<St> {
    State::new_nvt(model, s.temperature, s.volume, &s.moles).ok()
}

/// What the criticality / spinodal conditions evaluate to on a state.
struct Measures {
    lambda_min: f64,
    /// eigenvector of the smallest eigenvalue
    u: Vec<f64>,
}

fn m_matrix(s: &St) -> Vec<Vec<f64>> {
    let n = s.eos.components();
    let nm = s.moles.to_reduced();
    let t = s.temperature.to_reduced();
    let d = s.dmu_dni(TOT).to_reduced();
    (0..n)
        .map(|i| (0..n).map(|j| (nm[i] * nm[j]).sqrt() * d[[i, j]] / t).collect())
        .collect()
}

fn measures(s: &St) -> Measures {
    let m = m_matrix(s);
    let (ev, vecs) = jacobi_eigen(&m);
    let n = ev.len();
    let mut k = 0;
    for i in 1..n {
        if ev[i] < ev[k] {
            k = i;
        }
    }
    let u: Vec<f64> = (0..n).map(|i| vecs[i][k]).collect();
    Measures { lambda_min: ev[k], u }
}

/// Scale-invariant cubic form C = sqrt(N) * sum_ijk A_ijk dn_i dn_j dn_k / (RT) with
/// dn_i = u_i sqrt(N_i), as the derivative with respect to eps of
/// q(eps) = dn^T dmu_dni(T, V, n + eps sqrt(N) dn) dn / (RT)   (q(0) = lambda_min).
/// Returns (C, error estimate).
fn cubic_form(model: &Arc<Model>, s: &St, u: &[f64]) -> Option<(f64, f64)> {
    let nm = s.moles.to_reduced();
    let ntot: f64 = nm.sum();
    let t = s.temperature.to_reduced();
    let dn: Vec<f64> = u.iter().zip(nm.iter()).map(|(u, n)| u * n.sqrt()).collect();
    // keep all mole numbers positive: eps * sqrt(N) * |dn_i| < N_i / 2
    let mut h0: f64 = 2e-2;
    for i in 0..dn.len() {
        if dn[i] != 0.0 {
            h0 = h0.min(0.25 * nm[i] / (ntot.sqrt() * dn[i].abs()));
        }
    }
    let q = |eps: f64| -> Option<f64> {
        let n2: Array1<f64> = nm
            .iter()
            .zip(dn.iter())
            .map(|(n, d)| n + eps * ntot.sqrt() * d)
            .collect();
        let st = State::new_nvt(model, s.temperature, s.volume, &Moles::from_reduced(n2)).ok()?;
        let d = st.dmu_dni(TOT).to_reduced();
        let mut acc = 0.0;
        for i in 0..dn.len() {
            for j in 0..dn.len() {
                acc += dn[i] * dn[j] * d[[i, j]] / t;
            }
        }
        Some(acc)
    };
    ridders(q, 0.0, h0)
}

/// criticality conditions of a returned state; `what` labels the messages.
/// Returns true if both conditions were evaluated conclusively.
fn check_critical(model: &Arc<Model>, s: &St, obs: &mut Obs, what: &str) -> bool {
    let Some(f) = fresh(model, s) else {
        obs.fail(format!("{what}: the returned state cannot be rebuilt with State::new_nvt"));
        return false;
    };
    let ms = measures(&f);
    worst(&format!("|lambda_min| {}", what.split(" (").next().unwrap_or(what)), ms.lambda_min.abs());
    ensure(obs, "critical:lambda_min", ms.lambda_min.abs() <= TOL_LAMBDA, || {
        format!(
            "{what}: smallest eigenvalue of the scaled Hessian is {:e} (tolerance {TOL_LAMBDA:e}) at T={} rho={} x={}",
            ms.lambda_min, f.temperature, f.density, f.molefracs
        )
    });
    match cubic_form(model, &f, &ms.u) {
        None => {
            obs.inconclusive(format!("{what}: cubic form (neighbour state failed)"));
            false
        }
        Some((c, err)) => {
            if !(err <= TOL_CUBIC) {
                obs.inconclusive(format!("{what}: cubic form"));
                return false;
            }
            worst(&format!("|cubic| {}", what.split(" (").next().unwrap_or(what)), c.abs());
            worst("cubic Ridders error estimate", err);
            ensure(obs, "critical:cubic", c.abs() <= TOL_CUBIC + 50.0 * err, || {
                format!(
                    "{what}: cubic form along the critical eigenvector is {c:e} (err est {err:e}, tolerance {TOL_CUBIC:e}) at T={} rho={} x={}",
                    f.temperature, f.density, f.molefracs
                )
            });
            true
        }
    }
}

/// pure-fluid formulation of the property: dp/dV = 0, d2p/dV2 = 0, p > 0.
/// Returns the pressure (reduced) of the fresh state.
fn check_critical_pure(model: &Arc<Model>, spec: &ModelSpec, default_call: bool, s: &St, obs: &mut Obs, what: &str) -> f64 {
    let Some(f) = fresh(model, s) else {
        obs.fail(format!("{what}: the returned state cannot be rebuilt with State::new_nvt"));
        return f64::NAN;
    };
    let v = f.volume.to_reduced();
    let n: f64 = f.moles.to_reduced().sum();
    let t = f.temperature.to_reduced();
    let a = v * v * f.dp_dv(TOT).to_reduced() / (n * t);
    let b = v * v * v * f.d2p_dv2(TOT).to_reduced() / (n * t);
    let p = f.pressure(TOT).to_reduced();
    worst("|V^2 dp_dv/(NRT)| pure", a.abs());
    worst("|V^3 d2p_dv2/(NRT)| pure", b.abs());
    ensure(obs, "pure:dp_dv", a.abs() <= TOL_PURE_1, || {
        format!("{what}: V^2 dp_dv/(N R T) = {a:e} (tolerance {TOL_PURE_1:e}) at T={} rho={}", f.temperature, f.density)
    });
    ensure(obs, "pure:d2p_dv2", b.abs() <= TOL_PURE_2, || {
        format!("{what}: V^3 d2p_dv2/(N R T) = {b:e} (tolerance {TOL_PURE_2:e}) at T={} rho={}", f.temperature, f.density)
    });
    obs.count();
    if !(p > 0.0) {
        let msg = format!(
            "{what}: pressure {:e} Pa is not positive at T={} rho={}",
            f.pressure(TOT).convert_to(PASCAL),
            f.temperature,
            f.density
        );
        obs.class("pure critical point at p <= 0");
        // signature: the model has a confirmed vapour-liquid critical point at a higher
        // temperature (found from other initial temperatures); the returned point is a second
        // stationary point of the isotherms in the stretched-liquid region
        if vle_critical_point_above(model, t).is_some() {
            obs.known_or_fail("C06/pure-critical-point-negative-pressure", msg);
        } else {
            obs.class("FAILED:pure:p>0");
            obs.fail(msg);
        }
    }
    let _ = (spec, default_call);
    p
}

/// Spinodal pair [vapor, liquid] at the given temperature against the critical point `cp` of the
/// same model and composition. `vle`: saturated densities (vapor, liquid) of a pure fluid.
/// `theta`: T / T_c.
#[allow(clippy::too_many_arguments)]
fn check_spinodal_pair(
    model: &Arc<Model>,
    sp: &[St; 2],
    cp: &St,
    t_spec: Option<Temperature>,
    theta: f64,
    vle: Option<(f64, f64)>,
    in_domain: bool,
    obs: &mut Obs,
    what: &str,
) {
    let pure = cp.eos.components() == 1;
    let rho_c = cp.density.to_reduced();
    // states beyond the model's own liquid-density estimate (packing fraction max_eta) are outside
    // the range in which the models are meant to be evaluated (uv-theory B3 zoo mixture: a
    // "liquid spinodal" at packing fraction 1.0 on a cut-off of the piecewise model)
    if let Ok(rm) = model.max_density(Some(&cp.moles)) {
        if sp.iter().any(|s| s.density.to_reduced() > rm.to_reduced()) {
            obs.class("spinodal state beyond max_density: not asserted");
            return;
        }
    }
    let mut rho = [0.0; 2];
    for (k, (s, side)) in sp.iter().zip(["vapor", "liquid"]).enumerate() {
        let Some(f) = fresh(model, s) else {
            obs.fail(format!("{what}: the returned {side} spinodal state cannot be rebuilt"));
            return;
        };
        let ms = measures(&f);
        rho[k] = f.density.to_reduced();
        worst(&format!("|lambda_min| spinodal {side}"), ms.lambda_min.abs());
        ensure(obs, "spinodal:lambda_min", ms.lambda_min.abs() <= TOL_SPINODAL, || {
            format!(
                "{what}: {side} spinodal state has smallest eigenvalue {:e} (tolerance {TOL_SPINODAL:e}) at T={} rho={}",
                ms.lambda_min, f.temperature, f.density
            )
        });
        if let Some(t) = t_spec {
            ensure(obs, "spinodal:T", f.temperature.to_reduced() == t.to_reduced(), || {
                format!("{what}: {side} spinodal temperature {} differs from the specification {}", f.temperature, t)
            });
        }
        // composition is the specified one
        let dx: f64 = f.molefracs.iter().zip(cp.molefracs.iter()).map(|(a, b)| (a - b).abs()).sum();
        ensure(obs, "spinodal:x", dx <= 1e-12, || format!("{what}: {side} spinodal composition differs from the specification by {dx:e}"));
    }
    let bracket = rho[0] < rho_c && rho_c < rho[1];
    obs.count();
    if !bracket && !in_domain {
        obs.class("zoo mixture (not 'as in C05'): critical density not bracketed, not asserted");
    } else if !bracket {
        let msg = format!(
            "{what}: spinodal densities do not bracket the critical density: rho_v={:e} rho_c={rho_c:e} rho_l={:e} (T={})",
            rho[0], rho[1], sp[0].temperature
        );
        // signature: the liquid-side iteration returned the vapour spinodal again, and the seed
        // 2 rho_c - rho_v of the liquid-side Newton iteration (critical_point.rs:345) is outside the
        // basin of attraction of the liquid spinodal: lambda_min(rho) does not increase with density
        // there (a Newton step on lambda_min then moves away from the liquid spinodal, whatever the
        // sign of lambda_min), or the seed lies beyond the density range of the model
        let seed = 2.0 * rho_c - rho[0];
        let lam_at = |r: f64| -> Option<f64> {
            let st = State::new_nvt(model, sp[0].temperature, sp[0].moles.sum() / Density::from_reduced(r), &sp[0].moles).ok()?;
            Some(measures(&st).lambda_min).filter(|l| l.is_finite())
        };
        let downhill = match (lam_at(seed * (1.0 - 1e-4)), lam_at(seed * (1.0 + 1e-4))) {
            // "does not increase": up to 1e-6 of the value over the 2e-4 relative density step
            // (at the exact minimum of lambda_min the direction of the first Newton step depends on
            // the last digits of the library's own rho_c and rho_v)
            (Some(a), Some(b)) => b - a <= 1e-6 * (1.0 + a.abs()),
            _ => true,
        };
        if (rho[1] / rho[0] - 1.0).abs() <= 1e-6 && rho[0] < rho_c && downhill {
            obs.class(format!("liquid spinodal = vapour spinodal, theta in [{:.1},{:.1})", (theta * 10.0).floor() / 10.0, (theta * 10.0).floor() / 10.0 + 0.1));
            obs.known_or_fail("C06/liquid-spinodal-on-vapour-branch", msg);
        } else {
            obs.class("FAILED:spinodal:bracket");
            obs.fail(msg);
        }
    } else {
        obs.class("spinodal brackets the critical density");
    }
    if let Some((rv, rl)) = vle {
        ensure(obs, "spinodal:inside-binodal(vapor)", rv < rho[0], || {
            format!("{what}: vapor spinodal not inside the binodal: rho_v_sat={rv:e} rho_v_spin={:e} (T={})", rho[0], sp[0].temperature)
        });
        if bracket {
            ensure(obs, "spinodal:inside-binodal(liquid)", rho[1] < rl, || {
                format!("{what}: liquid spinodal not inside the binodal: rho_l_spin={:e} rho_l_sat={rl:e} (T={})", rho[1], sp[0].temperature)
            });
        }
        obs.class("inside-binodal checked");
    }
    // a state midway between the two spinodal densities is unstable
    if bracket {
        let rho_mid = 0.5 * (rho[0] + rho[1]);
        let ntot = sp[0].moles.sum();
        if let Ok(mid) = State::new_nvt(model, sp[0].temperature, ntot / Density::from_reduced(rho_mid), &sp[0].moles) {
            let ms = measures(&mid);
            if pure {
                ensure(obs, "spinodal:midpoint", ms.lambda_min < 0.0, || {
                    format!(
                        "{what}: state midway between the spinodal densities is not unstable: lambda_min={:e} at rho={rho_mid:e} (T={})",
                        ms.lambda_min, sp[0].temperature
                    )
                });
            } else {
                // mixtures at fixed composition can have several unstable density intervals
                obs.class(if ms.lambda_min < 0.0 { "mixture midpoint unstable" } else { "mixture midpoint stable (several unstable intervals)" });
            }
        }
    }
}

/// A confirmed vapour-liquid critical point of the pure model above temperature `t` (K), searched
/// from a few initial temperatures.
fn vle_critical_point_above(model: &Arc<Model>, t: f64) -> Option<St> {
    for ti in [1.5 * t, 2.0 * t, 3.0 * t, 4.0 * t, 500.0, 700.0] {
        if let Ok(s) = State::critical_point(model, None, Some(Temperature::from_reduced(ti)), SolverOptions::default()) {
            if s.temperature.to_reduced() > 1.05 * t && is_vle_critical_point(model, &s) {
                return Some(s);
            }
        }
    }
    None
}

/// Is the returned critical point the vapour-liquid critical point of this composition, so that
/// "T in [0.5,0.99] T_c" refers to the temperature the property means? Positive pressure; on the
/// critical isotherm the fluid is stable on both sides of the critical density (lambda_min has a
/// minimum there: the two spinodal branches emerge *below* T_c, not above as at a point where a
/// stable window opens inside an unstable region); just below T_c the fluid is unstable at the
/// critical density. Recomputed from fresh states, independent of the phase-equilibrium solvers.
fn is_vle_critical_point(model: &Arc<Model>, cp: &St) -> bool {
    if !(cp.pressure(TOT).to_reduced() > 0.0) {
        return false;
    }
    let lam = |ft: f64, fv: f64| -> Option<f64> {
        let s = State::new_nvt(model, cp.temperature * ft, cp.volume * fv, &cp.moles).ok()?;
        Some(measures(&s).lambda_min)
    };
    matches!(
        (lam(0.99, 1.0), lam(1.0, 1.0 / 0.97), lam(1.0, 1.0 / 1.03)),
        (Some(a), Some(b), Some(c)) if a < 0.0 && b > 0.0 && c > 0.0
    )
}

// ---------------------------------------------------------------------------------------
// part 1: pure substances (lattice over the shipped records, sampled Peng-Robinson triples)
// ---------------------------------------------------------------------------------------
#[derive(Serialize, Deserialize, Clone, Debug)]
pub struct PureCase {
    pub spec: ModelSpec,
    /// initial temperatures as multiples of the converged critical temperature
    pub f_init: Vec<f64>,
    /// spinodal temperatures as multiples of the critical temperature
    pub theta: Vec<f64>,
}

pub fn check_pure(case: &PureCase, obs: &mut Obs) {
    let spec = &case.spec;
    obs.class(spec.label());
    obs.class(spec.source.clone());
    let model = match spec.build() {
        Ok(m) => m,
        Err(e) => {
            obs.discard(format!("build:{}", e.chars().take(40).collect::<String>()));
            return;
        }
    };
    let opt = SolverOptions::default();
    let cp = match State::critical_point(&model, None, None, opt) {
        Ok(s) => s,
        Err(_) => {
            obs.class("critical_point: Err");
            return;
        }
    };
    obs.class("critical_point: Ok");
    check_critical_pure(&model, spec, true, &cp, obs, "critical_point (pure)");
    check_critical(&model, &cp, obs, "critical_point (pure)");
    let tc = cp.temperature;
    let (tc_r, rho_c) = (tc.to_reduced(), cp.density.to_reduced());
    obs.nontrivial();

    // Peng-Robinson: the critical point is the (Tc, pc) the parameters were built from
    if spec.family == Family::PengRobinson {
        let mr = &spec.pure[0]["model_record"];
        let (tc0, pc0) = (mr["tc"].as_f64().unwrap(), mr["pc"].as_f64().unwrap());
        let (tk, pk) = (tc.convert_to(KELVIN), cp.pressure(TOT).convert_to(PASCAL));
        let ok = (tk / tc0 - 1.0).abs() <= TOL_PR && (pk / pc0 - 1.0).abs() <= TOL_PR;
        obs.count();
        if !ok {
            let msg = format!("Peng-Robinson: computed critical point T={tk} K p={pk:e} Pa differs from the record Tc={tc0} K pc={pc0:e} Pa");
            // signature: the returned point is the second root beyond the kink of alpha(T)
            // (kappa > 1, T > 2 Tc) while a start at the record's Tc returns the record's point
            let w = mr["acentric_factor"].as_f64().unwrap();
            let kappa = 0.37464 + 1.54226 * w - 0.26992 * w * w;
            let from_tc = State::critical_point(&model, None, Some(Temperature::from_reduced(tc0)), opt)
                .map(|s| (s.temperature.convert_to(KELVIN) / tc0 - 1.0).abs() <= TOL_PR && (s.pressure(TOT).convert_to(PASCAL) / pc0 - 1.0).abs() <= TOL_PR)
                .unwrap_or(false);
            if kappa > 1.0 && tk > 2.0 * tc0 && from_tc {
                obs.class("Peng-Robinson second root (alpha kink)");
                obs.known_or_fail("C06/peng-robinson-second-critical-point", msg);
            } else {
                obs.class("FAILED:PR:Tc,pc");
                obs.fail(msg);
            }
        } else {
            worst("Peng-Robinson |Tc_calc/Tc-1|", (tk / tc0 - 1.0).abs());
            worst("Peng-Robinson |pc_calc/pc-1|", (pk / pc0 - 1.0).abs());
            obs.class("Peng-Robinson Tc, pc reproduced");
        }
    }

    // other initial temperatures: conditions hold at whatever is returned
    for &f in &case.f_init {
        match State::critical_point(&model, None, Some(tc * f), opt) {
            Err(_) => obs.class("initial temperature: Err"),
            Ok(s) => {
                check_critical_pure(&model, spec, false, &s, obs, &format!("critical_point (pure, T_init={f:.3} Tc)"));
                let same = (s.temperature.to_reduced() / tc_r - 1.0).abs() <= TOL_SAME
                    && (s.density.to_reduced() / rho_c - 1.0).abs() <= TOL_SAME;
                if same {
                    worst("same point |dT/T| (pure)", (s.temperature.to_reduced() / tc_r - 1.0).abs());
                }
                let near = |st: &St| {
                    spec.family == Family::PengRobinson
                        && st.temperature.convert_to(KELVIN) < 2.0 * spec.pure[0]["model_record"]["tc"].as_f64().unwrap_or(0.0)
                };
                if near(&s) && near(&cp) {
                    // below the kink of alpha(T) the cubic has exactly one critical point
                    ensure(obs, "PR:same point", same, || {
                        format!(
                            "Peng-Robinson: T_init={f:.3} Tc converged to a different point: T={} rho={} vs T={} rho={}",
                            s.temperature, s.density, cp.temperature, cp.density
                        )
                    });
                }
                obs.class(if same { "initial temperature: same point" } else { "initial temperature: different root" });
            }
        }
    }

    // spinodals: T in [0.5,0.99] T_c refers to the vapour-liquid critical temperature
    if !is_vle_critical_point(&model, &cp) {
        obs.class("critical point is not a confirmed vapour-liquid critical point: spinodals skipped");
        return;
    }
    for &th in &case.theta {
        let t = tc * th;
        match State::spinodal(&model, t, None, opt) {
            Err(_) => obs.class(format!("spinodal: Err (theta={th:.2})")),
            Ok(sp) => {
                obs.class("spinodal: Ok");
                let vle = PhaseEquilibrium::pure(&model, t, None, opt)
                    .ok()
                    .map(|v| (v.vapor().density.to_reduced(), v.liquid().density.to_reduced()));
                if vle.is_none() {
                    obs.class("binodal: Err");
                }
                check_spinodal_pair(&model, &sp, &cp, Some(t), th, vle, true, obs, &format!("spinodal (pure, T={th:.3} Tc)"));
            }
        }
    }
}

fn pure_lattice() -> Vec<PureCase> {
    let mut v = vec![];
    let mut push = |family: Family, rec: &Value, source: String| {
        v.push(PureCase {
            spec: ModelSpec {
                family,
                pure: vec![rec.clone()],
                binary: vec![],
                seg: None,
                opts: Opts::default(),
                source,
            },
            f_init: vec![0.5, 1.6],
            theta: vec![0.5, 0.7, 0.9, 0.99],
        });
    };
    for (f, recs) in &POOLS.pcsaft {
        for r in recs {
            push(Family::PcSaft, r, format!("shipped:{f}"));
        }
    }
    for r in &POOLS.vrmie {
        push(Family::SaftVRMie, r, "shipped:lafitte2013".into());
    }
    for (f, recs) in &POOLS.vrq {
        for r in recs {
            push(Family::SaftVRQMie, r, format!("shipped:{f}"));
        }
    }
    v
}

fn decode_pr(g: &mut Gen) -> PureCase {
    let tc = g.range(100.0, 800.0);
    let pc = g.range(5e5, 100e5);
    let w = g.range(-0.1, 0.9);
    let spec = ModelSpec {
        family: Family::PengRobinson,
        pure: vec![json!({"identifier": {"name": "comp0", "cas": "100-00-0"}, "molarweight": g.range(16.0, 200.0),
            "model_record": {"tc": tc, "pc": pc, "acentric_factor": w}})],
        binary: vec![],
        seg: None,
        opts: Opts::default(),
        source: "random".into(),
    };
    PureCase {
        spec,
        f_init: vec![g.range(0.5, 1.6), g.range(0.5, 1.6)],
        theta: vec![g.range(0.5, 0.99), g.range(0.5, 0.99)],
    }
}

// ---------------------------------------------------------------------------------------
// part 2: mixtures at fixed composition (critical point, spinodal pair, spinodal diagram)
// ---------------------------------------------------------------------------------------
#[derive(Serialize, Deserialize, Clone, Debug)]
pub struct MixCase {
    pub spec: ModelSpec,
    pub x: Vec<f64>,
    /// initial temperature as a multiple of the converged value
    pub f_init: f64,
    /// spinodal temperature / T_c of the same model and composition
    pub theta: f64,
    /// number of points of PhaseDiagram::spinodal (0: not called)
    pub npoints: usize,
    /// total amount of substance in mol
    pub lambda: f64,
}

fn hydrocarbons() -> Vec<Value> {
    let mut v: Vec<Value> = POOLS.pcsaft[0]
        .1
        .iter()
        .filter(|r| {
            let id = &r["identifier"];
            let s = id["smiles"].as_str().or(id["formula"].as_str()).unwrap_or("X");
            s.chars().all(|c| "CcHh0123456789()=#[]@/\\-".contains(c))
        })
        .cloned()
        .collect();
    v.sort_by(|a, b| {
        a["model_record"]["m"]
            .as_f64()
            .partial_cmp(&b["model_record"]["m"].as_f64())
            .unwrap()
    });
    v
}

fn gen_hydrocarbons(g: &mut Gen, n: usize) -> ModelSpec {
    // PC-SAFT hydrocarbons of similar chain length (as C05)
    let pool = hydrocarbons();
    let i0 = g.index(pool.len());
    let mut pure = vec![pool[i0].clone()];
    for _ in 1..n {
        let lo = i0.saturating_sub(8);
        let hi = (i0 + 8).min(pool.len() - 1);
        pure.push(pool[lo + g.index(hi - lo + 1)].clone());
    }
    let mut binary = vec![];
    for i in 0..n {
        for j in i + 1..n {
            if g.bool(0.6) {
                binary.push((i, j, json!({"k_ij": g.range(-0.08, 0.08)})));
            }
        }
    }
    ModelSpec {
        family: Family::PcSaft,
        pure,
        binary,
        seg: None,
        opts: Opts::default(),
        source: "hydrocarbons:gross2001".into(),
    }
}

fn gen_pr_mixture(g: &mut Gen, n: usize) -> ModelSpec {
    // Peng-Robinson, all pairwise critical temperature ratios < 1.8 (1.34^2)
    let tc0 = g.range(150.0, 600.0);
    let mut pure = vec![];
    for k in 0..n {
        let tc = if k == 0 { tc0 } else { tc0 * g.range(1.0 / 1.34, 1.34) };
        pure.push(json!({"identifier": {"name": format!("comp{k}"), "cas": format!("{}-00-{k}", 100 + k)},
            "molarweight": g.range(16.0, 200.0),
            "model_record": {"tc": tc, "pc": g.range(10e5, 80e5), "acentric_factor": g.range(-0.1, 0.6)}}));
    }
    let mut binary = vec![];
    for i in 0..n {
        for j in i + 1..n {
            if g.bool(0.6) {
                binary.push((i, j, json!(g.range(-0.08, 0.08))));
            }
        }
    }
    ModelSpec {
        family: Family::PengRobinson,
        pure,
        binary,
        seg: None,
        opts: Opts::default(),
        source: "random".into(),
    }
}

fn gen_zoo(g: &mut Gen, min_comp: usize, max_comp: usize) -> ModelSpec {
    let mut families = vec![
        Family::PcSaft,
        Family::SaftVRMie,
        Family::GcPcSaft,
        Family::Pets,
        Family::UVTheory,
        Family::SaftVRQMie,
    ];
    if max_comp == 1 {
        families.push(Family::PcSaftFunctional);
        families.push(Family::PetsFunctional);
    }
    let mut s = gen_model(g, &GenCfg { families, min_comp, max_comp });
    if s.family == Family::SaftVRQMie && s.n() > 2 {
        // quantum-corrected Mie ternaries cost 0.6 s per case
        s = s.subset(&[0, 1]);
    }
    s.source = format!("zoo:{}", s.source);
    s
}

fn gen_mix_spec(g: &mut Gen) -> ModelSpec {
    match g.index(5) {
        0 => gen_hydrocarbons(g, 2),
        1 => gen_hydrocarbons(g, 3),
        2 => {
            let n = 2 + g.index(2);
            gen_pr_mixture(g, n)
        }
        3 => gen_zoo(g, 2, 3),
        _ => gen_zoo(g, 1, 1),
    }
}

fn decode_mix(g: &mut Gen) -> MixCase {
    let spec = gen_mix_spec(g);
    let n = spec.n();
    let x = g.simplex(n, 0.02);
    let f_init = if g.bool(0.7) { g.range(0.5, 1.6) } else { 0.0 };
    let theta = g.range(0.5, 0.99);
    let npoints = if g.bool(0.3) { 3 + g.index(6) } else { 0 };
    let lambda = if g.bool(0.5) { g.log_range(1e-3, 1e3) } else { 1.0 };
    MixCase {
        spec,
        x,
        f_init,
        theta,
        npoints,
        lambda,
    }
}

pub fn check_mix(case: &MixCase, obs: &mut Obs) {
    let spec = &case.spec;
    let n = spec.n();
    obs.class(spec.label());
    obs.class(format!("n={n}"));
    obs.class(format!("source:{}", spec.source.split(':').next().unwrap_or("")));
    let model = match spec.build() {
        Ok(m) => m,
        Err(e) => {
            obs.discard(format!("build:{}", e.chars().take(40).collect::<String>()));
            return;
        }
    };
    let opt = SolverOptions::default();
    let moles = Array1::from_vec(case.x.clone()) * MOL * case.lambda;
    let cp = match State::critical_point(&model, Some(&moles), None, opt) {
        Ok(s) => s,
        Err(_) => {
            obs.class("critical_point: Err");
            return;
        }
    };
    obs.class("critical_point: Ok");
    let ok = check_critical(&model, &cp, obs, "critical_point");
    let tc = cp.temperature;
    // non-trivial: a real mixture (x in [0.05,0.95], pure critical temperatures differ by > 5 K)
    let pure_tcs: Vec<f64> = (0..n).map(|i| pure_tc(spec, &model, i)).collect();
    let spread = pure_tcs.iter().cloned().fold(f64::MIN, f64::max) - pure_tcs.iter().cloned().fold(f64::MAX, f64::min);
    let real_mix = n >= 2 && case.x.iter().all(|&x| (0.05..=0.95).contains(&x)) && spread > 5.0;
    if ok && (real_mix || n == 1) {
        obs.nontrivial();
    }
    if real_mix {
        obs.class("real mixture");
    }
    if cp.pressure(TOT).to_reduced() <= 0.0 {
        obs.class("critical pressure <= 0");
    }
    if n == 1 {
        // the property quantifies over the shipped pure records (and Peng-Robinson triples):
        // perturbed / random zoo records are outside it (strongly quadrupolar random records have
        // their only stationary point at negative pressure)
        if spec.source.contains("shipped:") || spec.source.starts_with("hydrocarbons") || spec.family == Family::PengRobinson {
            check_critical_pure(&model, spec, true, &cp, obs, "critical_point (pure)");
        } else {
            obs.class("zoo pure fluid (not a shipped record): pressure clause not asserted");
        }
    }

    if case.f_init > 0.0 {
        match State::critical_point(&model, Some(&moles), Some(tc * case.f_init), opt) {
            Err(_) => obs.class("initial temperature: Err"),
            Ok(s) => {
                check_critical(&model, &s, obs, &format!("critical_point (T_init={:.3} Tc)", case.f_init));
                let same = (s.temperature.to_reduced() / tc.to_reduced() - 1.0).abs() <= TOL_SAME
                    && (s.density.to_reduced() / cp.density.to_reduced() - 1.0).abs() <= TOL_SAME;
                obs.class(if same { "initial temperature: same point" } else { "initial temperature: different root" });
            }
        }
    }

    // spinodals: "T in [0.5,0.99] T_c" refers to the vapour-liquid critical temperature of this
    // model and composition
    let genuine = if n == 1 {
        is_vle_critical_point(&model, &cp)
    } else {
        // mixtures: the critical point lies on the flank of the spinodal dome, so the pure-fluid
        // test does not apply. Vapour-liquid-like: positive pressure, T_c inside [0.9 min, 1.1 max]
        // of the pure critical temperatures, critical density below half the model's maximum
        // density (pure fluids: 0.25-0.4), unstable at the critical density just below T_c.
        let lo = pure_tcs.iter().cloned().fold(f64::MAX, f64::min);
        let hi = pure_tcs.iter().cloned().fold(f64::MIN, f64::max);
        let tk = tc.convert_to(KELVIN);
        let dense = model
            .max_density(Some(&moles))
            .map(|rm| cp.density.to_reduced() > 0.5 * rm.to_reduced())
            .unwrap_or(true);
        let below = State::new_nvt(&model, tc * 0.99, cp.volume, &cp.moles)
            .map(|s| measures(&s).lambda_min < 0.0)
            .unwrap_or(false);
        cp.pressure(TOT).to_reduced() > 0.0 && tk >= 0.9 * lo && tk <= 1.1 * hi && !dense && below
    };
    if !genuine {
        obs.class("critical point is not a confirmed vapour-liquid critical point: spinodals skipped");
        return;
    }
    // "binary mixtures and compositions as in C05": hydrocarbon / Peng-Robinson mixtures with similar
    // components; for the zoo mixtures only the eigenvalue condition of returned states is asserted
    let in_domain = n == 1 || !spec.source.starts_with("zoo");
    // spinodal pair at theta * Tc of the same model and composition
    let t = tc * case.theta;
    let vle = |t: Temperature| -> Option<(f64, f64)> {
        if n != 1 {
            return None;
        }
        PhaseEquilibrium::pure(&model, t, None, opt)
            .ok()
            .map(|v| (v.vapor().density.to_reduced(), v.liquid().density.to_reduced()))
    };
    match State::spinodal(&model, t, Some(&moles), opt) {
        Err(_) => obs.class("spinodal: Err"),
        Ok(sp) => {
            obs.class("spinodal: Ok");
            check_spinodal_pair(&model, &sp, &cp, Some(t), case.theta, vle(t), in_domain, obs, &format!("spinodal (T={:.3} Tc)", case.theta));
        }
    }
    // spinodal diagram from theta*Tc upwards
    if case.npoints >= 3 {
        match PhaseDiagram::spinodal(&model, &moles, t, case.npoints, None, opt) {
            Err(_) => obs.class("PhaseDiagram::spinodal: Err"),
            Ok(dia) => {
                obs.class("PhaseDiagram::spinodal: Ok");
                let ns = dia.states.len();
                ensure(obs, "diagram:count", ns >= 1 && ns <= case.npoints, || format!("PhaseDiagram::spinodal returned {ns} states for npoints={}", case.npoints));
                if ns == case.npoints {
                    obs.class("PhaseDiagram::spinodal: all points");
                }
                for (k, pe) in dia.states.iter().enumerate() {
                    if k + 1 == ns {
                        // last state: the critical point, both phases identical
                        let (a, b) = (pe.vapor(), pe.liquid());
                        ensure(
                            obs,
                            "diagram:last is critical",
                            a.density.to_reduced() == b.density.to_reduced() && a.temperature.to_reduced() == b.temperature.to_reduced(),
                            || "PhaseDiagram::spinodal: last state is not a critical point (phases differ)".to_string(),
                        );
                        check_critical(&model, a, obs, "PhaseDiagram::spinodal critical point");
                    } else {
                        let tk = pe.vapor().temperature;
                        let th = tk.to_reduced() / tc.to_reduced();
                        ensure(obs, "diagram:T range", (case.theta - 1e-9..1.0).contains(&th), || {
                            format!("PhaseDiagram::spinodal: temperature {tk} of point {k} outside [min_temperature, Tc)")
                        });
                        if th > 0.99 {
                            obs.class("PhaseDiagram::spinodal point above 0.99 Tc (outside the stated range): not checked");
                            continue;
                        }
                        let pair = [pe.vapor().clone(), pe.liquid().clone()];
                        check_spinodal_pair(&model, &pair, &cp, None, th, vle(tk), in_domain, obs, &format!("PhaseDiagram::spinodal point {k} (T={th:.3} Tc)"));
                    }
                }
            }
        }
    }
}

// ---------------------------------------------------------------------------------------
// part 3: binary critical points at given temperature / pressure
// ---------------------------------------------------------------------------------------
#[derive(Serialize, Deserialize, Clone, Debug)]
pub struct BinCase {
    pub spec: ModelSpec,
    /// composition that anchors the specification on the critical locus
    pub x: f64,
    /// relative offsets of the specified T and p from the anchor
    pub dt: f64,
    pub dp: f64,
    /// give the solver initial values: composition of the anchor, temperature f_init x anchor
    pub guided: bool,
    /// initial temperature (given p) as a multiple of the anchor temperature, in [0.5, 1.6]
    pub f_init: f64,
}

fn decode_bin(g: &mut Gen) -> BinCase {
    let mut spec = match g.index(3) {
        0 => gen_hydrocarbons(g, 2),
        1 => gen_pr_mixture(g, 2),
        _ => gen_zoo(g, 2, 2),
    };
    if spec.n() > 2 {
        spec = spec.subset(&[0, 1]);
    }
    BinCase {
        spec,
        x: g.range(0.05, 0.95),
        dt: g.range(-0.03, 0.03),
        dp: g.range(-0.03, 0.03),
        guided: !g.bool(0.3),
        f_init: if g.bool(0.5) { g.range(0.5, 1.6) } else { 1.0 },
    }
}

pub fn check_bin(case: &BinCase, obs: &mut Obs) {
    let spec = &case.spec;
    obs.class(spec.label());
    obs.class(format!("source:{}", spec.source.split(':').next().unwrap_or("")));
    if spec.n() != 2 {
        obs.discard("not a binary");
        return;
    }
    let model = match spec.build() {
        Ok(m) => m,
        Err(e) => {
            obs.discard(format!("build:{}", e.chars().take(40).collect::<String>()));
            return;
        }
    };
    let opt = SolverOptions::default();
    let x = [case.x, 1.0 - case.x];
    let moles = Array1::from_vec(x.to_vec()) * MOL;
    // anchor on the critical locus
    let anchor = match State::critical_point(&model, Some(&moles), None, opt) {
        Ok(s) => s,
        Err(_) => {
            obs.class("anchor critical_point: Err");
            return;
        }
    };
    let (ta, pa) = (anchor.temperature, anchor.pressure(TOT));
    if pa.to_reduced() <= 0.0 {
        obs.class("anchor pressure <= 0");
        return;
    }
    let tcs = [pure_tc(spec, &model, 0), pure_tc(spec, &model, 1)];
    let (init_t, init_x) = if case.guided { (Some(ta * case.f_init), Some(x)) } else { (None, None) };
    obs.class(if case.guided { "guided" } else { "unguided" });

    // --- given temperature ---
    let t_spec = ta * (1.0 + case.dt);
    match State::critical_point_binary(&model, t_spec, init_t, init_x, opt) {
        Err(_) => obs.class("binary(T): Err"),
        Ok(s) => {
            obs.class("binary(T): Ok");
            ensure(obs, "binary(T):T", s.temperature.to_reduced() == t_spec.to_reduced(), || {
                format!("critical_point_binary at given T: returned temperature {} is not the specification {}", s.temperature, t_spec)
            });
            let ok = check_critical(&model, &s, obs, "critical_point_binary(T)");
            let tk = t_spec.convert_to(KELVIN);
            if ok && tcs.iter().all(|tc| (tk / tc - 1.0).abs() > 0.01) {
                obs.nontrivial();
                obs.class("binary(T): non-trivial");
            }
        }
    }
    // --- given pressure ---
    let p_spec = pa * (1.0 + case.dp);
    match State::critical_point_binary(&model, p_spec, init_t, init_x, opt) {
        Err(_) => obs.class("binary(p): Err"),
        Ok(s) => {
            obs.class("binary(p): Ok");
            if let Some(f) = fresh(&model, &s) {
                let p = f.pressure(TOT).to_reduced();
                worst("binary(p) |p/p_spec-1|", (p / p_spec.to_reduced() - 1.0).abs());
                if !obs.close("critical_point_binary at given p: pressure of the returned state", p, p_spec.to_reduced(), TOL_P, 0.0) {
                    obs.class("FAILED:binary(p):p");
                }
            }
            let ok = check_critical(&model, &s, obs, "critical_point_binary(p)");
            if ok && s.molefracs.iter().all(|&x| (0.01..=0.99).contains(&x)) {
                obs.nontrivial();
                obs.class("binary(p): non-trivial");
            }
        }
    }
}

// ---------------------------------------------------------------------------------------
// part 4: anchors — textbook systems on which the solvers must return a result. The property
// only speaks about returned states; without these a change that makes every solver call fail
// would leave the other parts vacuously green. (The library's own tests pin the critical points
// of PC-SAFT propane and of a Peng-Robinson fluid.)
// ---------------------------------------------------------------------------------------
#[derive(Serialize, Deserialize, Clone, Debug)]
pub struct AnchorCase {
    pub spec: ModelSpec,
    pub x: Vec<f64>,
}

fn anchors() -> Vec<AnchorCase> {
    let rec = |name: &str| -> Value {
        POOLS.pcsaft[0]
            .1
            .iter()
            .find(|r| r["identifier"]["name"].as_str() == Some(name))
            .unwrap_or_else(|| panic!("gross2001 record {name}"))
            .clone()
    };
    let pc = |names: &[&str], x: &[f64]| AnchorCase {
        spec: ModelSpec {
            family: Family::PcSaft,
            pure: names.iter().map(|n| rec(n)).collect(),
            binary: vec![],
            seg: None,
            opts: Opts::default(),
            source: "hydrocarbons:gross2001".into(),
        },
        x: x.to_vec(),
    };
    let pr = |recs: &[(f64, f64, f64)], x: &[f64]| AnchorCase {
        spec: ModelSpec {
            family: Family::PengRobinson,
            pure: recs
                .iter()
                .enumerate()
                .map(|(k, (tc, pc, w))| {
                    json!({"identifier": {"name": format!("comp{k}"), "cas": format!("{}-00-{k}", 100 + k)}, "molarweight": 40.0,
                    "model_record": {"tc": tc, "pc": pc, "acentric_factor": w}})
                })
                .collect(),
            binary: vec![],
            seg: None,
            opts: Opts::default(),
            source: "random".into(),
        },
        x: x.to_vec(),
    };
    vec![
        pc(&["methane"], &[1.0]),
        pc(&["propane"], &[1.0]),
        pc(&["hexane"], &[1.0]),
        pc(&["methane", "ethane"], &[0.5, 0.5]),
        pc(&["propane", "butane"], &[0.3, 0.7]),
        pc(&["ethane", "propane", "butane"], &[0.3, 0.3, 0.4]),
        pr(&[(369.96, 4250000.0, 0.153)], &[1.0]),
        pr(&[(369.96, 4250000.0, 0.153), (425.2, 3800000.0, 0.199)], &[0.5, 0.5]),
    ]
}

pub fn check_anchor(case: &AnchorCase, obs: &mut Obs) {
    let n = case.spec.n();
    let mix = MixCase {
        spec: case.spec.clone(),
        x: case.x.clone(),
        f_init: 1.3,
        theta: 0.8,
        npoints: 5,
        lambda: 1.0,
    };
    check_mix(&mix, obs);
    let mut need = vec!["critical_point: Ok", "spinodal: Ok", "PhaseDiagram::spinodal: all points", "spinodal brackets the critical density"];
    if n == 2 {
        let bin = BinCase {
            spec: case.spec.clone(),
            x: case.x[0],
            dt: 0.01,
            dp: 0.01,
            guided: true,
            f_init: 1.0,
        };
        check_bin(&bin, obs);
        need.push("binary(T): Ok");
        need.push("binary(p): Ok");
    }
    for c in need {
        let have = obs.classes.iter().any(|k| k == c);
        ensure(obs, "anchor", have, || {
            format!("anchor system: expected '{c}' (a solver that returns a result) but it was not reached; the remaining parts may be vacuous")
        });
    }
}

// ---------------------------------------------------------------------------------------
const PART_PR: PartCfg = PartCfg {
    name: "peng-robinson",
    genome_len: 12,
    cases_quick: 2000,
    cases_thorough: 200_000,
    panic: PanicPolicy::Count,
};
const PART_MIX: PartCfg = PartCfg {
    name: "mixture",
    genome_len: 80,
    cases_quick: 4000,
    cases_thorough: 400_000,
    panic: PanicPolicy::Count,
};
const PART_BIN: PartCfg = PartCfg {
    name: "binary-tp",
    genome_len: 80,
    cases_quick: 2000,
    cases_thorough: 200_000,
    panic: PanicPolicy::Count,
};

pub fn run(ctx: &Ctx) {
    ctx.set_rule("anchors: 8 textbook systems (PC-SAFT methane, propane, hexane, methane/ethane, propane/butane, ethane/propane/butane; Peng-Robinson propane, propane/butane) on which every solver call must return a result (guard against vacuity). pure-lattice (exhaustive): every pure record of the 9 shipped PC-SAFT files, lafitte2013 (SAFT-VR Mie) and the 3 SAFT-VRQ Mie files: State::critical_point without and with initial temperatures {0.5, 1.6} Tc, State::spinodal at {0.5, 0.7, 0.9, 0.99} Tc. peng-robinson (sampled): random (Tc, pc, omega), two initial temperatures in [0.5,1.6] Tc, two spinodal temperatures in [0.5,0.99] Tc. mixture (sampled): PC-SAFT hydrocarbon binaries/ternaries of gross2001 with k_ij in +-0.08, Peng-Robinson mixtures with Tc ratio < 1.8, zoo mixtures (PC-SAFT, SAFT-VR Mie, gc-PC-SAFT, PeTS, uv-theory, SAFT-VRQ Mie) and zoo pure fluids; composition in the simplex with x_i >= 0.02, total amount 1e-3..1e3 mol; critical_point (optionally from T_init in [0.5,1.6] Tc), State::spinodal at theta in [0.5,0.99] of the critical temperature of the same model and composition, PhaseDiagram::spinodal with 3-8 points. binary-tp (sampled): binaries of the same generators; the specification is anchored on the critical locus (T, p of critical_point at a composition x) and shifted by up to 3 %; critical_point_binary at given T and at given p, guided by the anchor (composition; initial temperature in [0.5,1.6] of the anchor temperature) or unguided. Non-trivial: pure: a critical point was returned; mixture: conditions conclusive, x in [0.05,0.95] and pure critical temperatures differing by > 5 K (or a pure fluid); binary-tp: conditions conclusive and the specified T differs from both pure critical temperatures by > 1 % (T) / the returned composition is inside [0.01,0.99] (p). Distinct by hash of the canonical case JSON.");
    ctx.assume("all conditions are recomputed on a fresh State::new_nvt at the returned (T,V,N) from dp_dv, d2p_dv2, pressure, dmu_dni(Total) (validated by C01/C02); eigenvalues by the harness' Jacobi solver; the cubic form by Ridders' central differences of dn^T dmu_dni(n + eps sqrt(N) dn) dn / RT");
    ctx.assume("tolerances (dimensionless, independent of the system size): pure critical points |V^2 dp_dv/(NRT)| <= 1e-6, |V^3 d2p_dv2/(NRT)| <= 1e-4 and spinodals |lambda_min| <= 1e-6 (100 x the solver's 1e-8 objective tolerance; worst seen 1e-11); mixture/binary critical points |lambda_min| <= 2e-4, |cubic| <= 1e-3 (+50 x the Ridders error estimate) = 50 x the worst values seen (3.2e-6, 1.4e-5: the solver's convergence test is made before its last update and does not see the cubic condition for N >> 1 particle). Peng-Robinson Tc, pc: 3e-4 (the documented truncated constants 0.45724/0.07780 shift Tc by -3.3e-5 and pc by -8.4e-5, exactly reproduced). given p: 1e-6 relative (worst seen 4.9e-9)");
    ctx.assume("'different initial temperatures give the same point' is asserted only for pure Peng-Robinson (a cubic has exactly one critical point); for other models two different returned points that both satisfy the conditions do not contradict the property and are only counted");
    ctx.assume("solver failures (Err) are counted, never violations: the property speaks about returned states");
    ctx.run_lattice("anchors", anchors(), PanicPolicy::Violation, false, &check_anchor);
    ctx.run_lattice("pure-lattice", pure_lattice(), PanicPolicy::Count, true, &check_pure);
    ctx.run_sampled(&PART_PR, &decode_pr, &check_pure);
    ctx.run_sampled(&PART_MIX, &decode_mix, &check_mix);
    ctx.run_sampled(&PART_BIN, &decode_bin, &check_bin);
    ctx.extra("worst_values", json!(*WORST.lock().unwrap()));
}

pub fn replay(ctx: &Ctx, part: &str, case: &Value) -> bool {
    match part {
        "pure-lattice" | "peng-robinson" => ctx.replay_case::<PureCase>(case, &check_pure),
        "mixture" => ctx.replay_case::<MixCase>(case, &check_mix),
        "binary-tp" => ctx.replay_case::<BinCase>(case, &check_bin),
        "anchors" => ctx.replay_case::<AnchorCase>(case, &check_anchor),
        other => {
            eprintln!("unknown part {other}");
            false
        }
    }
}
