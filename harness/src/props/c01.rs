//! C01 — state properties are exact derivatives of the Helmholtz energy.
use crate::engine::{Ctx, Gen, Obs, PanicPolicy, PartCfg};
use crate::model::*;
use crate::oracle::{derivative_verdict, ridders, DVerdict};
use crate::scales::{contrib_abs, contrib_values, PD};
use feos::core::Derivative::{DN, DT, DV};
use feos::core::{Contributions, DensityInitialization, ReferenceSystem, Residual, State};
use ndarray::Array1;
use quantity::*;
use serde::{Deserialize, Serialize};
use serde_json::Value;
use std::sync::Arc;

#[derive(Serialize, Deserialize, Clone, Debug)]
pub struct Case {
    pub spec: ModelSpec,
    pub state: StateSpec,
    pub ig: Vec<usize>,
    /// component indices used for N-directions (i, j)
    pub ci: usize,
    pub cj: usize,
    /// 1 / 2: the temperature of the state is exactly the lowest / highest temperature of the first tabulated
    /// permittivity (ePC-SAFT with ions); the linear interpolation continues smoothly through both end points
    #[serde(default)]
    pub snap: u8,
}

/// (lowest, highest) temperature of the first permittivity table with at least two points
fn table_end_points(spec: &ModelSpec) -> Option<(f64, f64)> {
    for p in &spec.pure {
        if let Some(data) = p["model_record"]["permittivity_record"]["ExperimentalData"]["data"].as_array() {
            let mut ts: Vec<f64> = data.iter().filter_map(|d| d[0].as_f64()).collect();
            if ts.len() >= 2 {
                ts.sort_by(|a, b| a.partial_cmp(b).unwrap());
                return Some((ts[0], ts[ts.len() - 1]));
            }
        }
    }
    None
}

pub fn decode(g: &mut Gen) -> Case {
    let spec = gen_model(g, &GenCfg::all(3));
    let state = gen_state(g, spec.n());
    let ig = (0..spec.n()).map(|_| g.index(POOLS.dippr.len())).collect();
    let ci = g.index(spec.n());
    let cj = g.index(spec.n());
    let snap = if table_end_points(&spec).is_some() && g.bool(0.4) { 1 + g.index(2) as u8 } else { 0 };
    Case {
        spec,
        state,
        ig,
        ci,
        cj,
        snap,
    }
}

pub const RTOL: f64 = 1e-6;
pub const RTOL_P: f64 = 1e-5;

/// T-derivatives of ePC-SAFT are a known finding when sigma or k_ij depend on T.
fn epcsaft_t_dependent(spec: &ModelSpec) -> bool {
    if spec.family != Family::EPcSaft {
        return false;
    }
    let water = spec
        .pure
        .iter()
        .any(|p| p["identifier"]["name"].as_str() == Some("water") || p["identifier"]["cas"].as_str() == Some("7732-18-5"));
    let kij_t = spec.binary.iter().any(|(_, _, b)| {
        b["k_ij"]
            .as_array()
            .map(|a| a.iter().skip(1).any(|v| v.as_f64().unwrap_or(0.0) != 0.0))
            .unwrap_or(false)
    });
    water || kij_t
}

/// Temperatures at which the model is only piecewise smooth in T: the Peng-Robinson alpha
/// function (1 + kappa (1 - sqrt(T/Tc)))^2 enters the mixing rule through sqrt(a_i a_j), which
/// has a kink where 1 + kappa (1 - sqrt(T_r)) changes sign; ePC-SAFT interpolates tabulated
/// permittivities linearly between the data points.
fn kink_temperatures(spec: &ModelSpec) -> Vec<f64> {
    let mut out = vec![];
    for p in &spec.pure {
        let m = &p["model_record"];
        if spec.family == Family::PengRobinson {
            if let (Some(tc), Some(w)) = (m["tc"].as_f64(), m["acentric_factor"].as_f64()) {
                let kappa = 0.37464 + (1.54226 - 0.26992 * w) * w;
                if kappa > 0.0 {
                    out.push(tc * (1.0 + 1.0 / kappa).powi(2));
                }
            }
        }
        // interior points of a table only: a single point is a constant, and beyond the first / last point the
        // first / last segment is continued (no kink at the end points)
        if let Some(data) = m["permittivity_record"]["ExperimentalData"]["data"].as_array() {
            let mut ts: Vec<f64> = data.iter().filter_map(|d| d[0].as_f64()).collect();
            ts.sort_by(|a, b| a.partial_cmp(b).unwrap());
            if ts.len() >= 3 {
                out.extend_from_slice(&ts[1..ts.len() - 1]);
            }
        }
    }
    out
}

struct Cmp<'a> {
    obs: &'a mut Obs,
    known_t: bool,
    conclusive: u32,
    /// relative step sizes for comparisons that involve T, and whether to skip them (a kink closer than the smallest stencil)
    t_steps: [f64; 3],
    t_skip: bool,
}

impl Cmp<'_> {
    /// Compare analytic value `a` with the Ridders derivative of `f` at x0.
    /// `s_extra`: cancellation-safe scale (sum over contributions of |a_c|).
    /// `involves_t`: the comparison differentiates w.r.t. T or uses a T-derivative.
    fn check<F: FnMut(f64) -> Option<f64>>(
        &mut self,
        label: &str,
        a: f64,
        s_extra: f64,
        mut f: F,
        x0: f64,
        rtol: f64,
        involves_t: bool,
        localise: Option<&dyn Fn() -> String>,
    ) {
        self.obs.count();
        if involves_t && self.t_skip {
            self.obs.inconclusive(format!("{label} (temperature within a stencil of a kink of the model)"));
            return;
        }
        let steps = if involves_t { self.t_steps } else { [2e-2, 5e-3, 6e-2] };
        // three step sizes; Ok at any step => Ok (the estimate with the smallest error decides
        // there); a mismatch must be seen at two step sizes with consistent numeric values
        // (a kink of a piecewise-smooth model inside one stencil is not a violation).
        let mut verdict = DVerdict::Inconclusive;
        let mut info = String::new();
        let mut mism: Vec<(f64, f64)> = vec![];
        for h_rel in steps {
            match ridders(&mut f, x0, h_rel * x0.abs()) {
                None => {
                    if info.is_empty() {
                        info = "neighbour evaluation failed".into();
                    }
                }
                Some((d, err)) => {
                    let s = a.abs().max(d.abs()).max(s_extra);
                    match derivative_verdict(a, d, err, s, rtol) {
                        DVerdict::Ok => {
                            verdict = DVerdict::Ok;
                            break;
                        }
                        DVerdict::Mismatch => {
                            info = format!("analytic {a:e} vs numeric {d:e} (err est {err:e}, scale {s:e}, h_rel {h_rel})");
                            if mism.iter().any(|(d0, s0)| (d0 - d).abs() <= 100.0 * rtol * s.max(*s0)) {
                                verdict = DVerdict::Mismatch;
                                mism.push((d, s));
                                break;
                            }
                            mism.push((d, s));
                        }
                        DVerdict::Inconclusive => {}
                    }
                }
            }
        }
        // A mismatch that much smaller stencils do not confirm is an unresolved local feature of the
        // model function (a state close to a pole of the Pade form phi2^2/(phi2-phi3) of the polar
        // terms at low temperature: the dual-number value is the derivative AT the point, the
        // Ridders stencils of 0.5-6 % straddle the feature). Rule: if at least two of the central
        // differences with relative steps 1e-4..1e-7 come ten times closer to the analytic value
        // than every Ridders estimate did, the discrepancy belongs to the stencils. A wrong
        // analytic value is not rescued by this: small stencils converge to the true derivative,
        // so their distance to the analytic value stays what the Ridders estimates showed.
        if verdict == DVerdict::Mismatch && a.is_finite() && !mism.is_empty() {
            let delta = mism.iter().map(|(d, _)| (a - d).abs()).fold(f64::MAX, f64::min);
            let mut closer = 0;
            for h_rel in [1e-4, 1e-5, 1e-6, 1e-7] {
                let h = h_rel * x0.abs();
                if let (Some(fp), Some(fm)) = (f(x0 + h), f(x0 - h)) {
                    let d = (fp - fm) / (2.0 * h);
                    if (d - a).abs() <= 0.1 * delta {
                        closer += 1;
                    }
                }
            }
            if closer >= 2 {
                self.obs.inconclusive(format!("{label} (local feature below the stencil size: small stencils reproduce the analytic value)"));
                return;
            }
        }
        match verdict {
            DVerdict::Ok => {
                self.conclusive += 1;
                self.obs.class(format!("ok:{label}"));
            }
            DVerdict::Inconclusive => self.obs.inconclusive(label.to_string()),
            DVerdict::Mismatch => {
                self.conclusive += 1;
                let loc = localise.map(|l| l()).unwrap_or_default();
                let msg = format!("{label}: {info} {loc}");
                if involves_t && self.known_t {
                    self.obs.known_or_fail("C01/epcsaft-temperature-derivatives", msg);
                } else {
                    self.obs.fail(msg);
                }
            }
        }
    }
}

/// per-contribution localisation: which contributions disagree for derivative `hi` (order k)
/// against the numerical derivative of `lo` (order k-1) along variable `var`.
fn localise<E: Residual>(
    eos: &Arc<E>,
    t: f64,
    v: f64,
    n: &Array1<f64>,
    hi: PD,
    lo: PD,
    var: feos::core::Derivative,
    sign: f64,
) -> String {
    let mk = |t: f64, v: f64, n: &Array1<f64>| {
        State::new_nvt(
            eos,
            Temperature::from_reduced(t),
            Volume::from_reduced(v),
            &Moles::from_reduced(n.clone()),
        )
        .ok()
    };
    let Some(s0) = mk(t, v, n) else { return String::new() };
    let an = contrib_values(&s0, hi);
    let mut out = vec![];
    for (k, (name, a)) in an.iter().enumerate() {
        let f = |x: f64| -> Option<f64> {
            let s = match var {
                DT => mk(x, v, n),
                DV => mk(t, x, n),
                DN(i) => {
                    let mut nn = n.clone();
                    nn[i] = x;
                    mk(t, v, &nn)
                }
            }?;
            Some(contrib_values(&s, lo)[k].1)
        };
        let x0 = match var {
            DT => t,
            DV => v,
            DN(i) => n[i],
        };
        if let Some((d, err)) = ridders(f, x0, 2e-2 * x0) {
            let a = a * sign;
            let sc = a.abs().max(d.abs());
            if derivative_verdict(a, d, err, sc, 1e-5) == DVerdict::Mismatch {
                out.push(format!("{name}: {a:e} vs {d:e}"));
            }
        }
    }
    format!("[contributions: {}]", out.join("; "))
}

pub fn check(case: &Case, obs: &mut Obs) {
    let spec = &case.spec;
    obs.class(spec.label());
    let model = match spec.build() {
        Ok(m) => m,
        Err(e) => {
            obs.discard(format!("build:{}", e.chars().take(40).collect::<String>()));
            return;
        }
    };
    let inputs = match state_inputs(spec, &model, &case.state) {
        Ok(i) => i,
        Err(e) => {
            obs.discard(format!("inputs:{e}"));
            return;
        }
    };
    let mut inputs = inputs;
    if let (true, Some((lo, hi))) = (case.snap > 0, table_end_points(spec)) {
        inputs.0 = Temperature::from_reduced(if case.snap == 1 { lo } else { hi });
        obs.class("temperature exactly at an end point of the permittivity table");
    }
    let s = match build_state(&model, &inputs) {
        Ok(s) => s,
        Err(e) => {
            obs.discard(format!("state:{e}"));
            return;
        }
    };
    use Contributions::{Residual as RES, Total as TOT};
    let n = spec.n();
    let (ci, cj) = (case.ci.min(n - 1), case.cj.min(n - 1));
    let t0 = s.temperature.to_reduced();
    let v0 = s.volume.to_reduced();
    let n0 = s.moles.to_reduced();
    if !s.residual_helmholtz_energy().to_reduced().is_finite() {
        obs.discard(format!("non-finite A_res:{}", spec.label()));
        return;
    }
    let mk = |t: f64, v: f64, n: &Array1<f64>| {
        State::new_nvt(
            &model,
            Temperature::from_reduced(t),
            Volume::from_reduced(v),
            &Moles::from_reduced(n.clone()),
        )
        .ok()
    };
    let with_n = |i: usize, x: f64| {
        let mut nn = n0.clone();
        nn[i] = x;
        nn
    };
    let known_t = epcsaft_t_dependent(spec);
    if known_t {
        obs.class("epcsaft-T-dependent-parameters");
    }
    if spec.has_association() {
        obs.class("assoc");
    }
    if spec.has_polar() {
        obs.class("polar");
    }
    obs.class(format!("n={n}"));
    for (name, _) in s.residual_helmholtz_energy_contributions() {
        obs.class(format!("contribution:{name}"));
    }
    let kinks = kink_temperatures(spec);
    let near = |frac: f64| kinks.iter().any(|tk| (tk - t0).abs() < frac * t0);
    // Ridders shrinks the initial step, so a kink matters within ~1.5 x the largest initial step
    let (t_steps, t_skip) = if near(0.09) { ([2e-3, 1e-3, 4e-3], near(0.007)) } else { ([2e-2, 5e-3, 6e-2], false) };
    if near(0.09) {
        obs.class("small T-steps (kink of the model nearby)");
    }
    let mut c = Cmp {
        obs,
        known_t,
        conclusive: 0,
        t_steps,
        t_skip,
    };
    let m = &model;

    // ---------- first order ----------
    c.check(
        "p_res = -dA/dV",
        s.pressure(RES).to_reduced(),
        contrib_abs(&s, PD::First(DV)),
        |x| Some(-mk(t0, x, &n0)?.residual_helmholtz_energy().to_reduced()),
        v0,
        RTOL,
        false,
        Some(&|| localise(m, t0, v0, &n0, PD::First(DV), PD::Zeroth, DV, 1.0)),
    );
    c.check(
        "S_res = -dA/dT",
        s.residual_entropy().to_reduced(),
        contrib_abs(&s, PD::First(DT)),
        |x| Some(-mk(x, v0, &n0)?.residual_helmholtz_energy().to_reduced()),
        t0,
        RTOL,
        true,
        Some(&|| localise(m, t0, v0, &n0, PD::First(DT), PD::Zeroth, DT, 1.0)),
    );
    c.check(
        "mu_res[i] = dA/dN_i",
        s.residual_chemical_potential().to_reduced()[ci],
        contrib_abs(&s, PD::First(DN(ci))),
        |x| Some(mk(t0, v0, &with_n(ci, x))?.residual_helmholtz_energy().to_reduced()),
        n0[ci],
        RTOL,
        false,
        Some(&|| localise(m, t0, v0, &n0, PD::First(DN(ci)), PD::Zeroth, DN(ci), 1.0)),
    );
    // ---------- second order ----------
    c.check(
        "dp_dv = dp/dV",
        s.dp_dv(RES).to_reduced(),
        contrib_abs(&s, PD::Second(DV)),
        |x| Some(mk(t0, x, &n0)?.pressure(RES).to_reduced()),
        v0,
        RTOL,
        false,
        Some(&|| localise(m, t0, v0, &n0, PD::Second(DV), PD::First(DV), DV, 1.0)),
    );
    c.check(
        "dp_dt = dp/dT",
        s.dp_dt(RES).to_reduced(),
        contrib_abs(&s, PD::Mixed(DV, DT)),
        |x| Some(mk(x, v0, &n0)?.pressure(RES).to_reduced()),
        t0,
        RTOL,
        true,
        Some(&|| localise(m, t0, v0, &n0, PD::Mixed(DV, DT), PD::First(DV), DT, 1.0)),
    );
    c.check(
        "dp_dt = dS/dV",
        s.dp_dt(RES).to_reduced(),
        contrib_abs(&s, PD::Mixed(DV, DT)),
        |x| Some(mk(t0, x, &n0)?.residual_entropy().to_reduced()),
        v0,
        RTOL,
        true,
        None,
    );
    c.check(
        "dp_dni[i] = dp/dN_i",
        s.dp_dni(RES).to_reduced()[ci],
        contrib_abs(&s, PD::Mixed(DV, DN(ci))),
        |x| Some(mk(t0, v0, &with_n(ci, x))?.pressure(RES).to_reduced()),
        n0[ci],
        RTOL,
        false,
        Some(&|| localise(m, t0, v0, &n0, PD::Mixed(DV, DN(ci)), PD::First(DV), DN(ci), 1.0)),
    );
    c.check(
        "dp_dni[i] = -dmu_i/dV",
        s.dp_dni(RES).to_reduced()[ci],
        contrib_abs(&s, PD::Mixed(DV, DN(ci))),
        |x| Some(-mk(t0, x, &n0)?.residual_chemical_potential().to_reduced()[ci]),
        v0,
        RTOL,
        false,
        None,
    );
    c.check(
        "dmu_dni[i,j] = dmu_i/dN_j",
        s.dmu_dni(RES).to_reduced()[[ci, cj]],
        contrib_abs(&s, PD::Mixed(DN(ci), DN(cj))),
        |x| Some(mk(t0, v0, &with_n(cj, x))?.residual_chemical_potential().to_reduced()[ci]),
        n0[cj],
        RTOL,
        false,
        Some(&|| localise(m, t0, v0, &n0, PD::Mixed(DN(ci), DN(cj)), PD::First(DN(ci)), DN(cj), 1.0)),
    );
    c.check(
        "dmu_res_dt[i] = dmu_i/dT",
        s.dmu_res_dt().to_reduced()[ci],
        contrib_abs(&s, PD::Mixed(DT, DN(ci))),
        |x| Some(mk(x, v0, &n0)?.residual_chemical_potential().to_reduced()[ci]),
        t0,
        RTOL,
        true,
        Some(&|| localise(m, t0, v0, &n0, PD::Mixed(DT, DN(ci)), PD::First(DN(ci)), DT, 1.0)),
    );
    c.check(
        "ds_res_dt = dS/dT",
        s.ds_res_dt().to_reduced(),
        contrib_abs(&s, PD::Second(DT)),
        |x| Some(mk(x, v0, &n0)?.residual_entropy().to_reduced()),
        t0,
        RTOL,
        true,
        Some(&|| localise(m, t0, v0, &n0, PD::Second(DT), PD::First(DT), DT, 1.0)),
    );
    // neighbours derived from the (already evaluated) centre state by `update_temperature`:
    // a derived state must not inherit anything from its parent's evaluation history
    c.check(
        "S_res = -dA/dT (update_temperature neighbours)",
        s.residual_entropy().to_reduced(),
        contrib_abs(&s, PD::First(DT)),
        |x| Some(-s.update_temperature(Temperature::from_reduced(x)).ok()?.residual_helmholtz_energy().to_reduced()),
        t0,
        RTOL,
        true,
        None,
    );
    c.check(
        "dp_dt = dp/dT (update_temperature neighbours)",
        s.dp_dt(RES).to_reduced(),
        contrib_abs(&s, PD::Mixed(DV, DT)),
        |x| Some(s.update_temperature(Temperature::from_reduced(x)).ok()?.pressure(RES).to_reduced()),
        t0,
        RTOL,
        true,
        None,
    );
    // ---------- third order ----------
    c.check(
        "d2s_res_dt2 = d(dS/dT)/dT",
        s.d2s_res_dt2().to_reduced(),
        contrib_abs(&s, PD::Third(DT)),
        |x| Some(mk(x, v0, &n0)?.ds_res_dt().to_reduced()),
        t0,
        RTOL,
        true,
        Some(&|| localise(m, t0, v0, &n0, PD::Third(DT), PD::Second(DT), DT, 1.0)),
    );
    c.check(
        "d2p_dv2 = d(dp/dV)/dV",
        s.d2p_dv2(RES).to_reduced(),
        contrib_abs(&s, PD::Third(DV)),
        |x| Some(mk(t0, x, &n0)?.dp_dv(RES).to_reduced()),
        v0,
        RTOL,
        false,
        Some(&|| localise(m, t0, v0, &n0, PD::Third(DV), PD::Second(DV), DV, 1.0)),
    );

    // ---------- caloric properties (need an ideal-gas model) ----------
    let dpdv = s.dp_dv(TOT).to_reduced();
    let rho = s.density.to_reduced();
    let kap = (rho * t0 / v0 + contrib_abs(&s, PD::Second(DV))) / dpdv.abs();
    let p0 = s.pressure(TOT).to_reduced();
    let stable = dpdv < 0.0 && kap < 50.0 && p0 > 0.0 && (rho * t0 + contrib_abs(&s, PD::First(DV))) / p0 < 50.0;
    if let Ok(igm) = dippr_model(&case.ig) {
        let eos = full_model(igm, model.clone());
        let mkf = |t: f64, v: f64, n: &Array1<f64>| {
            State::new_nvt(
                &eos,
                Temperature::from_reduced(t),
                Volume::from_reduced(v),
                &Moles::from_reduced(n.clone()),
            )
            .ok()
        };
        if let Some(sf) = mkf(t0, v0, &n0) {
            let ntot: f64 = n0.sum();
            let cv = sf.molar_isochoric_heat_capacity(TOT).to_reduced();
            let cv_abs = t0 * (sf.ds_dt(Contributions::IdealGas).to_reduced().abs() + contrib_abs(&s, PD::Second(DT))) / ntot;
            c.check(
                "cv = du/dT|V",
                cv,
                cv_abs,
                |x| Some(mkf(x, v0, &n0)?.molar_internal_energy(TOT).to_reduced()),
                t0,
                RTOL,
                true,
                None,
            );
            // ideal-gas parts of the caloric getters (h_ig and u_ig depend on T only)
            {
                let ig = Contributions::IdealGas;
                let cv_ig = sf.molar_isochoric_heat_capacity(ig).to_reduced();
                c.check(
                    "cv(IdealGas) = du_ig/dT",
                    cv_ig,
                    cv_ig.abs() + 1.0,
                    |x| Some(mkf(x, v0, &n0)?.molar_internal_energy(ig).to_reduced()),
                    t0,
                    RTOL,
                    false,
                    None,
                );
                c.check(
                    "cp(IdealGas) = dh_ig/dT",
                    sf.molar_isobaric_heat_capacity(ig).to_reduced(),
                    cv_ig.abs() + 1.0,
                    |x| Some(mkf(x, v0, &n0)?.molar_enthalpy(ig).to_reduced()),
                    t0,
                    RTOL,
                    false,
                    None,
                );
            }
            if stable {
                c.obs.class("p-path");
                let moles = Moles::from_reduced(n0.clone());
                let npt = |t: f64, p: f64| {
                    State::new_npt(
                        &eos,
                        Temperature::from_reduced(t),
                        Pressure::from_reduced(p),
                        &moles,
                        DensityInitialization::InitialDensity(sf.density),
                    )
                    .ok()
                    .filter(|st| {
                        // same branch: density within 30 % of the centre
                        let r = st.density.to_reduced() / rho;
                        (0.7..1.3).contains(&r)
                    })
                };
                let cp = sf.molar_isobaric_heat_capacity(TOT).to_reduced();
                let dpdt_abs = rho + contrib_abs(&s, PD::Mixed(DV, DT));
                let cp_abs = cv_abs + t0 / ntot * dpdt_abs * dpdt_abs / dpdv.abs();
                c.check(
                    "cp = dh/dT|p",
                    cp,
                    cp_abs,
                    |x| Some(npt(x, p0)?.molar_enthalpy(TOT).to_reduced()),
                    t0,
                    RTOL_P,
                    true,
                    None,
                );
                // Joule-Thomson: (dT/dp)_h = -(dh/dp)_T / cp
                if cp.abs() > 1e-3 * cp_abs {
                    let jt = sf.joule_thomson().to_reduced();
                    let jt_abs = (v0 + t0 * dpdt_abs / dpdv.abs()) / (ntot * cp.abs());
                    c.check(
                        "joule_thomson*cp = -dh/dp|T",
                        -jt * cp,
                        jt_abs * cp.abs(),
                        |x| Some(npt(t0, x)?.molar_enthalpy(TOT).to_reduced()),
                        p0,
                        RTOL_P,
                        true,
                        None,
                    );
                }
                // speed of sound: w^2 = (dp/drho_mass)_s, isentropic neighbour found by secant on T
                if model.has_molar_weight() && cv > 0.0 && cp > 0.0 {
                    let s0 = sf.molar_entropy(TOT).to_reduced();
                    let mw = sf.total_molar_weight().to_reduced();
                    let w2 = sf.speed_of_sound().to_reduced().powi(2);
                    let isentropic_p = |rho_m: f64| -> Option<f64> {
                        let vv = ntot * mw / rho_m;
                        // secant on T for s(T, vv) = s0
                        let mut ta = t0;
                        let mut fa = mkf(ta, vv, &n0)?.molar_entropy(TOT).to_reduced() - s0;
                        let mut tb = t0 * (1.0 + 1e-3) - fa * t0 / cv.max(1e-3);
                        let mut fb = mkf(tb, vv, &n0)?.molar_entropy(TOT).to_reduced() - s0;
                        for _ in 0..30 {
                            if fb.abs() < 1e-13 * s0.abs().max(1.0) || fb == fa {
                                break;
                            }
                            let tc = tb - fb * (tb - ta) / (fb - fa);
                            ta = tb;
                            fa = fb;
                            tb = tc;
                            fb = mkf(tb, vv, &n0)?.molar_entropy(TOT).to_reduced() - s0;
                        }
                        if fb.abs() > 1e-9 * s0.abs().max(1.0) {
                            return None;
                        }
                        Some(mkf(tb, vv, &n0)?.pressure(TOT).to_reduced())
                    };
                    c.check(
                        "speed_of_sound^2 = dp/drho_m|s",
                        w2,
                        w2 * kap * (cp_abs / cp.abs()).max(1.0),
                        isentropic_p,
                        rho * mw,
                        RTOL_P,
                        true,
                        None,
                    );
                }
                // fugacity coefficient derivatives
                let lnphi = |st: &State<FullModel>, i: usize| st.ln_phi()[i];
                let a_n = contrib_abs(&s, PD::First(DN(ci)));
                let a_tn = contrib_abs(&s, PD::Mixed(DT, DN(ci)));
                let dpdn_abs = t0 / v0 + contrib_abs(&s, PD::Mixed(DV, DN(ci)));
                let sc_v = dpdn_abs / dpdv.abs();
                c.check(
                    "dln_phi_dt[i]",
                    sf.dln_phi_dt().to_reduced()[ci],
                    (a_tn + a_n / t0 + sc_v * dpdt_abs) / t0 + 1.0 / t0,
                    |x| Some(lnphi(&npt(x, p0)?, ci)),
                    t0,
                    RTOL_P,
                    true,
                    None,
                );
                c.check(
                    "dln_phi_dp[i]",
                    sf.dln_phi_dp().to_reduced()[ci],
                    sc_v / t0 + 1.0 / p0,
                    |x| Some(lnphi(&npt(t0, x)?, ci)),
                    p0,
                    RTOL_P,
                    false,
                    None,
                );
                let nptn = |nn: &Array1<f64>| {
                    State::new_npt(
                        &eos,
                        Temperature::from_reduced(t0),
                        Pressure::from_reduced(p0),
                        &Moles::from_reduced(nn.clone()),
                        DensityInitialization::InitialDensity(sf.density),
                    )
                    .ok()
                    .filter(|st| (0.7..1.3).contains(&(st.density.to_reduced() / rho)))
                };
                let dpdnj_abs = t0 / v0 + contrib_abs(&s, PD::Mixed(DV, DN(cj)));
                let dln = (sf.dln_phi_dnj() * Moles::from_reduced(1.0)).into_value()[[ci, cj]];
                c.check(
                    "dln_phi_dnj[i,j]",
                    dln,
                    contrib_abs(&s, PD::Mixed(DN(ci), DN(cj))) / t0 + dpdn_abs * dpdnj_abs / dpdv.abs() / t0 + 1.0 / ntot,
                    |x| Some(lnphi(&nptn(&with_n(cj, x))?, ci)),
                    n0[cj],
                    RTOL_P,
                    false,
                    None,
                );
            } else {
                c.obs.class("no p-path");
            }
        }
    }
    let conclusive = c.conclusive;
    if conclusive >= 8 {
        obs.nontrivial();
    }
    obs.class(if case.state.f_eta < 1e-3 {
        "dilute"
    } else if case.state.f_eta < 0.2 {
        "gas-like"
    } else {
        "dense"
    });
}

const PART: PartCfg = PartCfg {
    name: "sampled",
    genome_len: 100,
    cases_quick: 8000,
    cases_thorough: 400_000,
    panic: PanicPolicy::Count,
};

pub fn run(ctx: &Ctx) {
    ctx.set_rule("sampled: proptest genomes -> (model spec: 13 families incl. all functionals as bulk models, shipped/perturbed/random records, 1-3 components, options) x (tau in [0.4,3], eta fraction log-uniform [2e-6,0.9], open-simplex composition, moles 1e-3..1e3) x component indices for the N directions. Each case compares 15 (T,V,N)-derivative comparisons (13 getters; two of them also with neighbours derived by update_temperature from the evaluated centre) (orders 1-3) and up to 7 caloric / fugacity-derivative getters with Ridders-extrapolated central differences of the next-lower-order public getter on neighbouring states. Non-trivial: at least 8 comparisons were conclusive (error estimate < 1e-5 of the cancellation-safe scale). Distinct by hash of the canonical case JSON.");
    ctx.assume("verdict rule of DESIGN.md 3.3: inconclusive if the Ridders error estimate exceeds 1e-5*S; violation iff |analytic - numeric| > max(50*err, rtol*S), rtol 1e-6 (1e-5 on constant-pressure paths); a mismatch must be confirmed with a second step size");
    ctx.assume("constant-pressure paths only from mechanically stable centres with dp_dv and p conditioning < 50, neighbours accepted only within 30 % of the centre density");
    ctx.assume("ideal-gas part: DIPPR records of parameters/ideal_gas/poling2000.json");
    ctx.run_sampled(&PART, &decode, &check);
}

pub fn replay(ctx: &Ctx, _part: &str, case: &Value) -> bool {
    ctx.replay_case::<Case>(case, &check)
}
