//! C12 — converged equilibria do not depend on the initial guess or on continuation order.
//!
//! Parts (all sampled, every one a differential test "guided vs unguided / stand-alone"):
//! * `pure-guess`      `PhaseEquilibrium::pure(T|p, Some(vle at T'))` vs `pure(T|p, None)`
//! * `state-guess`     `State::new_npt` with `InitialDensity` / `Vapor` / `Liquid` vs `None` in
//!                     single-root situations (harness scan of the isotherm); `new_nph`, `new_nps`,
//!                     `new_nvu` with `initial_temperature`, `new_nts` with `InitialDensity`
//! * `state-two-roots` `State::new_npt(.., InitialDensity(rho0))` of pure Gross-Sadowski PC-SAFT records
//!                     where two stable-branch roots exist: rho0 on the side of the root returned
//!                     without a guess, possibly inside the mechanically unstable region
//! * `flash-guess`     `tp_flash` with the solution of a neighbouring (T, p) as initial state
//! * `bubble-dew-guess` bubble / dew points with `tp_init` and `molefracs_init` within a factor 3
//! * `diagram-pure`    every point of `PhaseDiagram::pure` equals the stand-alone solve (incl.
//!                     points after failing neighbours; a point may not get lost)
//! * `diagram-binary`  every point of `PhaseDiagram::binary_vle` equals the stand-alone bubble/dew
//!                     point, and the diagram of the component-swapped model is its mirror image
//! * `lines`           `bubble_point_line` / `dew_point_line` points vs stand-alone solves
use super::c04::{
    collapsed, critical, err_kind, gen_opt, pool_index, pure_spec, rec_name, tr_min, vle_vals, Crit, Opt, Vle, VleVals, DOMAIN_POOL,
};
use crate::engine::{Ctx, Gen, Obs, PanicPolicy, PartCfg};
use crate::model::*;
use feos::core::{
    Contributions, DensityInitialization, PhaseDiagram, ReferenceSystem, Residual, SolverOptions, State,
};
use ndarray::{arr1, Array1};
use quantity::*;
use serde::{Deserialize, Serialize};
use serde_json::{json, Value};
use std::sync::{Arc, LazyLock, Mutex};

// ---------------------------------------------------------------------------------------
// Tolerances (reasons in `run`)
// ---------------------------------------------------------------------------------------
/// guided vs unguided: relative on T, p, densities; absolute on mole fractions and phase fraction
/// (measured worst 7.6e-9 in 1.3e6 cases of the unchanged tree)
pub const TOL: f64 = 2e-7;
/// pure_t / pure_p stop on the pressure (temperature) update while the densities are one Newton
/// step behind (C04 measured residuals up to 1e-8 of p): saturation pressures of two paths
pub const TOL_PURE_P: f64 = 1e-6;
/// tp_flash stops on |d ln K| < 1e-8 with linearly converging successive substitution
pub const TOL_FLASH: f64 = 1e-5;

// ---------------------------------------------------------------------------------------
// Hydrocarbon PC-SAFT systems (no liquid-liquid demixing)
// ---------------------------------------------------------------------------------------
pub struct Hc {
    pub file: &'static str,
    pub rec: Value,
    pub tc: f64,
}

/// Non-associating, non-polar PC-SAFT records whose SMILES contains only C and H
/// (gross2001, loetgeringlin2018, esper2023), with the critical temperature of the model, sorted
/// by file order (methane first).
pub static HC_POOL: LazyLock<Vec<Hc>> = LazyLock::new(|| {
    let mut v = vec![];
    for (f, recs) in &POOLS.pcsaft {
        if !["gross2001.json", "loetgeringlin2018.json", "esper2023.json"].contains(f) {
            continue;
        }
        for r in recs {
            let Some(sm) = r["identifier"]["smiles"].as_str() else { continue };
            let only_ch = sm.chars().filter(|c| c.is_alphabetic()).all(|c| matches!(c, 'C' | 'c' | 'H'));
            let mr = &r["model_record"];
            let plain = ["kappa_ab", "epsilon_k_ab", "mu", "q", "na", "nb", "nc"].iter().all(|k| mr.get(*k).is_none());
            if !only_ch || !plain || sm.is_empty() {
                continue;
            }
            let spec = ModelSpec { family: Family::PcSaft, pure: vec![r.clone()], binary: vec![], seg: None, opts: Opts::default(), source: format!("shipped:{f}") };
            let Ok(m) = spec.build() else { continue };
            let Some(c) = critical(&spec, &m) else { continue };
            v.push(Hc { file: f, rec: r.clone(), tc: c.t });
        }
    }
    v
});

/// mixture of n hydrocarbons with T_c ratio < 1.8 (by construction), optional k_ij in +-0.05
pub fn gen_hc_mixture(g: &mut Gen, n: usize) -> ModelSpec {
    let pool = &*HC_POOL;
    // half of the draws from gross2001 (the first 51 records), half from the whole pool
    let n_g = pool.iter().filter(|h| h.file == "gross2001.json").count();
    let pick = |g: &mut Gen, cand: &[usize]| -> usize {
        let first: Vec<usize> = cand.iter().copied().filter(|&i| i < n_g).collect();
        if !first.is_empty() && !g.bool(0.5) {
            first[g.index(first.len())]
        } else {
            cand[g.index(cand.len())]
        }
    };
    let all: Vec<usize> = (0..pool.len()).collect();
    let mut idx = vec![pick(g, &all)];
    while idx.len() < n {
        let (lo, hi) = idx.iter().fold((f64::MAX, 0.0f64), |(lo, hi), &i| (lo.min(pool[i].tc), hi.max(pool[i].tc)));
        let cand: Vec<usize> = all
            .iter()
            .copied()
            .filter(|&j| !idx.contains(&j) && pool[j].tc.max(hi) / pool[j].tc.min(lo) < 1.8 && pool[j].rec["identifier"] != pool[idx[0]].rec["identifier"])
            .collect();
        idx.push(pick(g, &cand));
    }
    let mut binary = vec![];
    for i in 0..n {
        for j in i + 1..n {
            if g.bool(0.5) {
                binary.push((i, j, json!({"k_ij": g.range(-0.05, 0.05)})));
            }
        }
    }
    ModelSpec {
        family: Family::PcSaft,
        pure: idx.iter().map(|&i| pool[i].rec.clone()).collect(),
        binary,
        seg: None,
        opts: Opts::default(),
        source: "shipped:hydrocarbons".into(),
    }
}

/// critical points of the pure components of a mixture spec
pub fn pure_crits(spec: &ModelSpec) -> Option<Vec<Crit>> {
    (0..spec.n())
        .map(|i| {
            let s = spec.subset(&[i]);
            let m = s.build().ok()?;
            critical(&s, &m)
        })
        .collect()
}

fn mix_classes(obs: &mut Obs, spec: &ModelSpec) {
    obs.class(spec.label());
    obs.class(format!("n={}", spec.n()));
    obs.class(if spec.binary.is_empty() { "k_ij = 0" } else { "k_ij != 0" });
}

// ---------------------------------------------------------------------------------------
// comparison of two equilibria
// ---------------------------------------------------------------------------------------
static WORST: LazyLock<Mutex<std::collections::BTreeMap<String, f64>>> = LazyLock::new(|| Mutex::new(Default::default()));
fn see(k: &str, x: f64) {
    if x.is_finite() {
        let mut m = WORST.lock().unwrap();
        let e = m.entry(k.to_string()).or_insert(0.0);
        if x > *e {
            *e = x;
        }
    }
}

fn rel(a: f64, b: f64) -> f64 {
    (a - b).abs() / a.abs().max(b.abs()).max(f64::MIN_POSITIVE)
}

/// conditioning of a phase density with respect to the pressure: d ln rho / d ln p = p / (rho dp/drho)
fn kappa<E: Residual>(s: &State<E>) -> f64 {
    let p = s.pressure(Contributions::Total).to_reduced().abs();
    let d = s.density.to_reduced() * s.dp_drho(Contributions::Total).to_reduced();
    if d > 0.0 {
        (p / d).clamp(1.0, 1e4)
    } else {
        1e4
    }
}

/// a and b are the same equilibrium: T, p, phase densities relative, compositions absolute.
/// `swap`: b belongs to the model with the two components exchanged.
/// `tol_p`: tolerance of p (the quantity the solvers iterate on); a density follows p with the
/// factor kappa = p / (rho dp/drho) (1 for an ideal gas, << 1 for a liquid, -> infinity at the
/// critical point): its tolerance is tol_p * max(1, kappa).
#[allow(clippy::too_many_arguments)]
fn same_vle(obs: &mut Obs, tag: &str, what: &str, a: &Vle, b: &Vle, tol: f64, tol_p: f64, swap: bool) {
    let (va, vb) = (vle_vals(a), vle_vals(b));
    // pure equilibria: pure_t / pure_p return densities that are one Newton step behind the
    // converged pressure (measured 8.4e-8 on the liquid density where p agrees to 1.8e-8): x5
    let lag = if a.vapor().molefracs.len() == 1 { 5.0 } else { 1.0 };
    let tol_v = lag * tol_p * kappa(a.vapor()).max(kappa(b.vapor()));
    let tol_l = lag * tol_p * kappa(a.liquid()).max(kappa(b.liquid()));
    see(&format!("{tag}: T"), rel(va.t, vb.t) / tol);
    see(&format!("{tag}: p"), rel(va.p, vb.p) / tol_p);
    see(&format!("{tag}: rho_v"), rel(va.rho_v, vb.rho_v) / tol_v);
    see(&format!("{tag}: rho_l"), rel(va.rho_l, vb.rho_l) / tol_l);
    obs.close(&format!("{what}: T"), va.t, vb.t, tol, 0.0);
    obs.close(&format!("{what}: p"), va.p, vb.p, tol_p, 0.0);
    obs.close(&format!("{what}: vapor density"), va.rho_v, vb.rho_v, tol_v, 0.0);
    obs.close(&format!("{what}: liquid density"), va.rho_l, vb.rho_l, tol_l, 0.0);
    let n = a.vapor().molefracs.len();
    if n > 1 {
        for i in 0..n {
            let j = if swap { n - 1 - i } else { i };
            see(&format!("{tag}: y"), (a.vapor().molefracs[i] - b.vapor().molefracs[j]).abs() / tol_p);
            see(&format!("{tag}: x"), (a.liquid().molefracs[i] - b.liquid().molefracs[j]).abs() / tol_p);
            obs.close(&format!("{what}: y[{i}]"), a.vapor().molefracs[i], b.vapor().molefracs[j], 0.0, tol_p);
            obs.close(&format!("{what}: x[{i}]"), a.liquid().molefracs[i], b.liquid().molefracs[j], 0.0, tol_p);
        }
    }
}

/// C04/pure-collapsed-solution: one of the two results is a collapsed pair -> the difference is
/// that finding, not a new one. Returns true if handled.
fn collapsed_pair(obs: &mut Obs, what: &str, a: &VleVals, b: &VleVals) -> bool {
    if collapsed(a) || collapsed(b) {
        obs.class("a result is a collapsed pair (C04 finding)");
        obs.known_or_fail(
            "C04/pure-collapsed-solution",
            format!("{what}: a pure equilibrium returned as Ok is two copies of one phase: rho {:e}/{:e} vs rho {:e}/{:e}", a.rho_v, a.rho_l, b.rho_v, b.rho_l),
        );
        return true;
    }
    false
}

/// the two phases of a mixture result are copies of each other
fn copy_like(v: &Vle) -> bool {
    let n = v.vapor().molefracs.len();
    // (the critical end state of a diagram is built from one state twice: bitwise identical
    // phases are that construction, not a solver result)
    if v.vapor().density == v.liquid().density && (0..n).all(|i| v.vapor().molefracs[i] == v.liquid().molefracs[i]) {
        return false;
    }
    let dx = (0..n).map(|i| (v.vapor().molefracs[i] - v.liquid().molefracs[i]).abs()).fold(0.0, f64::max);
    dx < 1e-3 && (v.liquid().density.to_reduced() / v.vapor().density.to_reduced() - 1.0).abs() < 1e-2
}

/// Comparison of two mixture equilibria that should be the same point.
/// * a result whose phases are copies of each other is the known finding
///   C12/bubble-dew-near-trivial-solution (signature: `copy_like`);
/// * the isofugacity equations with one specified phase composition have two solutions below
///   the cricondenbar (the specified phase is the liquid: bubble point; it is the vapor: dew
///   point). Results with opposite density order are different equilibria, not one equilibrium
///   computed inaccurately: counted as inconclusive;
/// * `unique == false` (a super-critical component: closed p-x loop; pressure-specified dew
///   points: retrograde branch): results further apart than 5 % in p or 0.5 % in T are on
///   different branches: inconclusive.
/// Returns true if the comparison was made.
#[allow(clippy::too_many_arguments)]
fn cmp_mix(obs: &mut Obs, tag: &str, what: &str, a: &Vle, b: &Vle, tol: f64, swap: bool, unique: bool) -> bool {
    // A result that is a trivial solution by the library's OWN measure (partial densities equal
    // to 1e-5, `PhaseEquilibrium::is_trivial_solution`) is rejected by the solver loops of the
    // pinned tree; returning one as Ok is never part of a known finding.
    let lib_trivial = |v: &Vle| {
        let bitwise = v.vapor().density == v.liquid().density;
        !bitwise && feos::core::PhaseEquilibrium::is_trivial_solution(v.vapor(), v.liquid())
    };
    if lib_trivial(a) || lib_trivial(b) {
        let (va, vb) = (vle_vals(a), vle_vals(b));
        obs.fail(format!(
            "{what}: a bubble/dew point returned as Ok is a trivial solution by the library's own measure (partial densities of the two phases agree to 1e-5): p {:e}, rho {:e}/{:e} vs p {:e}, rho {:e}/{:e}",
            va.p, va.rho_v, va.rho_l, vb.p, vb.rho_v, vb.rho_l
        ));
        return false;
    }
    if copy_like(a) || copy_like(b) {
        obs.class("a mixture result is a pair of copies");
        let (va, vb) = (vle_vals(a), vle_vals(b));
        obs.known_or_fail(
            "C12/bubble-dew-near-trivial-solution",
            format!(
                "{what}: a bubble/dew point returned as Ok consists of two copies of one phase: p {:e}, rho {:e}/{:e}, y {} x {} vs p {:e}, rho {:e}/{:e}, y {} x {}",
                va.p,
                va.rho_v,
                va.rho_l,
                a.vapor().molefracs,
                a.liquid().molefracs,
                vb.p,
                vb.rho_v,
                vb.rho_l,
                b.vapor().molefracs,
                b.liquid().molefracs
            ),
        );
        return false;
    }
    let (va, vb) = (vle_vals(a), vle_vals(b));
    // C12/bubble-dew-pressure-runaway: a result in the ideal-gas limit (p < 1e-40 in reduced
    // units with both densities vanishing) or two results whose pressures differ by more than a
    // factor 1000 although every guess is within a factor 3 of the solution
    let runaway = |v: &VleVals| v.p < 1e-40 && v.rho_l < 1e-40;
    if runaway(&va) || runaway(&vb) || !((va.p / vb.p).ln().abs() < 1e3f64.ln()) {
        obs.class("a mixture result ran away in pressure");
        obs.known_or_fail(
            "C12/bubble-dew-pressure-runaway",
            format!("{what}: a bubble/dew point returned as Ok sits at p = {:e} (the other call: {:e}); densities {:e}/{:e} vs {:e}/{:e}", va.p, vb.p, va.rho_v, va.rho_l, vb.rho_v, vb.rho_l),
        );
        return false;
    }
    if (va.rho_v < va.rho_l) != (vb.rho_v < vb.rho_l) {
        obs.inconclusive(format!("{tag}: the two calls converge to different equilibria (bubble/dew exchange: opposite density order)"));
        return false;
    }
    if !unique && (rel(va.p, vb.p) > 0.05 || rel(va.t, vb.t) > 5e-3) {
        obs.inconclusive(format!("{tag}: the two calls converge to different branches of a closed / retrograde envelope"));
        return false;
    }
    same_vle(obs, tag, what, a, b, tol, tol, swap);
    true
}

// ---------------------------------------------------------------------------------------
// Part A: pure(T|p, Some(previous equilibrium))
// ---------------------------------------------------------------------------------------
#[derive(Serialize, Deserialize, Clone, Debug)]
pub struct PCase {
    pub spec: ModelSpec,
    pub tr: f64,
    /// (T' - T) / Tc of the equilibrium used as guess, |dtr| <= 0.3
    pub dtr: f64,
    pub opt: Opt,
    pub pspec: bool,
    /// 0: converged equilibrium at T'; 1: the unconverged pair `PhaseEquilibrium::new_npt(T, f p_sat)` at the
    /// target temperature itself ("to generate initial guesses for an actual VLE solver", its doc comment);
    /// 2: the converged equilibrium at T itself
    #[serde(default)]
    pub guess_kind: u8,
    /// factor f of guess kind 1, in [1/3, 3]
    #[serde(default)]
    pub guess_f: f64,
}

fn decode_pure(g: &mut Gen) -> PCase {
    let spec = pure_spec(&DOMAIN_POOL[pool_index(g)]);
    let lo = tr_min(&spec);
    let tr = g.range(lo, 0.99);
    let tr2 = (tr + g.range(-0.3, 0.3)).clamp(lo, 0.99);
    let (opt, pspec) = (gen_opt(g), g.bool(0.4));
    let guess_kind = match g.index(20) {
        0..=13 => 0,
        14..=18 => 1,
        _ => 2,
    };
    let guess_f = if g.bool(0.5) { g.log_range(1.0 / 3.0, 3.0) } else { g.range(0.8, 1.25) };
    PCase { spec, tr, dtr: if guess_kind == 0 { tr2 - tr } else { 0.0 }, opt, pspec, guess_kind, guess_f }
}

fn check_pure(case: &PCase, obs: &mut Obs) {
    let spec = &case.spec;
    obs.class(spec.label());
    obs.class(if case.pspec { "p-specification" } else { "T-specification" });
    obs.class(if case.opt.is_default() { "options:default" } else { "options:non-default" });
    let Ok(model) = spec.build() else {
        obs.discard("build");
        return;
    };
    let Some(c) = critical(spec, &model) else {
        obs.discard("no critical point");
        return;
    };
    let t = case.tr * c.t * KELVIN;
    let t2 = (case.tr + case.dtr) * c.t * KELVIN;
    let o = case.opt.solver();
    obs.class(format!("guess kind {}", ["converged at T'", "new_npt pair at T (not an equilibrium)", "converged at T"][case.guess_kind.min(2) as usize]));
    // the guess: a converged equilibrium at T' (default options)
    let Ok(conv) = Vle::pure(&model, t2, None, SolverOptions::default()) else {
        obs.discard("no equilibrium at T' for the guess");
        return;
    };
    if collapsed(&vle_vals(&conv)) {
        obs.discard("guess is a collapsed pair (C04 finding)");
        return;
    }
    let guess = if case.guess_kind == 1 {
        // two states at (T, f p_sat) that are not in equilibrium; admitted only if both phases exist there
        // and lie within a factor 3 of the solution (the property's "guesses within a factor 3")
        let vc = vle_vals(&conv);
        let one = arr1(&[1.0]) * MOL;
        let Ok(pair) = Vle::new_npt(&model, t, case.guess_f * conv.vapor().pressure(Contributions::Total), &one, &one) else {
            obs.discard("no new_npt pair at f p_sat");
            return;
        };
        let vq = vle_vals(&pair);
        let within = |a: f64, b: f64| a / b < 3.0 && b / a < 3.0;
        if !(within(vq.rho_v, vc.rho_v) && within(vq.rho_l, vc.rho_l) && vq.rho_l > 1.2 * vq.rho_v) {
            obs.discard("new_npt pair not within a factor 3 of the solution (one branch missing at f p_sat)");
            return;
        }
        pair
    } else {
        conv
    };
    let (unguided, guided, what) = if case.pspec {
        // the pressure is the saturation pressure at T (from the unguided T-solve)
        let Ok(ut) = Vle::pure(&model, t, None, SolverOptions::default()) else {
            obs.discard("no equilibrium at T");
            return;
        };
        if collapsed(&vle_vals(&ut)) {
            obs.discard("T-solve is a collapsed pair (C04 finding)");
            return;
        }
        let p = ut.vapor().pressure(Contributions::Total);
        (Vle::pure(&model, p, None, o), Vle::pure(&model, p, Some(&guess), o), "pure(p, guess) vs pure(p)")
    } else {
        (Vle::pure(&model, t, None, o), Vle::pure(&model, t, Some(&guess), o), "pure(T, guess) vs pure(T)")
    };
    obs.class(format!("unguided:{} guided:{}", if unguided.is_ok() { "Ok" } else { "Err" }, if guided.is_ok() { "Ok" } else { "Err" }));
    if let Err(e) = &guided {
        obs.class(format!("guided Err:{}", err_kind(e)));
    }
    let (Ok(u), Ok(gd)) = (unguided, guided) else { return };
    if !case.pspec {
        obs.ensure(gd.vapor().temperature == t && gd.liquid().temperature == t, || {
            format!("guided pure(T): result at T = {} / {} instead of the specified {}", gd.vapor().temperature, gd.liquid().temperature, t)
        });
    }
    let (vu, vg) = (vle_vals(&u), vle_vals(&gd));
    if collapsed_pair(obs, what, &vu, &vg) {
        return;
    }
    let f = (1e5 * case.opt.tol.unwrap_or(0.0) / TOL_PURE_P).max(1.0);
    // Known finding C12/pure-guess-swapped-phases. Signature: the guided result is the unguided
    // equilibrium with vapor() and liquid() exchanged.
    if vg.rho_v > vg.rho_l && rel(vg.rho_v, vu.rho_l) < TOL_PURE_P * f && rel(vg.rho_l, vu.rho_v) < TOL_PURE_P * f {
        obs.class("guided result has vapor and liquid exchanged");
        obs.known_or_fail(
            "C12/pure-guess-swapped-phases",
            format!(
                "{what}: the guided call returns the same equilibrium with the phases exchanged: vapor().density = {:e} > liquid().density = {:e} (unguided {:e} / {:e}); T/Tc = {}, guess from T'/Tc = {}",
                vg.rho_v,
                vg.rho_l,
                vu.rho_v,
                vu.rho_l,
                case.tr,
                case.tr + case.dtr
            ),
        );
        return;
    }
    same_vle(obs, "pure-guess", what, &gd, &u, TOL * f, TOL_PURE_P * f, false);
    // non-trivial: the guess differs from the solution by more than 10 % (in pressure)
    let vq = vle_vals(&guess);
    if rel(vq.p, vu.p) > 0.1 {
        obs.nontrivial();
        obs.class("guess differs > 10 % in p");
    } else {
        obs.class("guess within 10 % in p");
    }
}

// ---------------------------------------------------------------------------------------
// Part B: state constructors
// ---------------------------------------------------------------------------------------
#[derive(Serialize, Deserialize, Clone, Debug)]
pub struct GCase {
    pub spec: ModelSpec,
    pub x: Vec<f64>,
    /// T / max pure T_c
    pub tau: f64,
    /// packing-fraction-like position of the target state on the isotherm: rho / rho_max
    pub f_rho: f64,
    /// factor applied to the solution to make the guess (density or temperature)
    pub factor: f64,
    /// selects the coefficients of the ideal-gas heat capacity for the caloric constructors
    pub ig: Vec<usize>,
}

fn decode_state(g: &mut Gen) -> GCase {
    let n = 1 + g.index(2);
    let spec = gen_hc_mixture(g, n);
    let x = g.simplex(n, 0.02);
    let tau = g.range(0.5, 2.0);
    let f_rho = if g.bool(0.5) { g.log_range(1e-4, 0.1) } else { g.range(0.1, 0.85) };
    let factor = g.log_range(1.0 / 3.0, 3.0);
    let ig = (0..n).map(|_| g.index(POOLS.dippr.len())).collect();
    GCase { spec, x, tau, f_rho, factor, ig }
}

/// number of density roots of p(rho) = p on the isotherm (grid of 600 densities up to rho_max
/// plus the two densities rho0 (1 -+ 1e-6) next to the target, so that a narrow overshoot of the
/// isotherm right behind the target cannot hide two roots), and whether any grid point is
/// mechanically unstable
fn count_roots(model: &Arc<Model>, t: Temperature, moles: &Moles<Array1<f64>>, p: f64, rho_max: f64, rho0: f64) -> Option<(usize, bool)> {
    let n = moles.sum();
    let m = 600;
    let mut grid: Vec<f64> = (0..=m)
        .map(|k| {
            // geometric below 1e-2 rho_max, linear above
            let u = k as f64 / m as f64;
            if u < 0.3 {
                rho_max * 1e-7f64.powf(1.0 - u / 0.3) * 1e-2f64.powf(u / 0.3)
            } else {
                rho_max * (1e-2 + (u - 0.3) / 0.7 * 0.99)
            }
        })
        .collect();
    grid.push(rho0 * (1.0 - 1e-6));
    grid.push(rho0 * (1.0 + 1e-6));
    grid.sort_by(|a, b| a.partial_cmp(b).unwrap());
    let mut prev: Option<f64> = None;
    let mut roots = 0;
    let mut unstable = false;
    // closest approach of the isotherm to the target pressure behind the first unstable point
    let mut min_behind = f64::MAX;
    for rho in grid {
        let s = State::new_nvt(model, t, n / Density::from_reduced(rho), moles).ok()?;
        let pk = s.pressure(Contributions::Total).to_reduced() - p;
        if !pk.is_finite() {
            return None;
        }
        if s.dp_drho(Contributions::Total).to_reduced() <= 0.0 {
            unstable = true;
        }
        if unstable {
            min_behind = min_behind.min(pk.abs());
        }
        if let Some(pp) = prev {
            if (pp < 0.0) != (pk < 0.0) {
                roots += 1;
            }
        }
        prev = Some(pk);
    }
    // a van der Waals loop whose extremum comes within 5 % of the target pressure without a sign
    // change on the grid can hide a pair of roots between two grid points (seen: loop minimum
    // 3e-5 above p = 1.46e-3 on the grid, new_npt(Liquid) finds a root there to 1e-12): not a
    // single-root situation
    if roots == 1 && unstable && min_behind < 0.05 * p.abs() {
        roots = 3;
    }
    Some((roots, unstable))
}

fn check_state(case: &GCase, obs: &mut Obs) {
    let spec = &case.spec;
    mix_classes(obs, spec);
    let Ok(model) = spec.build() else {
        obs.discard("build");
        return;
    };
    let Some(cr) = pure_crits(spec) else {
        obs.discard("no critical point");
        return;
    };
    let tc_max = cr.iter().map(|c| c.t).fold(0.0, f64::max);
    let t = case.tau * tc_max * KELVIN;
    let moles = Moles::from_reduced(Array1::from_vec(case.x.clone()));
    let Ok(rho_max) = model.max_density(Some(&moles)) else {
        obs.discard("max_density");
        return;
    };
    let rho_max = rho_max.to_reduced();
    let rho0 = case.f_rho * rho_max;
    let Ok(target) = State::new_nvt(&model, t, moles.sum() / Density::from_reduced(rho0), &moles) else {
        obs.discard("target state");
        return;
    };
    let p = target.pressure(Contributions::Total).to_reduced();
    // density iteration resolves the pressure to 1e-12 (reduced) absolutely: keep p >= 1e-4 (~1.4 bar)
    if !(p >= 1e-4) || target.dp_drho(Contributions::Total).to_reduced() <= 0.0 {
        obs.discard("target pressure below 1e-4 or target mechanically unstable");
        return;
    }
    let Some((roots, unstable)) = count_roots(&model, t, &moles, p, rho_max, rho0) else {
        obs.discard("isotherm scan failed");
        return;
    };
    obs.class(format!("roots on the isotherm: {}", roots.min(3)));
    if roots != 1 {
        obs.class("several density roots: excluded by the quantifier");
        return;
    }
    obs.class(if case.tau > 1.0 { "supercritical isotherm" } else if unstable { "sub-critical, one root (p outside the loop)" } else { "sub-critical, monotone isotherm" });
    let pq = Pressure::from_reduced(p);
    let run = |init: DensityInitialization| State::new_npt(&model, t, pq, &moles, init);
    let base = run(DensityInitialization::None);
    let guess_rho = (rho0 * case.factor).min(0.98 * rho_max);
    let variants = [
        ("InitialDensity", run(DensityInitialization::InitialDensity(Density::from_reduced(guess_rho)))),
        ("Vapor", run(DensityInitialization::Vapor)),
        ("Liquid", run(DensityInitialization::Liquid)),
    ];
    let mut compared = 0;
    if let Ok(b) = &base {
        // the unguided result is the single root
        let rb = b.density.to_reduced();
        see("state-guess: None vs target", rel(rb, rho0) / TOL);
        obs.close("new_npt(None): density of the single root", rb, rho0, TOL, 0.0);
        for (name, r) in &variants {
            match r {
                Ok(s) => {
                    // Known finding C12/density-iteration-unconverged-ok. Signature: the returned
                    // state misses the specified pressure by more than 1e-9 relative (a converged
                    // density iteration meets it to 1e-12 absolute).
                    let perr = rel(s.pressure(Contributions::Total).to_reduced(), p);
                    if perr > 1e-9 {
                        obs.class(format!("{name}: returned state misses the specified pressure"));
                        obs.known_or_fail(
                            "C12/density-iteration-unconverged-ok",
                            format!("new_npt({name}) returns Ok at rho = {:e} where p = {:e} instead of the specified {:e} (relative error {:e}); single root at {:e}", s.density.to_reduced(), s.pressure(Contributions::Total).to_reduced(), p, perr, rho0),
                        );
                        continue;
                    }
                    compared += 1;
                    obs.class(format!("{name}:Ok"));
                    see("state-guess: density", rel(s.density.to_reduced(), rb) / TOL);
                    obs.close(&format!("new_npt({name}) vs new_npt(None): density"), s.density.to_reduced(), rb, TOL, 0.0);
                    obs.ensure(s.temperature == t, || format!("new_npt({name}): temperature {} instead of {}", s.temperature, t));
                }
                Err(_) => obs.class(format!("{name}:Err")),
            }
        }
    } else {
        obs.class("new_npt(None):Err");
    }
    // caloric constructors with an initial temperature (pure components, p above p_c: one root in T)
    if spec.n() == 1 && p > 1.05 * cr[0].p {
        // an ideal-gas heat capacity that is positive at every temperature (c_p = a + b T, J/mol/K):
        // shipped DIPPR polynomials turn negative far above their range, which gives u(T), h(T),
        // s(T) a second root
        let k = case.ig.first().copied().unwrap_or(0);
        if let Ok(igm) = joback_model(&[[20.0 + 10.0 * (k % 7) as f64, 0.05 + 0.01 * (k % 5) as f64, 0.0, 0.0, 0.0]]) {
            let eos = full_model(igm, model.clone());
            if let Ok(s0) = State::new_nvt(&eos, t, target.volume, &moles) {
                let t0 = t.to_reduced();
                let h = s0.molar_enthalpy(Contributions::Total);
                let sm = s0.molar_entropy(Contributions::Total);
                let u = s0.molar_internal_energy(Contributions::Total);
                let ti = Some(t * case.factor.clamp(0.6, 1.6));
                let dens = DensityInitialization::None;
                let pairs: Vec<(&str, Result<State<FullModel>, _>, Result<State<FullModel>, _>)> = vec![
                    ("new_nph", State::new_nph(&eos, pq, h, &moles, dens, ti), State::new_nph(&eos, pq, h, &moles, dens, None)),
                    ("new_nps", State::new_nps(&eos, pq, sm, &moles, dens, ti), State::new_nps(&eos, pq, sm, &moles, dens, None)),
                    ("new_nvu", State::new_nvu(&eos, target.volume, u, &moles, ti), State::new_nvu(&eos, target.volume, u, &moles, None)),
                ];
                for (name, a, b) in pairs {
                    obs.class(format!("{name}: guided {} / default {}", if a.is_ok() { "Ok" } else { "Err" }, if b.is_ok() { "Ok" } else { "Err" }));
                    for (which, r) in [("initial_temperature", &a), ("default start", &b)] {
                        if let Ok(s) = r {
                            compared += 1;
                            see("state-guess: T", rel(s.temperature.to_reduced(), t0) / TOL);
                            see("state-guess: rho(T-iteration)", rel(s.density.to_reduced(), rho0) / (10.0 * TOL));
                            obs.close(&format!("{name} ({which}): temperature of the single root"), s.temperature.to_reduced(), t0, TOL, 0.0);
                            obs.close(&format!("{name} ({which}): density"), s.density.to_reduced(), rho0, 10.0 * TOL, 0.0);
                        }
                    }
                }
                // entropy at fixed T is monotone in rho (dp/dT > 0 checked): one density root
                if s0.dp_dt(Contributions::Total).to_reduced() > 0.0 && case.tau > 1.0 {
                    let g1 = State::new_nts(&eos, t, sm, &moles, DensityInitialization::InitialDensity(Density::from_reduced(guess_rho)));
                    obs.class(format!("new_nts: {}", if g1.is_ok() { "Ok" } else { "Err" }));
                    if let Ok(s) = g1 {
                        compared += 1;
                        see("state-guess: rho(nts)", rel(s.density.to_reduced(), rho0) / (2.5 * TOL));
                        obs.close("new_nts(InitialDensity): density of the single root", s.density.to_reduced(), rho0, 2.5 * TOL, 0.0);
                    }
                }
            }
        }
    }
    if compared > 0 && (case.factor > 1.1 || case.factor < 1.0 / 1.1) {
        obs.nontrivial();
    }
}

// ---------------------------------------------------------------------------------------
// mixtures: options
// ---------------------------------------------------------------------------------------
#[derive(Serialize, Deserialize, Clone, Copy, Debug, PartialEq)]
pub struct BdOpt {
    pub inner_iter: Option<usize>,
    pub outer_iter: Option<usize>,
    pub outer_tol: Option<f64>,
}

impl BdOpt {
    pub const DEFAULT: BdOpt = BdOpt { inner_iter: None, outer_iter: None, outer_tol: None };
    fn solver(&self) -> (SolverOptions, SolverOptions) {
        let mut i = SolverOptions::default();
        let mut o = SolverOptions::default();
        if let Some(m) = self.inner_iter {
            i = i.max_iter(m);
        }
        if let Some(m) = self.outer_iter {
            o = o.max_iter(m);
        }
        if let Some(t) = self.outer_tol {
            o = o.tol(t);
        }
        (i, o)
    }
    fn factor(&self) -> f64 {
        (100.0 * self.outer_tol.unwrap_or(0.0) / TOL).max(1.0)
    }
}

/// `tight`: also small iteration limits, which make some solves fail (failing neighbours)
fn gen_bdopt(g: &mut Gen, tight: bool) -> BdOpt {
    let inner_iter = if g.bool(0.3) { Some(g.int(2, 10) as usize) } else { None };
    let outer_iter = if g.bool(0.4) { Some(if tight { g.int(4, 40) } else { g.int(50, 400) } as usize) } else { None };
    let outer_tol = if g.bool(0.3) { Some(g.log_range(1e-12, 1e-9)) } else { None };
    BdOpt { inner_iter, outer_iter, outer_tol }
}

/// temperature of a mixture case: tr x the lowest pure critical temperature, but not below half
/// of the highest one (below ~0.45 T_c the pure PC-SAFT models have spurious dense phases, so a
/// mixture with such a component is not free of liquid-liquid demixing)
fn t_low(cr: &[Crit], tr: f64) -> Temperature {
    let lo = cr.iter().map(|c| c.t).fold(f64::MAX, f64::min);
    let hi = cr.iter().map(|c| c.t).fold(0.0, f64::max);
    (tr * lo).max(0.5 * hi) * KELVIN
}

// ---------------------------------------------------------------------------------------
// Part B2: new_npt with InitialDensity where TWO stable-branch roots exist (sub-critical pure
// component, pressure inside the van der Waals loop): the initial density lies on the side of
// the root that `new_npt(.., None)` returns (the one with the lower Gibbs energy), possibly
// inside the mechanically unstable region, where `density_iteration` takes its "correction
// for instable region" branches (density_iteration.rs:54-121).
// ---------------------------------------------------------------------------------------
#[derive(Serialize, Deserialize, Clone, Debug)]
pub struct TCase {
    pub spec: ModelSpec,
    /// T / T_c
    pub tr: f64,
    /// target: the stable liquid (p above p_sat) or the stable vapour (p below p_sat)
    pub liquid: bool,
    /// position of p in its interval: liquid [1.02 p_sat, min(p_spinodal_vapour, 3 p_sat)],
    /// vapour [0.5, 0.98] p_sat
    pub u_p: f64,
    /// initial density / density of the target root: liquid [0.6, 1.3], vapour [0.3, 3]
    pub ratio: f64,
}

/// calibrated domain (see `run`): upper ends of T/T_c
pub const TWO_ROOT_TR_MAX_LIQUID: f64 = 0.94;
pub const TWO_ROOT_TR_MAX_VAPOUR: f64 = 0.945;
/// up to here the unchanged tree returns the guess-free root for every initial density of the domain
pub const TWO_ROOT_TR_CLEAN_VAPOUR: f64 = 0.925;
const GS_FILES: [&str; 5] = ["gross2001.json", "gross2002.json", "gross2005_fit.json", "gross2005_literature.json", "gross2006.json"];

fn decode_two(g: &mut Gen) -> TCase {
    // pure records of the Gross-Sadowski collections (133 records, methane first)
    let idx: Vec<usize> = (0..DOMAIN_POOL.len()).filter(|&i| GS_FILES.contains(&DOMAIN_POOL[i].file)).collect();
    let spec = pure_spec(&DOMAIN_POOL[idx[g.index(idx.len())]]);
    let liquid = !g.bool(0.5);
    // half of the temperatures in the upper fifth of the range, where the initial densities of
    // the range reach the unstable region
    let hi = if liquid { TWO_ROOT_TR_MAX_LIQUID } else { TWO_ROOT_TR_MAX_VAPOUR };
    // vapour targets reach the unstable region only from the corner of the domain (initial
    // density 2.4-3 x the vapour density, p >= 0.88 p_sat, T/T_c >= 0.9): half of the vapour
    // cases are drawn there
    let corner = !liquid && g.bool(0.5);
    let tr = if corner {
        g.range(0.9, hi)
    } else if g.bool(0.5) {
        g.range(hi - 0.08, hi)
    } else {
        g.range(0.5, hi)
    };
    let u_p = if corner { g.range(0.38 / 0.48, 1.0) } else { g.unit() };
    let ratio = if liquid {
        g.range(0.6, 1.3)
    } else if corner {
        g.log_range(2.4, 3.0)
    } else {
        g.log_range(0.3, 3.0)
    };
    TCase { spec, tr, liquid, u_p, ratio }
}

pub fn check_two(case: &TCase, obs: &mut Obs) {
    let spec = &case.spec;
    obs.class(spec.label());
    obs.class(if case.liquid { "liquid target" } else { "vapour target" });
    if spec.has_association() {
        obs.class("assoc");
    }
    if spec.has_polar() {
        obs.class("polar");
    }
    let Ok(model) = spec.build() else {
        obs.discard("build");
        return;
    };
    let Some(c) = critical(spec, &model) else {
        obs.discard("no critical point");
        return;
    };
    let t = case.tr * c.t * KELVIN;
    let Ok(vle) = Vle::pure(&model, t, None, SolverOptions::default()) else {
        obs.discard("no pure equilibrium at T");
        return;
    };
    let sat = vle_vals(&vle);
    if collapsed(&sat) || !(sat.rho_v < c.rho && c.rho < sat.rho_l) {
        obs.discard("saturation state unusable (C04 finding)");
        return;
    }
    let moles = Moles::from_reduced(arr1(&[1.0]));
    let p = if case.liquid {
        // vapour-spinodal pressure: the upper end of the two-root pressure range
        let Ok(sp) = State::spinodal(&model, t, None, SolverOptions::default()) else {
            obs.discard("no spinodal");
            return;
        };
        let (rs, ps) = (sp[0].density.to_reduced(), sp[0].pressure(Contributions::Total).to_reduced());
        if !(rs > sat.rho_v && rs < c.rho && ps > 1.02 * sat.p) {
            obs.discard("vapour spinodal not between the saturated vapour and the critical density");
            return;
        }
        let hi = ps.min(3.0 * sat.p);
        1.02 * sat.p + case.u_p * (hi - 1.02 * sat.p)
    } else {
        (0.5 + 0.48 * case.u_p) * sat.p
    };
    let pq = Pressure::from_reduced(p);
    // the result without a guess: the root with the lower Gibbs energy
    let Ok(base) = State::new_npt(&model, t, pq, &moles, DensityInitialization::None) else {
        obs.class("new_npt(None):Err");
        return;
    };
    let rb = base.density.to_reduced();
    let on_side = if case.liquid { rb > sat.rho_l * 0.999 } else { rb < sat.rho_v * 1.001 };
    if !on_side || rel(base.pressure(Contributions::Total).to_reduced(), p) > 1e-9 {
        // (not a statement about guesses; C03 decides new_npt(None) itself)
        obs.class("new_npt(None) not on the stable branch of the target");
        return;
    }
    let rho_max = model.max_density(Some(&moles)).map(|r| r.to_reduced()).unwrap_or(f64::MAX);
    let rho0 = (case.ratio * rb).min(0.98 * rho_max);
    // where does the initial density lie?
    let s0 = State::new_nvt(&model, t, moles.sum() / Density::from_reduced(rho0), &moles);
    let unstable0 = s0.as_ref().map_or(false, |s| s.dp_drho(Contributions::Total).to_reduced() <= 0.0);
    obs.class(if unstable0 { "initial density mechanically unstable" } else { "initial density on a stable or metastable branch" });
    let r = State::new_npt(&model, t, pq, &moles, DensityInitialization::InitialDensity(Density::from_reduced(rho0)));
    match r {
        Err(e) => obs.class(format!("InitialDensity:Err:{}", err_kind(&e))),
        Ok(s) => {
            obs.class("InitialDensity:Ok");
            obs.ensure(s.temperature == t, || format!("new_npt(InitialDensity): temperature {} instead of {}", s.temperature, t));
            let perr = rel(s.pressure(Contributions::Total).to_reduced(), p);
            if perr > 1e-9 {
                obs.class("InitialDensity: returned state misses the specified pressure");
                obs.known_or_fail(
                    "C12/density-iteration-unconverged-ok",
                    format!("new_npt(InitialDensity) returns Ok at rho = {:e} where p misses the specified {:e} by {:e} relative", s.density.to_reduced(), p, perr),
                );
                return;
            }
            let tol = TOL * kappa(&base).max(kappa(&s));
            // open finding: close to the critical temperature an initial density of 2.6-3 x the
            // vapour root at p >= 0.93 p_sat converges to the metastable liquid root
            if !case.liquid
                && case.tr > TWO_ROOT_TR_CLEAN_VAPOUR
                && case.ratio >= 2.6
                && p >= 0.93 * sat.p
                && s.density.to_reduced() > c.rho
                && rel(s.density.to_reduced(), rb) > tol
            {
                obs.class("signature:C12/initial-density-near-critical-returns-metastable-liquid");
                obs.known_or_fail(
                    "C12/initial-density-near-critical-returns-metastable-liquid",
                    format!(
                        "new_npt(InitialDensity({:e} = {} x the vapour root)) returns the metastable liquid root {:e}, new_npt(None) returns {:e}; {} T/Tc = {}, p/p_sat = {}",
                        rho0,
                        case.ratio,
                        s.density.to_reduced(),
                        rb,
                        rec_name(&spec.pure[0]),
                        case.tr,
                        p / sat.p
                    ),
                );
                return;
            }
            see("state-two-roots: density", rel(s.density.to_reduced(), rb) / tol);
            obs.ensure(rel(s.density.to_reduced(), rb) <= tol, || {
                format!(
                    "new_npt(InitialDensity({:e} = {} x the {} root)) returns rho = {:e}, new_npt(None) returns {:e} (the root with the lower Gibbs energy); {} T/Tc = {}, p/p_sat = {}, saturated densities {:e} / {:e}",
                    rho0,
                    case.ratio,
                    if case.liquid { "liquid" } else { "vapour" },
                    s.density.to_reduced(),
                    rb,
                    rec_name(&spec.pure[0]),
                    case.tr,
                    p / sat.p,
                    sat.rho_v,
                    sat.rho_l
                )
            });
            if unstable0 || (case.ratio - 1.0).abs() > 0.1 {
                obs.nontrivial();
            }
        }
    }
}

// ---------------------------------------------------------------------------------------
// Part C: tp_flash with a neighbouring solution
// ---------------------------------------------------------------------------------------
#[derive(Serialize, Deserialize, Clone, Debug)]
pub struct FCase {
    pub spec: ModelSpec,
    pub z: Vec<f64>,
    pub tr: f64,
    /// p = p_dew + theta (p_bub - p_dew)
    pub theta: f64,
    /// neighbour: T' = T (1 + dt), p' = p (1 + dp)
    pub dt: f64,
    pub dp: f64,
    pub opt: Opt,
}

fn decode_flash(g: &mut Gen) -> FCase {
    let n = 2 + g.index(2);
    let spec = gen_hc_mixture(g, n);
    let z = g.simplex(n, 0.05);
    let tr = g.range(0.6, 0.95);
    let theta = g.range(0.1, 0.9);
    let dt = g.range(-0.03, 0.03);
    let dp = g.range(-0.15, 0.15);
    let max_iter = if g.bool(0.3) { Some(g.int(50, 400) as usize) } else { None };
    let tol = if g.bool(0.4) { Some(g.log_range(1e-10, 1e-7)) } else { None };
    FCase { spec, z, tr, theta, dt, dp, opt: Opt { max_iter, tol } }
}

fn check_flash(case: &FCase, obs: &mut Obs) {
    let spec = &case.spec;
    mix_classes(obs, spec);
    let Ok(model) = spec.build() else {
        obs.discard("build");
        return;
    };
    let Some(cr) = pure_crits(spec) else {
        obs.discard("no critical point");
        return;
    };
    let t = t_low(&cr, case.tr);
    let z = Array1::from_vec(case.z.clone());
    let feed = Moles::from_reduced(z.clone());
    let d = (SolverOptions::default(), SolverOptions::default());
    let (Ok(bub), Ok(dew)) = (Vle::bubble_point(&model, t, &z, None, None, d), Vle::dew_point(&model, t, &z, None, None, d)) else {
        obs.discard("no bubble or dew point at T");
        return;
    };
    let (pb, pd) = (vle_vals(&bub).p, vle_vals(&dew).p);
    if !(pb / pd > 1.05) {
        obs.discard("envelope narrower than 5 % (near-azeotropic / near-pure): outside C05's flash domain");
        return;
    }
    let p = Pressure::from_reduced(pd + case.theta * (pb - pd));
    let o = case.opt.solver();
    let unguided = Vle::tp_flash(&model, t, p, &feed, None, o, None);
    // neighbouring solution
    let (t2, p2) = (t * (1.0 + case.dt), p * (1.0 + case.dp));
    let Ok(nb) = Vle::tp_flash(&model, t2, p2, &feed, None, SolverOptions::default(), None) else {
        obs.discard("no two-phase solution at the neighbouring (T', p')");
        return;
    };
    let guided = Vle::tp_flash(&model, t, p, &feed, Some(&nb), o, None);
    obs.class(format!("unguided:{} guided:{}", if unguided.is_ok() { "Ok" } else { "Err" }, if guided.is_ok() { "Ok" } else { "Err" }));
    let (Ok(u), Ok(gd)) = (unguided, guided) else { return };
    // the guided result sits at the specified T and p
    obs.ensure(gd.vapor().temperature == t && gd.liquid().temperature == t, || {
        format!("guided tp_flash: phases at T = {} / {} instead of {}", gd.vapor().temperature, gd.liquid().temperature, t)
    });
    let pr = p.to_reduced();
    obs.close("guided tp_flash: vapor at the specified pressure", gd.vapor().pressure(Contributions::Total).to_reduced(), pr, TOL, 0.0);
    obs.close("guided tp_flash: liquid at the specified pressure", gd.liquid().pressure(Contributions::Total).to_reduced(), pr, TOL, 1e-10);
    let f = (case.opt.tol.unwrap_or(1e-8) / 1e-8).max(1.0);
    // T and p are specifications (exact); densities and compositions carry the K-factor error
    let (va, vb) = (vle_vals(&gd), vle_vals(&u));
    // one call returns a vapor-liquid split, the other a split into two liquid-like phases: the
    // system has liquid-liquid demixing at this (T, p) (stable or metastable), which the
    // quantifier excludes (asymmetric alkane mixtures with k_ij ~ 0.05 do this in PC-SAFT)
    let ll = |v: &VleVals| v.rho_v > 0.5 * v.rho_l;
    if ll(&va) != ll(&vb) {
        obs.class("liquid-liquid split found by one call: system outside the quantifier");
        obs.inconclusive("flash-guess: one call returns a liquid-liquid split (system with liquid-liquid demixing)");
        return;
    }
    see("flash-guess: rho_v", rel(va.rho_v, vb.rho_v) / (TOL_FLASH * f));
    see("flash-guess: rho_l", rel(va.rho_l, vb.rho_l) / (TOL_FLASH * f));
    obs.close("tp_flash(guess) vs tp_flash: vapor density", va.rho_v, vb.rho_v, TOL_FLASH * f, 0.0);
    obs.close("tp_flash(guess) vs tp_flash: liquid density", va.rho_l, vb.rho_l, TOL_FLASH * f, 0.0);
    for i in 0..spec.n() {
        see("flash-guess: y", (gd.vapor().molefracs[i] - u.vapor().molefracs[i]).abs() / (TOL_FLASH * f));
        see("flash-guess: x", (gd.liquid().molefracs[i] - u.liquid().molefracs[i]).abs() / (TOL_FLASH * f));
        obs.close(&format!("tp_flash(guess) vs tp_flash: y[{i}]"), gd.vapor().molefracs[i], u.vapor().molefracs[i], 0.0, TOL_FLASH * f);
        obs.close(&format!("tp_flash(guess) vs tp_flash: x[{i}]"), gd.liquid().molefracs[i], u.liquid().molefracs[i], 0.0, TOL_FLASH * f);
    }
    let beta = |v: &Vle| (v.vapor().total_moles / (v.vapor().total_moles + v.liquid().total_moles)).into_value();
    let (bg, bu) = (beta(&gd), beta(&u));
    // the phase fraction is ill-conditioned when y ~ x: scale with 1 / |y - x|
    let sep = (0..spec.n()).map(|i| (u.vapor().molefracs[i] - u.liquid().molefracs[i]).abs()).fold(0.0, f64::max);
    see("flash-guess: beta", (bg - bu).abs() * sep / (TOL_FLASH * f));
    obs.close("tp_flash(guess) vs tp_flash: vapor fraction", bg, bu, 0.0, TOL_FLASH * f / sep.max(1e-3));
    obs.class(if bu > 0.02 && bu < 0.98 { "beta in (0.02, 0.98)" } else { "beta near 0 or 1" });
    let far = rel(vle_vals(&nb).rho_v, vb.rho_v) > 0.1 || (beta(&nb) - bu).abs() > 0.1;
    if far && bu > 0.02 && bu < 0.98 {
        obs.nontrivial();
    }
    obs.class(if far { "guess differs > 10 %" } else { "guess within 10 %" });
}

// ---------------------------------------------------------------------------------------
// Part D: bubble / dew points with tp_init and molefracs_init
// ---------------------------------------------------------------------------------------
#[derive(Serialize, Deserialize, Clone, Debug)]
pub struct BCase {
    pub spec: ModelSpec,
    pub x: Vec<f64>,
    pub tr: f64,
    pub bubble: bool,
    pub pspec: bool,
    /// factor on the solution pressure (T-spec) / relative shifts of the solution temperature (p-spec)
    pub f_tp: f64,
    pub f_tp2: f64,
    /// factors on the incipient-phase mole fractions (empty: no composition guess)
    pub f_x: Vec<f64>,
    pub opt: BdOpt,
}

fn decode_bd(g: &mut Gen) -> BCase {
    let n = 2 + g.index(2);
    let spec = gen_hc_mixture(g, n);
    let x = g.simplex(n, 0.02);
    let tr = g.range(0.6, 0.95);
    let bubble = !g.bool(0.5);
    let pspec = g.bool(0.35);
    let f_tp = g.log_range(1.0 / 3.0, 3.0);
    let f_tp2 = g.log_range(1.0 / 3.0, 3.0);
    let f_x = if g.bool(0.6) { (0..n).map(|_| g.log_range(1.0 / 3.0, 3.0)).collect() } else { vec![] };
    BCase { spec, x, tr, bubble, pspec, f_tp, f_tp2, f_x, opt: gen_bdopt(g, false) }
}

fn bd(model: &Arc<Model>, bubble: bool, t: Option<Temperature>, p: Option<Pressure>, x: &Array1<f64>, y: Option<&Array1<f64>>, o: (SolverOptions, SolverOptions), t_spec: bool) -> Result<Vle, feos::core::EosError> {
    match (bubble, t_spec) {
        (true, true) => Vle::bubble_point(model, t.unwrap(), x, p, y, o),
        (false, true) => Vle::dew_point(model, t.unwrap(), x, p, y, o),
        (true, false) => Vle::bubble_point(model, p.unwrap(), x, t, y, o),
        (false, false) => Vle::dew_point(model, p.unwrap(), x, t, y, o),
    }
}

fn incipient(v: &Vle, bubble: bool) -> Array1<f64> {
    if bubble {
        v.vapor().molefracs.clone()
    } else {
        v.liquid().molefracs.clone()
    }
}

fn check_bd(case: &BCase, obs: &mut Obs) {
    let spec = &case.spec;
    mix_classes(obs, spec);
    obs.class(format!("{} {}", if case.bubble { "bubble" } else { "dew" }, if case.pspec { "p-spec" } else { "T-spec" }));
    obs.class(if case.opt == BdOpt::DEFAULT { "options:default" } else { "options:non-default" });
    let Ok(model) = spec.build() else {
        obs.discard("build");
        return;
    };
    let Some(cr) = pure_crits(spec) else {
        obs.discard("no critical point");
        return;
    };
    let t = t_low(&cr, case.tr);
    let x = Array1::from_vec(case.x.clone());
    let o = case.opt.solver();
    let tol = TOL * case.opt.factor();
    // unguided T-specification (the only specification that has an unguided form)
    let unguided = bd(&model, case.bubble, Some(t), None, &x, None, o, true);
    let Ok(u) = unguided else {
        obs.class("unguided:Err");
        return;
    };
    let vu = vle_vals(&u);
    let y_sol = incipient(&u, case.bubble);
    let y_init = (!case.f_x.is_empty()).then(|| {
        let mut y: Array1<f64> = Array1::from_iter(y_sol.iter().zip(&case.f_x).map(|(a, f)| a * f));
        let s = y.sum();
        y.mapv_inplace(|v| v / s);
        y
    });
    obs.class(if y_init.is_some() { "with molefracs_init" } else { "without molefracs_init" });
    let far_x = y_init.as_ref().map_or(false, |y| y.iter().zip(y_sol.iter()).any(|(a, b)| (a - b).abs() > 0.1 * b));
    if !case.pspec {
        let p_init = Pressure::from_reduced(vu.p * case.f_tp);
        let guided = bd(&model, case.bubble, Some(t), Some(p_init), &x, y_init.as_ref(), o, true);
        match guided {
            Err(e) => obs.class(format!("guided:Err:{}", err_kind(&e))),
            Ok(gd) => {
                obs.class("guided:Ok");
                obs.ensure(gd.vapor().temperature == t && gd.liquid().temperature == t, || format!("guided result at T = {} instead of {}", gd.vapor().temperature, t));
                let done = cmp_mix(obs, "bubble-dew-guess (T)", "bubble/dew point with tp_init + molefracs_init vs without", &gd, &u, tol, false, true);
                if done && ((case.f_tp - 1.0).abs() > 0.1 || far_x) {
                    obs.nontrivial();
                }
            }
        }
    } else {
        // p-specification: an initial temperature is mandatory; two different guesses must agree
        // with each other and invert the T-specification
        let p = Pressure::from_reduced(vu.p);
        let shift = |f: f64| t * (1.0 + 0.1 * f.ln() / 3f64.ln()); // factor in [1/3, 3] -> +-10 % in T
        let a = bd(&model, case.bubble, Some(shift(case.f_tp)), Some(p), &x, y_init.as_ref(), o, false);
        let b = bd(&model, case.bubble, Some(shift(case.f_tp2)), Some(p), &x, None, o, false);
        obs.class(format!("p-spec guesses: {} / {}", if a.is_ok() { "Ok" } else { "Err" }, if b.is_ok() { "Ok" } else { "Err" }));
        for (name, r) in [("first guess", &a), ("second guess", &b)] {
            if let Ok(v) = r {
                cmp_mix(obs, "bubble-dew-guess (p)", &format!("bubble/dew point at p with t_init ({name}) vs the T-specified point"), v, &u, 10.0 * tol, false, false);
            }
        }
        if let (Ok(a), Ok(b)) = (&a, &b) {
            let done = cmp_mix(obs, "bubble-dew-guess (p, two guesses)", "bubble/dew point at p: two initial temperatures", a, b, tol, false, false);
            if done && ((case.f_tp / case.f_tp2).ln().abs() > 0.3 || far_x) {
                obs.nontrivial();
            }
        }
    }
}

// ---------------------------------------------------------------------------------------
// Part E: PhaseDiagram::pure vs stand-alone solves
// ---------------------------------------------------------------------------------------
#[derive(Serialize, Deserialize, Clone, Debug)]
pub struct DCase {
    pub spec: ModelSpec,
    pub npoints: usize,
    pub tmin_r: f64,
    pub opt: Opt,
}

/// records with many failing temperatures on the unchanged tree (C04 findings): failing neighbours
const FAILURE_PRONE: [(&str, &str); 6] = [
    ("aasen2019_fh2.json", "helium"),
    ("lafitte2013.json", "toluene"),
    ("esper2023.json", "p-nitroaniline"),
    ("esper2023.json", "2,3-dimethylbenzo[b]thiophene"),
    ("esper2023.json", "2-methyl-1-hexanol"),
    ("esper2023.json", "2-methylhexanoic acid"),
];

fn decode_dpure(g: &mut Gen) -> DCase {
    let prone = g.bool(0.25);
    let spec = if prone {
        let (f, n) = FAILURE_PRONE[g.index(FAILURE_PRONE.len())];
        pure_spec(DOMAIN_POOL.iter().find(|p| p.file == f && rec_name(&p.rec) == n).unwrap_or(&DOMAIN_POOL[0]))
    } else {
        pure_spec(&DOMAIN_POOL[pool_index(g)])
    };
    let npoints = if g.bool(0.5) { g.int(13, 120) as usize } else { g.int(3, 12) as usize };
    // also below the range of the success clause: low temperatures fail for some records
    let tmin_r = g.range(0.3, 0.9);
    let max_iter = if g.bool(0.4) { Some(g.int(3, 60) as usize) } else { None };
    let tol = if g.bool(0.3) { Some(g.log_range(1e-13, 1e-9)) } else { None };
    DCase { spec, npoints, tmin_r, opt: Opt { max_iter, tol } }
}

fn check_dpure(case: &DCase, obs: &mut Obs) {
    let spec = &case.spec;
    obs.class(spec.label());
    let n = case.npoints;
    obs.class(if n <= 12 { "npoints 3-12" } else { "npoints 13-120" });
    obs.class(if case.opt.is_default() { "options:default" } else { "options:non-default" });
    let Ok(model) = spec.build() else {
        obs.discard("build");
        return;
    };
    let Some(c) = critical(spec, &model) else {
        obs.discard("no critical point");
        return;
    };
    let tmin = case.tmin_r * c.t * KELVIN;
    let o = case.opt.solver();
    // (the genuine critical temperature as initial value where the default start is spurious, C04 finding)
    let Ok(dia) = PhaseDiagram::pure(&model, tmin, n, c.init.map(|t| t * KELVIN), o) else {
        obs.discard("PhaseDiagram::pure Err");
        return;
    };
    let tmax = tmin + (c.t * KELVIN - tmin) * ((n - 2) as f64 / (n - 1) as f64);
    let grid = Temperature::linspace(tmin, tmax, n - 1);
    let sub = &dia.states[..dia.states.len().saturating_sub(1)];
    let mut k = 0usize;
    let mut compared = 0;
    let mut prev_present = true;
    let f = (1e5 * case.opt.tol.unwrap_or(0.0) / TOL_PURE_P).max(1.0);
    for i in 0..n - 1 {
        let ti = grid.get(i);
        let present = k < sub.len() && rel(sub[k].vapor().temperature.to_reduced(), ti.to_reduced()) < 1e-12;
        let alone = Vle::pure(&model, ti, None, o);
        match (present, &alone) {
            (true, Ok(a)) => {
                let d = &sub[k];
                let (vd, va) = (vle_vals(d), vle_vals(a));
                if !collapsed_pair(obs, &format!("diagram point {i}"), &vd, &va) {
                    // beyond 0.99 T_c the densities react to the pressure criterion with
                    // 1/(dp/drho) -> infinity: ten times the tolerance (as in C04)
                    let f = if ti.to_reduced() > 0.99 * c.t { 10.0 * f } else { f };
                    same_vle(obs, if ti.to_reduced() > 0.99 * c.t { "diagram-pure (T > 0.99 Tc)" } else { "diagram-pure" }, &format!("PhaseDiagram::pure point {i} of {n} vs stand-alone pure(T)"), d, a, TOL * f, TOL_PURE_P * f, false);
                    compared += 1;
                    if i >= 1 {
                        obs.nontrivial();
                    }
                    if !prev_present {
                        obs.class("point after a failing neighbour compared");
                    }
                }
            }
            (false, Ok(a)) => {
                // the continuation falls back to exactly the stand-alone cascade: a point that the
                // stand-alone solve finds may not get lost because of its neighbours
                if !collapsed(&vle_vals(a)) {
                    obs.fail(format!(
                        "PhaseDiagram::pure lost point {i} of {n} (T = {ti}): the stand-alone solve at that temperature succeeds (previous point {})",
                        if prev_present { "present" } else { "failed" }
                    ));
                }
            }
            (true, Err(_)) => obs.class("guided point found where the stand-alone solve fails"),
            (false, Err(_)) => obs.class("point fails in both"),
        }
        if present {
            k += 1;
        }
        prev_present = present;
    }
    obs.ensure(k == sub.len(), || format!("diagram contains {} sub-critical states that are not grid temperatures", sub.len() - k));
    if compared == 0 {
        obs.class("nothing to compare");
    }
}

// ---------------------------------------------------------------------------------------
// Part F: PhaseDiagram::binary_vle vs stand-alone, and mirrored component order
// ---------------------------------------------------------------------------------------
#[derive(Serialize, Deserialize, Clone, Debug)]
pub struct VCase {
    pub spec: ModelSpec,
    pub tr: f64,
    pub pspec: bool,
    pub npoints: usize,
    pub opt: BdOpt,
}

fn decode_binary(g: &mut Gen) -> VCase {
    let spec = gen_hc_mixture(g, 2);
    // up to 1.25 x the lower T_c: one component may be super-critical
    let tr = g.range(0.6, 1.25);
    let pspec = g.bool(0.3);
    let npoints = if g.bool(0.5) { g.int(13, 40) as usize } else { g.int(3, 12) as usize };
    VCase { spec, tr, pspec, npoints, opt: gen_bdopt(g, true) }
}

fn binary_diagram(model: &Arc<Model>, t: Temperature, p: Option<Pressure>, n: usize, o: (SolverOptions, SolverOptions)) -> Result<PhaseDiagram<Model, 2>, feos::core::EosError> {
    match p {
        None => PhaseDiagram::binary_vle(model, t, Some(n), None, o),
        Some(p) => PhaseDiagram::binary_vle(model, p, Some(n), None, o),
    }
}

fn check_binary(case: &VCase, obs: &mut Obs) {
    let spec = &case.spec;
    mix_classes(obs, spec);
    obs.class(if case.pspec { "p-specification" } else { "T-specification" });
    obs.class(if case.opt == BdOpt::DEFAULT { "options:default" } else { "options:non-default" });
    let n = case.npoints;
    obs.class(if n <= 12 { "npoints 3-12" } else { "npoints 13-40" });
    let Ok(model) = spec.build() else {
        obs.discard("build");
        return;
    };
    let Some(cr) = pure_crits(spec) else {
        obs.discard("no critical point");
        return;
    };
    let t = t_low(&cr, case.tr);
    let o = case.opt.solver();
    let tol = TOL * case.opt.factor();
    // p-specification: a pressure between the two vapor pressures at T (needs both sub-critical)
    let p = if case.pspec {
        let sat = Vle::vapor_pressure(&model, t);
        match (sat[0], sat[1]) {
            (Some(a), Some(b)) => Some(Pressure::from_reduced(0.5 * (a.to_reduced() + b.to_reduced()))),
            _ => {
                obs.discard("p-specification needs both vapor pressures");
                return;
            }
        }
    } else {
        None
    };
    // which end points exist is decided by the library's own pure-component solves
    let both_sub = match p {
        None => Vle::vle_pure_comps(&model, t).iter().all(|v| v.is_some()),
        Some(p) => Vle::vle_pure_comps(&model, p).iter().all(|v| v.is_some()),
    };
    obs.class(if both_sub { "both pure end points exist" } else { "a component is super-critical: diagram ends in the critical point" });
    let dia = match binary_diagram(&model, t, p, n, o) {
        Ok(d) => d,
        Err(e) => {
            obs.class(format!("binary_vle:Err:{}", err_kind(&e)));
            return;
        }
    };
    let states = &dia.states;
    if states.len() < 3 {
        obs.class("fewer than 3 states");
        return;
    }
    // with a p-specification and a super-critical component the vapor composition is specified
    let t_of = |v: &Vle| v.vapor().temperature;
    let dew = p.is_some() && (Vle::boiling_temperature(&model, p.unwrap()).iter().any(|b| b.is_none()));
    let mut compared = 0;
    let mut gaps = 0;
    // grid spacing of the specified composition, to recognise failed neighbours
    let xs: Vec<f64> = states.iter().map(|s| if dew { s.vapor().molefracs[0] } else { s.liquid().molefracs[0] }).collect();
    let dx_min = xs.windows(2).map(|w| (w[1] - w[0]).abs()).filter(|d| *d > 1e-12).fold(f64::MAX, f64::min);
    for k in 1..states.len() - 1 {
        let s = &states[k];
        let xk = if dew { s.vapor().molefracs.clone() } else { s.liquid().molefracs.clone() };
        if xk.iter().any(|&v| v <= 0.0 || v >= 1.0) {
            continue;
        }
        let after_gap = (xs[k] - xs[k - 1]).abs() > 1.5 * dx_min;
        if after_gap {
            gaps += 1;
        }
        let alone = match p {
            None => bd(&model, !dew, Some(t), None, &xk, None, o, true),
            // p-specification: an initial temperature is mandatory; 2 % off the diagram's value
            Some(p) => bd(&model, !dew, Some(t_of(s) * if k % 2 == 0 { 1.02 } else { 0.98 }), Some(p), &xk, None, o, false),
        };
        match alone {
            Ok(a) => {
                if cmp_mix(obs, "diagram-binary", &format!("binary_vle state {k} of {} vs stand-alone point", states.len()), s, &a, tol, false, both_sub && p.is_none()) {
                    compared += 1;
                    if after_gap {
                        obs.class("point after a failing neighbour compared");
                    }
                }
            }
            Err(_) => obs.class("stand-alone point fails where the diagram has a state"),
        }
    }
    if gaps > 0 {
        obs.class("diagram with failed points");
    }
    obs.class(if states.len() == n { "all points present" } else { "points missing" });
    // mirrored component order: reversed traversal
    let perm = spec.permuted(&[1, 0]);
    if let Ok(m2) = perm.build() {
        match binary_diagram(&m2, t, p, n, o) {
            Ok(d2) => {
                let s2 = &d2.states;
                obs.class(if s2.len() == states.len() { "mirror: same number of states" } else { "mirror: different number of states" });
                // match by the specified composition (a failed point may be missing on one side only)
                let mut matched = 0;
                for a in states.iter() {
                    let xa = if dew { a.vapor().molefracs[0] } else { a.liquid().molefracs[0] };
                    if let Some(b) = s2.iter().find(|b| ((if dew { b.vapor().molefracs[1] } else { b.liquid().molefracs[1] }) - xa).abs() < 1e-9) {
                        if cmp_mix(obs, "diagram-binary mirror", "binary_vle vs the diagram of the component-swapped model", a, b, tol, true, both_sub && p.is_none()) {
                            matched += 1;
                        }
                    }
                }
                if matched >= 3 {
                    obs.class("mirror compared");
                }
                // traversal direction: the first state of one is the last state of the other
                if s2.len() == states.len() && !dew && both_sub {
                    let (f1, l2) = (states[0].liquid().molefracs[0], s2[s2.len() - 1].liquid().molefracs[1]);
                    obs.close("mirror: first state of one diagram is the last state of the other", f1, l2, 0.0, 1e-9);
                }
            }
            Err(_) => obs.class("mirror diagram Err"),
        }
    }
    if compared >= 1 {
        obs.nontrivial();
    }
}

// ---------------------------------------------------------------------------------------
// Part G: bubble_point_line / dew_point_line
// ---------------------------------------------------------------------------------------
#[derive(Serialize, Deserialize, Clone, Debug)]
pub struct LCase {
    pub spec: ModelSpec,
    pub x: Vec<f64>,
    pub bubble: bool,
    pub npoints: usize,
    /// min_temperature / critical temperature of the mixture
    pub tmin_r: f64,
    pub opt: BdOpt,
}

fn decode_line(g: &mut Gen) -> LCase {
    let spec = gen_hc_mixture(g, 2);
    let x = g.simplex(2, 0.05);
    let bubble = !g.bool(0.5);
    let npoints = g.int(6, 24) as usize;
    let tmin_r = g.range(0.5, 0.9);
    LCase { spec, x, bubble, npoints, tmin_r, opt: gen_bdopt(g, true) }
}

fn check_line(case: &LCase, obs: &mut Obs) {
    let spec = &case.spec;
    mix_classes(obs, spec);
    obs.class(if case.bubble { "bubble_point_line" } else { "dew_point_line" });
    obs.class(if case.opt == BdOpt::DEFAULT { "options:default" } else { "options:non-default" });
    let Ok(model) = spec.build() else {
        obs.discard("build");
        return;
    };
    let x = Array1::from_vec(case.x.clone());
    let moles = Moles::from_reduced(x.clone());
    let Ok(cp) = State::critical_point(&model, Some(&moles), None, SolverOptions::default()) else {
        obs.discard("no mixture critical point");
        return;
    };
    let tc = cp.temperature;
    let tmin = case.tmin_r * tc;
    let o = case.opt.solver();
    let tol = TOL * case.opt.factor();
    let n = case.npoints;
    let dia = std::panic::catch_unwind(std::panic::AssertUnwindSafe(|| {
        if case.bubble {
            PhaseDiagram::bubble_point_line(&model, &moles, tmin, n, None, o)
        } else {
            PhaseDiagram::dew_point_line(&model, &moles, tmin, n, None, o)
        }
    }));
    let dia = match dia {
        Ok(d) => d,
        Err(e) => {
            let m = e.downcast_ref::<String>().cloned().or_else(|| e.downcast_ref::<&str>().map(|s| s.to_string())).unwrap_or_default();
            // Known finding C12/dew-line-panics-after-failed-point. Signature: dew_point_line
            // panics with the message of the missing initial temperature.
            if !case.bubble && m.contains("An initial temperature is required") {
                obs.class("dew_point_line panics after a failed pressure point");
                obs.known_or_fail("C12/dew-line-panics-after-failed-point", format!("PhaseDiagram::dew_point_line(npoints = {n}) panics: {m}"));
            } else {
                obs.fail(format!("PANIC in a phase-diagram line: {m}"));
            }
            return;
        }
    };
    let Ok(dia) = dia else {
        obs.discard("line Err");
        return;
    };
    // temperature grid of the T-specified part
    let n_t = if case.bubble { n } else { n / 2 };
    let tmax = tmin + (tc - tmin) * ((n_t - 2) as f64 / (n_t - 1) as f64);
    let grid = Temperature::linspace(tmin, tmax, n_t - 1);
    let states = &dia.states;
    let mut k = 0usize;
    let mut compared = 0;
    let mut prev_present = true;
    let mut missing = 0;
    for i in 0..n_t - 1 {
        let ti = grid.get(i);
        let present = k + 1 < states.len() && rel(states[k].vapor().temperature.to_reduced(), ti.to_reduced()) < 1e-12;
        if present && ti.to_reduced() > 0.95 * tc.to_reduced() {
            // above 0.95 of the mixture critical temperature the solves are ill-conditioned and
            // return spurious solutions on both paths (outside C05's domain): counted only
            obs.class("line point above 0.95 Tc,mix not compared");
            k += 1;
        } else if present {
            let alone = bd(&model, case.bubble, Some(ti), None, &x, None, o, true);
            match alone {
                Ok(a) => {
                    // (a fixed composition below its critical temperature has one bubble and one
                    // dew pressure: unique per call, but see `cmp_mix` for the exchange)
                    if cmp_mix(obs, "lines", &format!("line point {i} of {n} vs stand-alone point"), &states[k], &a, tol, false, true) {
                        compared += 1;
                        if !prev_present {
                            obs.class("point after a failing neighbour compared");
                        }
                        if i >= 1 {
                            obs.nontrivial();
                        }
                    }
                }
                Err(_) => obs.class("stand-alone point fails where the line has a state"),
            }
            k += 1;
        } else {
            missing += 1;
        }
        prev_present = present;
    }
    obs.class(if missing == 0 { "T-part complete" } else { "T-part with failed points" });
    // every state of the temperature-specified part sits at a grid temperature (a stale previous
    // result pushed again after a failure would not); the bubble line has no other states
    if case.bubble {
        obs.ensure(k + 1 == states.len(), || format!("bubble_point_line: {} state(s) are not at the grid temperatures (or out of order)", states.len() - 1 - k));
    } else {
        // pressure-specified part: strictly increasing pressures, no state repeated
        for j in (k + 1)..states.len().saturating_sub(1) {
            let (pa, pb) = (vle_vals(&states[j - 1]).p, vle_vals(&states[j]).p);
            obs.ensure(j == k + 1 || pb > pa, || format!("dew_point_line: pressure-specified states {} and {j} not at increasing pressures: {pa:e}, {pb:e}", j - 1));
        }
    }
    // pressure-specified part of the dew line: compare with a stand-alone solve started 2 % off
    if !case.bubble {
        for j in k..states.len().saturating_sub(1) {
            let s = &states[j];
            let p = s.vapor().pressure(Contributions::Total);
            let alone = bd(&model, false, Some(s.vapor().temperature * if j % 2 == 0 { 1.02 } else { 0.98 }), Some(p), &x, None, o, false);
            if let Ok(a) = alone {
                // near the cricondentherm a vapor composition has two dew temperatures at one
                // pressure (retrograde condensation): only the same branch is comparable
                if cmp_mix(obs, "lines (p-part)", &format!("dew line pressure point {j} vs stand-alone point"), s, &a, 10.0 * tol, false, false) {
                    compared += 1;
                    obs.class("p-part compared");
                }
            }
        }
    }
    if compared == 0 {
        obs.class("nothing to compare");
    }
}

// ---------------------------------------------------------------------------------------
const PURE: PartCfg = PartCfg { name: "pure-guess", genome_len: 20, cases_quick: 8000, cases_thorough: 600_000, panic: PanicPolicy::Count };
const TWO: PartCfg = PartCfg { name: "state-two-roots", genome_len: 12, cases_quick: 6000, cases_thorough: 600_000, panic: PanicPolicy::Count };
const STATE: PartCfg = PartCfg { name: "state-guess", genome_len: 32, cases_quick: 2500, cases_thorough: 250_000, panic: PanicPolicy::Count };
const FLASH: PartCfg = PartCfg { name: "flash-guess", genome_len: 40, cases_quick: 2000, cases_thorough: 150_000, panic: PanicPolicy::Count };
const BD: PartCfg = PartCfg { name: "bubble-dew-guess", genome_len: 40, cases_quick: 2500, cases_thorough: 250_000, panic: PanicPolicy::Count };
const DPURE: PartCfg = PartCfg { name: "diagram-pure", genome_len: 16, cases_quick: 400, cases_thorough: 30_000, panic: PanicPolicy::Count };
const DBIN: PartCfg = PartCfg { name: "diagram-binary", genome_len: 32, cases_quick: 256, cases_thorough: 12_800, panic: PanicPolicy::Count };
const LINES: PartCfg = PartCfg { name: "lines", genome_len: 32, cases_quick: 192, cases_thorough: 9_600, panic: PanicPolicy::Count };

pub fn run(ctx: &Ctx) {
    ctx.set_rule("All parts compare a guided call with the unguided / stand-alone call on the same input. pure-guess: C04 record pool x T/Tc in the success range x guess = converged equilibrium at T' with |T'-T| <= 0.3 Tc (70 %), the unconverged pair PhaseEquilibrium::new_npt(T, f p_sat) at the target temperature itself with f in [1/3,3] and both phases within a factor 3 of the solution (25 %), or the converged equilibrium at T (5 %) x options x T- or p-specification. state-guess: 1-2 hydrocarbon PC-SAFT components x T/Tc_max in [0.5,2] x target density (log-uniform 1e-4..0.1 and uniform 0.1..0.85 of rho_max) whose pressure has exactly one root on the isotherm (600-point scan) x guess factor in [1/3,3]: new_npt with InitialDensity/Vapor/Liquid vs None; pure components above p_c additionally new_nph/new_nps/new_nvu with initial_temperature and new_nts with InitialDensity. state-two-roots: pure records of parameters/pcsaft/gross2001, gross2002, gross2005_fit, gross2005_literature, gross2006 (133 records) x target = the root returned by new_npt(None): liquid targets at T/Tc in [0.5,0.94] (half in [0.86,0.94]), p = 1.02 p_sat + u (min(p_spinodal_vapour, 3 p_sat) - 1.02 p_sat), rho0/rho_liquid uniform in [0.6,1.3]; vapour targets at T/Tc in [0.5,0.945], p in [0.5,0.98] p_sat, rho0/rho_vapour log-uniform in [0.3,3], half of them in the corner T/Tc in [0.9,0.945], p >= 0.88 p_sat, rho0/rho_vapour in [2.4,3] from which the unstable region is reached; non-trivial there: rho0 mechanically unstable or more than 10 % off. flash-guess: 2-3 hydrocarbons (SMILES only C,H; non-polar, non-associating; Tc ratio < 1.8; k_ij in +-0.05) x T/Tc_low in [0.6,0.95] x p inside an envelope wider than 5 % x initial state = flash at (T(1+-3 %), p(1+-15 %)). bubble-dew-guess: tp_init = solution x [1/3,3], molefracs_init = solution x [1/3,3] renormalised; p-specification: two initial temperatures within +-10 %. diagram-pure: npoints 3-120, T_min/Tc in [0.3,0.9], max_iter 3-60; 25 % of the cases on records with known failing temperatures. diagram-binary: T/Tc_low in [0.6,1.25], npoints 3-40, options incl. outer max_iter 4-40, and the component-swapped model. lines: npoints 6-24, T_min/Tc_mix in [0.5,0.9]. Non-trivial: guess differs from the solution by > 10 %, or a diagram point with index >= 1 was compared. Distinct by hash of the canonical case.");
    ctx.assume("tolerances: 2e-7 relative on T, p and 2e-7 absolute on mole fractions for Newton-converged results (bubble/dew points, density and temperature iterations; >= 100 x their tolerances 1e-9..1e-10; measured worst 7.6e-9 in 1.3e6 cases); densities from new_nts 5e-7 and from new_nph/new_nps/new_nvu 2e-6 (Newton on T with atol 1e-8 K; measured 9e-9 resp. 6e-9); a phase density follows the pressure with kappa = p/(rho dp/drho), its tolerance is tol_p x max(1, kappa); saturation pressures of pure equilibria 1e-6 (pure_t/pure_p stop on the pressure/temperature update while the densities are one Newton step behind: C04 measured residuals up to 1e-8 with the default tolerance), x10 above 0.99 Tc, x max(1, 1e5 x tol option / 1e-6) for looser solver tolerances; tp_flash densities/compositions 1e-5 x max(1, tol/1e-8) (the flash stops on |d ln K| < 1e-8 with linearly converging successive substitution; phase fraction divided by max|y-x|); bubble/dew tolerances scale with max(1, 100 x outer tolerance option / 2e-7)");
    ctx.assume("mixtures: non-associating non-polar PC-SAFT records whose SMILES contains only C and H, T_c ratio < 1.8, |k_ij| <= 0.05, T = max(tr x lowest T_c, 0.5 x highest T_c) (below ~0.45 T_c the pure PC-SAFT models have spurious dense phases, i.e. liquid-liquid demixing of the model); line points above 0.95 T_c,mix are not compared (ill-conditioned, outside C05's domain); results with opposite density order (bubble/dew exchange) or on different branches of a closed / retrograde envelope are different equilibria of the same equations and are counted as inconclusive");
    ctx.assume("single-root situations for the state constructors are established by the harness (sign changes of p(rho) - p on a 600-point scan of the isotherm, and no approach of the loop to the target pressure closer than 5 % behind the first unstable point; p >= 1e-4 in reduced units because density_iteration resolves p to 1e-12 absolutely); new_nph/new_nps/new_nvu only for pure components at p > 1.05 p_c (h, s monotone in T, one density root for every T)");
    ctx.assume("state-two-roots: calibration of the domain: full grid 133 records x T/Tc 0.50..0.94 (step 0.02) x 6 pressures x 15 initial densities x 2 targets (550 620 cases): no deviation for liquid targets up to 0.94 and for vapour targets up to 0.92; dense scan of the vapour corner (133 records x T/Tc 0.89..0.94 step 0.0025 x p/p_sat 0.88..0.98 x rho0/rho_vapour 2.4..3.0, 36 575 cases per temperature): first deviations of the unchanged tree at T/Tc = 0.9325 (p >= 0.98 p_sat, rho0 = 3 rho_vapour: argon, methane, water), 26 at 0.935, 301 at 0.94 (the metastable liquid root is returned); the vapour domain extends to 0.945, and above 0.925 a returned metastable liquid root for rho0 >= 2.6 rho_vapour at p >= 0.93 p_sat is the open finding C12/initial-density-near-critical-returns-metastable-liquid (anything else there is a violation); tolerance 2e-7 x max(1, p/(rho dp/drho)); an Ok result that misses the specified pressure by > 1e-9 is the finding C12/density-iteration-unconverged-ok; Err results are counted");
    ctx.assume("PhaseDiagram::pure falls back to exactly the stand-alone cascade when the guided attempt fails (vle_pure.rs:39-61), so a grid temperature at which the stand-alone solve succeeds must be present; for bubble/dew lines and binary diagrams only 'both present => equal' is asserted (a guided failure has no fallback there)");
    ctx.assume("results that are collapsed pairs (finding C04/pure-collapsed-solution) are attributed to that finding");
    ctx.extra("hydrocarbon_records", json!(HC_POOL.len()));
    ctx.run_sampled(&PURE, &decode_pure, &check_pure);
    ctx.run_sampled(&STATE, &decode_state, &check_state);
    ctx.run_sampled(&TWO, &decode_two, &check_two);
    ctx.run_sampled(&FLASH, &decode_flash, &check_flash);
    ctx.run_sampled(&BD, &decode_bd, &check_bd);
    ctx.run_sampled(&DPURE, &decode_dpure, &check_dpure);
    ctx.run_sampled(&DBIN, &decode_binary, &check_binary);
    ctx.run_sampled(&LINES, &decode_line, &check_line);
    let w: std::collections::BTreeMap<String, f64> = WORST.lock().unwrap().clone();
    ctx.extra("worst_ratio_to_tolerance", json!(w));
}

pub fn replay(ctx: &Ctx, part: &str, case: &Value) -> bool {
    match part {
        "pure-guess" => ctx.replay_case::<PCase>(case, &check_pure),
        "state-guess" => ctx.replay_case::<GCase>(case, &check_state),
        "state-two-roots" => ctx.replay_case::<TCase>(case, &check_two),
        "flash-guess" => ctx.replay_case::<FCase>(case, &check_flash),
        "bubble-dew-guess" => ctx.replay_case::<BCase>(case, &check_bd),
        "diagram-pure" => ctx.replay_case::<DCase>(case, &check_dpure),
        "diagram-binary" => ctx.replay_case::<VCase>(case, &check_binary),
        "lines" => ctx.replay_case::<LCase>(case, &check_line),
        _ => {
            eprintln!("unknown part {part}");
            false
        }
    }
}

#[allow(dead_code)]
fn _unused(_: &dyn Fn() -> Array1<f64>) {
    let _ = arr1(&[0.0]);
}
