//! C12 — not implemented yet (stub).
use crate::engine::Ctx;
use serde_json::Value;

pub fn run(_ctx: &Ctx) {
    panic!("C12: check not implemented yet");
}

pub fn replay(_ctx: &Ctx, _part: &str, _case: &Value) -> bool {
    panic!("C12: check not implemented yet");
}
