//! C07 — stability verdicts are sound and separate one-phase from two-phase feeds.
//!
//! Parts
//! * `lattice` (seed independent): hydrocarbon pairs of gross2001 (C05 success domain) x T x x:
//!   feeds at the 2 % margins and the middle of the envelope, feeds 2 % outside, flash phases.
//! * `mix` (sampled): mixtures / T / x of C05; feeds inside (2 % margin), below the dew and above
//!   the bubble pressure (margin 2-50 %), phases of converged flash / bubble / dew results;
//!   stability options (max_iter 50-400, tol 1e-8..1e-5); feed root (stable / liquid / vapor).
//! * `pure` (sampled): pure records, 40-point density grid from 0.2 rho_v to 1.1 rho_l.
use super::c05::{
    build_point, envelope, err_name, fresh, gen_mixpoint, gen_opt, ln_fugacity, p_of, pool_of, pressure_red, rec_name,
    build_nearcrit, nearcrit_items, track, vle_like, worst_json, zero_pressure_result, Built, MixKind, MixPoint, NearCritCase, Pe2, SolverOpt, St, G2001_HC, LATTICE_T, LATTICE_X,
};
use crate::engine::{Ctx, Gen, Obs, PanicPolicy, PartCfg};
use crate::model::*;
use feos::core::{Components, Contributions, DensityInitialization, EosError, PhaseEquilibrium, ReferenceSystem, SolverOptions, State};
use ndarray::{arr1, Array1};
use std::sync::Arc;
use quantity::*;
use serde::{Deserialize, Serialize};
use serde_json::{json, Value};

pub const KF_LOW_P: &str = "C07/tpd-threshold-below-noise";
/// Signature of KF_LOW_P: the recomputed |tpd| is below the noise of the value the analysis
/// compares with ZERO_TPD = -1e-8:
/// * |tpd| < 1e-7: the reported tpd is evaluated with ln phi of the previous iterate (second-order
///   error in the last step, tolerance 1e-6..1e-3) - observed differences to the recomputed value ~1e-8;
/// * |tpd| <= 1e-10 / p for reduced p < 1e-3: ln phi = mu_res/RT - ln Z inherits the relative
///   pressure error of each state (absolute tolerance 1e-12 of the density iteration x 100).
pub const LOW_P: f64 = 1e-3;
pub const TPD_NOISE: f64 = 1e-7;
pub fn low_p_noise(p: f64, d: f64) -> bool {
    d.abs() < TPD_NOISE || (p > 0.0 && p < LOW_P && d.abs() <= 1e-10 / p)
}

/// pressure of a trial state vs the feed: density iteration (abstol 1e-12 reduced) x 100
pub const TOL_P_REL: f64 = 1e-7;
pub const TOL_P_ABS: f64 = 1e-10;
/// an "unstable" verdict for a state that should be stable is attributed to another genuine phase
/// split only if the recomputed tangent-plane distance is clearly negative: the flash / bubble /
/// dew tolerances (1e-8 .. 1e-10 on ln K) bound |tpd| of a coexisting phase by ~1e-8
pub const TPD_GENUINE: f64 = -1e-6;

/// tangent-plane distance of `trial` to `feed` from fresh states, as the property states it:
/// sum_i w_i (ln w_i + ln phi_i(trial) - ln z_i - ln phi_i(feed)) from `ln_phi` and `molefracs`.
/// Second value: the same with fugacities f_i = x_i phi_i p (each state's own pressure), which
/// removes the pressure mismatch ln(p_trial/p_feed) between the two states (diagnostic; also the
/// only defined form for p <= 0).
pub fn tpd(feed: &St, trial: &St) -> Option<(f64, f64)> {
    let ff = fresh(feed)?;
    let ft = fresh(trial)?;
    let w = &trial.molefracs;
    let z = &feed.molefracs;
    let lf = ln_fugacity(&ff);
    let lt = ln_fugacity(&ft);
    let mut s_f = 0.0;
    for i in 0..w.len() {
        if w[i] > 0.0 {
            s_f += w[i] * (lt[i] - lf[i]);
        }
    }
    let (pf, pt) = (pressure_red(&ff), pressure_red(&ft));
    let s_lit = if pf > 0.0 && pt > 0.0 {
        let (pz, pw) = (ff.ln_phi(), ft.ln_phi());
        let mut s = 0.0;
        for i in 0..w.len() {
            if w[i] > 0.0 {
                s += w[i] * (w[i].ln() + pw[i] - z[i].ln() - pz[i]);
            }
        }
        s
    } else {
        s_f
    };
    Some((s_lit, s_f))
}

/// soundness of every returned trial state; returns the recomputed tpd values
pub fn check_trials(obs: &mut Obs, tag: &str, feed: &St, trials: &[St]) -> Vec<f64> {
    let pf = pressure_red(feed);
    let mut out = vec![];
    for (k, tr) in trials.iter().enumerate() {
        obs.ensure(tr.temperature == feed.temperature, || {
            format!("{tag}: trial {k} temperature {} is not the feed's {}", tr.temperature, feed.temperature)
        });
        let pt = fresh(tr).map(|s| pressure_red(&s)).unwrap_or(f64::NAN);
        track(&format!("{tag}: |p_trial - p_feed| / (1e-7 p + 1e-10)"), (pt - pf).abs() / (TOL_P_REL * pf.abs() + TOL_P_ABS));
        // open finding C07/trial-state-off-pressure-at-vanishing-feed-pressure: a dense trial state whose density
        // iteration at a vanishing feed pressure ended without meeting its pressure test (signature below)
        if pf.abs() < 1e-4 && tr.density.to_reduced() > 10.0 * feed.density.to_reduced() && !((pt - pf).abs() <= TOL_P_ABS + TOL_P_REL * pt.abs().max(pf.abs())) {
            obs.count();
            obs.class("signature:C07/trial-state-off-pressure-at-vanishing-feed-pressure");
            obs.known_or_fail(
                "C07/trial-state-off-pressure-at-vanishing-feed-pressure",
                format!("{tag}: trial {k} pressure {pt:e} is not the feed's {pf:e} (dense trial state at a vanishing feed pressure)"),
            );
        } else {
            obs.close(&format!("{tag}: trial {k} pressure equals the feed's"), pt, pf, TOL_P_REL, TOL_P_ABS);
        }
        match tpd(feed, tr) {
            Some((d, d_f)) => {
                if std::env::var("C05_DEBUG").is_ok() {
                    println!(
                        "[{tag}] trial {k}: tpd(ln phi) = {d:e}, tpd(fugacity) = {d_f:e}, p_trial = {pt:e}, p_feed = {pf:e}, rho_trial = {:e}, w = {:?}; feed rho = {:e} z = {:?}",
                        tr.density.to_reduced(),
                        tr.molefracs.to_vec(),
                        feed.density.to_reduced(),
                        feed.molefracs.to_vec()
                    );
                }
                obs.count();
                if !(d.is_finite() && d < 0.0) {
                    let msg = format!(
                        "{tag}: trial {k} (x = {:?}, rho = {:e}) has tangent-plane distance {d:e} (not finite and negative) to the feed (fugacity form {d_f:e}; T = {}, p = {pf:e}, z = {:?})",
                        tr.molefracs.to_vec(),
                        tr.density.to_reduced(),
                        feed.temperature,
                        feed.molefracs.to_vec()
                    );
                    if low_p_noise(pf, d) {
                        obs.class("known signature: returned trial state with 0 <= tpd below the noise of the analysis");
                        obs.known_or_fail(KF_LOW_P, msg);
                    } else {
                        obs.fail(msg);
                    }
                }
                if (d < 0.0) != (d_f < 0.0) {
                    obs.class("sign of tpd depends on the pressure mismatch of trial and feed");
                }
                if (-1.0..=-1e-6).contains(&d) {
                    obs.class("tpd in [-1,-1e-6]");
                    obs.nontrivial();
                } else if d < -1.0 {
                    obs.class("tpd < -1");
                } else {
                    obs.class("tpd in (-1e-6, ...)");
                }
                out.push(d);
            }
            None => {
                obs.fail(format!("{tag}: trial {k} cannot be rebuilt at its (T,V,N)"));
            }
        }
    }
    out
}

fn sa_class(obs: &mut Obs, tag: &str, r: &Result<Vec<St>, EosError>) {
    match r {
        Ok(v) => obs.class(format!("{tag}: {} trial state(s)", v.len())),
        Err(e) => obs.class(format!("{tag}: Err {}", err_name(e))),
    }
}

fn sa_err(obs: &mut Obs, tag: &str, e: &EosError, opts: &SolverOpt, strict_domain: bool) {
    if opts.is_default() && strict_domain {
        obs.fail(format!("{tag}: stability analysis failed with default options: {}", err_name(e)));
    } else {
        obs.inconclusive(format!("{tag}: stability analysis Err {}", err_name(e)));
    }
}

/// trial state coincides with the partner phase of the equilibrium the analysed phase belongs to
fn is_partner(trial: &St, partner: &St) -> bool {
    let dx = (&trial.molefracs - &partner.molefracs).mapv(f64::abs).fold(0.0, |m: f64, v| m.max(*v));
    let drho = (trial.density.to_reduced() / partner.density.to_reduced() - 1.0).abs();
    dx < 1e-3 && drho < 1e-3
}

/// A state that must be reported stable. `partner`: the other phase of the converged result the
/// state belongs to (None for feeds outside the envelope).
///
/// Every returned trial state must be sound (recomputed tpd < 0). A sound trial state proves the
/// verdict "unstable" right, so the expectation "stable" can then only fail in two ways:
/// * the trial state is the equilibrium partner itself: the converged result is not recognised
///   as an equilibrium (the clause of the property) -> violation (known finding at vanishing p);
/// * it is another state: the model has a further phase split there (a class, not a violation;
///   on the strict domain - lattice, pure fluids - it is reported).
pub fn expect_stable(obs: &mut Obs, tag: &str, s: &St, opts: &SolverOpt, strict_domain: bool, partner: Option<&St>) {
    let r = s.stability_analysis(opts.to());
    sa_class(obs, tag, &r);
    match r {
        Err(e) => sa_err(obs, tag, &e, opts, strict_domain),
        Ok(trials) => {
            obs.count();
            if trials.is_empty() {
                return;
            }
            let d = check_trials(obs, tag, s, &trials);
            let p = pressure_red(s);
            let msg = format!(
                "{tag}: reported unstable ({} trial state(s), recomputed tpd {:?}) at T = {}, p = {:e}, x = {:?}",
                trials.len(),
                d,
                s.temperature,
                p,
                s.molefracs.to_vec()
            );
            // a trial state that is not at the pressure of the analysed state (open finding, signature in
            // check_trials) makes the verdict of this analysis meaningless: it is attributed to the same finding
            let off_p = format!("{tag}: trial ");
            if obs.known.iter().any(|(id, m)| id == "C07/trial-state-off-pressure-at-vanishing-feed-pressure" && m.starts_with(&off_p)) {
                obs.class("verdict not judged: a trial state of this analysis is off the feed pressure (open finding)");
                return;
            }
            if d.len() != trials.len() {
                return; // a trial state could not be rebuilt: already reported
            }
            // trial states whose |tpd| is above the noise of the analysis
            let real: Vec<usize> = (0..d.len()).filter(|&k| !low_p_noise(p, d[k])).collect();
            if real.is_empty() {
                // signature: every returned trial state has |tpd| below the noise of the analysis
                obs.class("known signature: stable state reported unstable with |tpd| below the noise of the analysis");
                obs.known_or_fail(KF_LOW_P, msg);
            } else if partner.map(|q| real.iter().any(|&k| is_partner(&trials[k], q))).unwrap_or(false) {
                obs.fail(format!("{msg} - a trial state is the coexisting phase of the converged result"));
            } else if strict_domain {
                obs.fail(msg);
            } else if real.iter().all(|&k| d[k] < 0.0) {
                obs.class(format!("{tag}: unstable with sound trial states other than the partner phase: another phase split of the model"));
                if real.iter().all(|&k| d[k] > TPD_GENUINE) {
                    obs.class("another phase split with |tpd| < 1e-6");
                }
            }
            // (unsound trial states have already been reported by check_trials)
        }
    }
}

/// a feed strictly inside the two-phase region: reported unstable with sound trial states
pub fn expect_unstable(obs: &mut Obs, tag: &str, s: &St, opts: &SolverOpt, strict_domain: bool) -> bool {
    let r = s.stability_analysis(opts.to());
    sa_class(obs, tag, &r);
    match r {
        Err(e) => {
            sa_err(obs, tag, &e, opts, strict_domain);
            false
        }
        Ok(trials) => {
            check_trials(obs, tag, s, &trials);
            obs.ensure(!trials.is_empty(), || {
                format!(
                    "{tag}: feed strictly inside the two-phase region reported stable (T = {}, p = {:e}, x = {:?}, rho = {:e})",
                    s.temperature,
                    pressure_red(s),
                    s.molefracs.to_vec(),
                    s.density.to_reduced()
                )
            });
            // is_stable is the same verdict through the second public entry point
            if let Ok(v) = s.is_stable(opts.to()) {
                obs.ensure(v == trials.is_empty(), || format!("{tag}: is_stable = {v} contradicts stability_analysis ({} trials)", trials.len()));
            }
            !trials.is_empty()
        }
    }
}

pub fn expect_split(obs: &mut Obs, tag: &str, feed: &St) {
    let r = feed.tp_flash(None, SolverOptions::default(), None);
    match &r {
        Ok(pe) => {
            obs.class(format!("{tag}: flash Ok"));
            obs.ensure(!PhaseEquilibrium::is_trivial_solution(pe.vapor(), pe.liquid()), || format!("{tag}: flash returned one phase twice"));
        }
        Err(EosError::NoPhaseSplit) => obs.fail(format!(
            "{tag}: tp_flash of a feed strictly inside the envelope returned NoPhaseSplit (T = {}, p = {:e}, x = {:?})",
            feed.temperature,
            pressure_red(feed),
            feed.molefracs.to_vec()
        )),
        Err(e) => obs.class(format!("{tag}: flash Err {} (C05's success clause)", err_name(e))),
    }
}

fn feed_state(b: &Built, p: f64, init: u8) -> Result<St, EosError> {
    let di = match init {
        1 => DensityInitialization::Liquid,
        2 => DensityInitialization::Vapor,
        _ => DensityInitialization::None,
    };
    State::new_npt(&b.eos, b.t, Pressure::from_reduced(p), &(b.x.clone() * MOL), di)
}

/// default envelope of a mixture point, or None (discard recorded)
fn usable_envelope(b: &Built, obs: &mut Obs) -> Option<(Pe2, Pe2)> {
    let (bub, dew) = envelope(b);
    let (bub, dew) = match (bub, dew) {
        (Ok(b), Ok(d)) => (b, d),
        (Err(e), _) => {
            obs.discard(format!("no bubble point: {}", err_name(&e)));
            return None;
        }
        (_, Err(e)) => {
            obs.discard(format!("no dew point: {}", err_name(&e)));
            return None;
        }
    };
    if zero_pressure_result(&[bub.vapor(), bub.liquid()]) || zero_pressure_result(&[dew.vapor(), dew.liquid()]) {
        obs.discard("envelope is the zero-pressure gas pair (C05 finding)");
        return None;
    }
    if !(vle_like(&bub) && vle_like(&dew)) {
        obs.discard("bubble / dew result is not a vapor-liquid pair");
        return None;
    }
    if !(p_of(&bub) >= p_of(&dew)) {
        obs.discard("p_bubble < p_dew");
        return None;
    }
    Some((bub, dew))
}

fn strict_kind(_mp: &MixPoint) -> bool {
    // sampled mixtures carry random k_ij up to +0.08: even hydrocarbon mixtures then show
    // liquid-liquid splits of the model; only the lattice (k_ij = 0) and pure fluids are strict
    false
}

// ---------------------------------------------------------------------------------------
// feeds with a component of exactly zero moles
// ---------------------------------------------------------------------------------------
/// (p_dew, p_bub) (reduced) at the case temperature of the mixture *without* component k, from
/// the sub-model `eos.subset(others)`: pure sub-model -> vapor pressure twice.
fn sub_envelope(b: &Built, k: usize, obs: &mut Obs) -> Option<(f64, f64)> {
    let others: Vec<usize> = (0..b.x.len()).filter(|&i| i != k).collect();
    let sub: Arc<Model> = Arc::new(b.eos.subset(&others));
    if others.len() == 1 {
        return match PhaseEquilibrium::pure(&sub, b.t, None, SolverOptions::default()) {
            Ok(v) => {
                let p = pressure_red(v.vapor());
                Some((p, p))
            }
            Err(e) => {
                obs.discard(format!("zero-mole feed: pure VLE of the remaining component: {}", err_name(&e)));
                None
            }
        };
    }
    let xs: Array1<f64> = others.iter().map(|&i| b.x[i]).collect();
    let bs = Built {
        eos: sub,
        tc: vec![],
        t: b.t,
        x: &xs / xs.sum(),
    };
    usable_envelope(&bs, obs).map(|(bub, dew)| (p_of(&dew), p_of(&bub)))
}

/// feed in the full model with exactly zero moles of component k
fn zero_feed(b: &Built, k: usize, p: f64) -> Result<St, EosError> {
    let mut x = b.x.clone();
    x[k] = 0.0;
    let x = &x / x.sum();
    State::new_npt(&b.eos, b.t, Pressure::from_reduced(p), &(x * MOL), DensityInitialization::None)
}

// ---------------------------------------------------------------------------------------
// part `mix`
// ---------------------------------------------------------------------------------------
#[derive(Serialize, Deserialize, Clone, Debug)]
pub struct MixCase {
    pub mix: MixPoint,
    /// 0 inside, 1 below the dew pressure, 2 above the bubble pressure, 3 phases of a flash,
    /// 4 phases of the bubble and dew point, 5 within 2 % of the boundary (either side; soundness only),
    /// 6 feed with exactly zero moles of component `init % n` (envelope of the remaining components)
    pub region: u8,
    /// inside / flash: position in [1.02 p_dew, 0.98 p_bub]; outside: margin in [0.02, 0.5];
    /// region 6: u < 0 below dew with margin |u|, 0 < u < 1 above bubble with margin u, u >= 2 inside at u - 2
    pub u: f64,
    pub opts: SolverOpt,
    /// root of the feed state: 0 stable, 1 liquid, 2 vapor
    pub init: u8,
    /// region 3: max_iter of the flash whose phases are analysed (default tolerance)
    #[serde(default)]
    pub flash_max_iter: Option<usize>,
}

pub fn decode_mix(g: &mut Gen) -> MixCase {
    let mix = gen_mixpoint(g, 3);
    let region = g.index(7) as u8;
    let u = match region {
        1 | 2 => g.log_range(0.02, 0.5),
        6 => match g.index(3) {
            0 => -g.log_range(0.02, 0.5),
            1 => g.log_range(0.02, 0.5),
            _ => 2.0 + g.unit(),
        },
        5 => g.log_range(1e-6, 2e-2) * if g.bool(0.5) { -1.0 } else { 1.0 },
        _ => g.unit(),
    };
    MixCase {
        mix,
        region,
        u,
        opts: gen_opt(g, 0.5, (50, 400), (1e-8, 1e-5)),
        init: g.index(3) as u8,
        flash_max_iter: if g.bool(0.5) { Some(g.int(1, 5) as usize) } else { None },
    }
}

/// region 6: zero-mole feeds. The absent component cannot take part in any phase split (its
/// tangent-plane contribution is +infinity), so the verdicts are those of the remaining mixture and
/// every trial state must have a finite, negative recomputed tpd (in particular none of the absent
/// component).
fn check_zero_feed(case: &MixCase, b: &Built, obs: &mut Obs) {
    let n = b.x.len();
    let k = case.init as usize % n;
    obs.class(format!("zero-mole feed, {} remaining component(s)", n - 1));
    let Some((pd, pb)) = sub_envelope(b, k, obs) else { return };
    let (tag, p) = if case.u < 0.0 {
        ("zero-mole feed below dew", pd * (1.0 + case.u))
    } else if case.u < 1.0 {
        ("zero-mole feed above bubble", pb * (1.0 + case.u))
    } else {
        if !(pb / pd > 1.05) {
            obs.class("zero-mole feed: no envelope wider than 5 % (pure or narrow): inside excluded");
            return;
        }
        ("zero-mole feed inside", 1.02 * pd + (case.u - 2.0).clamp(0.0, 1.0) * (0.98 * pb - 1.02 * pd))
    };
    let feed = match zero_feed(b, k, p) {
        Ok(s) => s,
        Err(e) => {
            obs.discard(format!("zero-mole feed state: {}", err_name(&e)));
            return;
        }
    };
    obs.ensure(feed.molefracs[k] == 0.0, || "harness: feed component not exactly zero".to_string());
    obs.nontrivial();
    if let Err(e) = feed.stability_analysis(case.opts.to()) {
        // coverage diagnostic: where the analysis rejects a zero-mole feed
        obs.class(format!("zero-mole feed: Err {} in {} (n = {n})", err_name(&e), case.mix.spec.source));
    }
    if case.u >= 2.0 {
        expect_unstable(obs, tag, &feed, &case.opts, false);
    } else {
        expect_stable(obs, tag, &feed, &case.opts, false, None);
    }
}

pub fn check_mix(case: &MixCase, obs: &mut Obs) {
    let Some(b) = build_point(&case.mix, obs, 1.8) else { return };
    if case.region % 7 == 6 {
        obs.class(if case.opts.is_default() { "default options" } else { "sampled options" });
        check_zero_feed(case, &b, obs);
        return;
    }
    let Some((bub, dew)) = usable_envelope(&b, obs) else { return };
    let (pb, pd) = (p_of(&bub), p_of(&dew));
    let strict = strict_kind(&case.mix);
    obs.class(if case.opts.is_default() { "default options" } else { "sampled options" });
    match case.region % 7 {
        5 => {
            // closer to the boundary than the 2 % of the quantifier: no verdict is demanded, but every
            // returned trial state must still be sound; u > 0: outside, u < 0: inside
            let at_bubble = case.init != 2;
            let p = if at_bubble { pb * (1.0 + case.u) } else { pd * (1.0 - case.u) };
            let feed = match feed_state(&b, p, 0) {
                Ok(s) => s,
                Err(e) => {
                    obs.discard(format!("feed state: {}", err_name(&e)));
                    return;
                }
            };
            let tag = if at_bubble { "near bubble" } else { "near dew" };
            let r = feed.stability_analysis(case.opts.to());
            sa_class(obs, tag, &r);
            match r {
                Ok(trials) => {
                    obs.class(format!("{tag}: margin {} 1e-4, {}", if case.u.abs() < 1e-4 { "<" } else { ">=" }, if case.u > 0.0 { "outside" } else { "inside" }));
                    check_trials(obs, tag, &feed, &trials);
                }
                Err(e) => obs.inconclusive(format!("{tag}: stability analysis Err {}", err_name(&e))),
            }
        }
        0 => {
            if !(pb / pd > 1.05) {
                obs.class("narrow envelope (p_bub/p_dew <= 1.05): excluded");
                return;
            }
            let (lo, hi) = (1.02 * pd, 0.98 * pb);
            let p = lo + case.u * (hi - lo);
            let feed = match feed_state(&b, p, case.init).or_else(|_| feed_state(&b, p, 0)) {
                Ok(s) => s,
                Err(e) => {
                    obs.discard(format!("feed state: {}", err_name(&e)));
                    return;
                }
            };
            obs.class(format!("inside, feed root {}", if feed.density.to_reduced() > 0.5 * bub.liquid().density.to_reduced() { "liquid" } else { "vapor" }));
            let near = (p / pd < 1.1) || (pb / p < 1.1);
            if near {
                obs.class("inside within 10 % of the boundary");
                obs.nontrivial();
            }
            // signature of the open finding C07/stability-analysis-misses-liquid-of-dilute-long-chain:
            // binary with segment-number ratio >= 3, the long chain at x <= 0.1, feed on its vapour
            // root, and the incipient liquid (composition of the dew-point liquid) really lowers
            // the Gibbs energy (tpd < -1e-3 recomputed from fugacity coefficients)
            let spec = &case.mix.spec;
            let ms: Vec<f64> = spec.pure.iter().map(|r| r["model_record"]["m"].as_f64().unwrap_or(1.0)).collect();
            let signature = spec.n() == 2 && !strict && {
                let heavy = if ms[0] >= ms[1] { 0 } else { 1 };
                let on_vapour = feed.density.to_reduced() < 0.5 * bub.liquid().density.to_reduced();
                let w = dew.liquid().molefracs.clone();
                let tpd = State::new_npt(&b.eos, b.t, Pressure::from_reduced(p), &(w.clone() * MOL), DensityInitialization::Liquid)
                    .ok()
                    .map(|tr| {
                        let (lf, lt) = (feed.ln_phi(), tr.ln_phi());
                        (0..2).map(|i| w[i] * (w[i].ln() + lt[i] - feed.molefracs[i].ln() - lf[i])).sum::<f64>()
                    });
                ms[heavy] / ms[1 - heavy] >= 3.0 && case.mix.x[heavy] <= 0.1 && on_vapour && tpd.map_or(false, |t| t < -1e-3)
            };
            let mut o2 = Obs::default();
            expect_unstable(&mut o2, "inside", &feed, &case.opts, strict);
            expect_split(&mut o2, "inside", &feed);
            obs.comparisons += o2.comparisons;
            for c in o2.classes {
                obs.class(c);
            }
            obs.known.extend(o2.known);
            obs.inconclusive.extend(o2.inconclusive);
            obs.discards.extend(o2.discards);
            for f in o2.fails {
                if signature && (f.contains("reported stable") || f.contains("returned NoPhaseSplit")) {
                    obs.class("signature:C07/stability-analysis-misses-liquid-of-dilute-long-chain");
                    obs.known_or_fail("C07/stability-analysis-misses-liquid-of-dilute-long-chain", f);
                } else {
                    obs.fail(f);
                }
            }
        }
        r @ (1 | 2) => {
            let p = if r == 1 { pd * (1.0 - case.u) } else { pb * (1.0 + case.u) };
            let feed = match feed_state(&b, p, 0) {
                Ok(s) => s,
                Err(e) => {
                    obs.discard(format!("feed state: {}", err_name(&e)));
                    return;
                }
            };
            let tag = if r == 1 { "below dew" } else { "above bubble" };
            if case.u < 0.1 {
                obs.class("outside within 10 % of the boundary");
                obs.nontrivial();
            }
            expect_stable(obs, tag, &feed, &case.opts, strict, None);
        }
        3 => {
            if !(pb / pd > 1.05) {
                obs.class("narrow envelope (p_bub/p_dew <= 1.05): excluded");
                return;
            }
            let p = 1.02 * pd + case.u * (0.98 * pb - 1.02 * pd);
            // a flash that returns Ok - also with a small max_iter - delivers converged phases
            let fo = SolverOpt {
                max_iter: case.flash_max_iter,
                tol: None,
            };
            if let Some(m) = case.flash_max_iter {
                obs.class(format!("flash phases, flash max_iter {m}"));
            }
            match PhaseEquilibrium::tp_flash(&b.eos, b.t, Pressure::from_reduced(p), &(b.x.clone() * MOL), None, fo.to(), None) {
                Ok(pe) => {
                    obs.nontrivial();
                    expect_stable(obs, "flash vapor", pe.vapor(), &case.opts, strict, Some(pe.liquid()));
                    expect_stable(obs, "flash liquid", pe.liquid(), &case.opts, strict, Some(pe.vapor()));
                }
                Err(e) => obs.discard(format!("flash: {}", err_name(&e))),
            }
        }
        _ => {
            obs.nontrivial();
            expect_stable(obs, "bubble point liquid", bub.liquid(), &case.opts, strict, Some(bub.vapor()));
            expect_stable(obs, "bubble point vapor", bub.vapor(), &case.opts, strict, Some(bub.liquid()));
            expect_stable(obs, "dew point liquid", dew.liquid(), &case.opts, strict, Some(dew.vapor()));
            expect_stable(obs, "dew point vapor", dew.vapor(), &case.opts, strict, Some(dew.liquid()));
        }
    }
}

// ---------------------------------------------------------------------------------------
// part `lattice`
// ---------------------------------------------------------------------------------------
#[derive(Serialize, Deserialize, Clone, Debug)]
pub struct LatticeCase {
    pub mix: MixPoint,
}

pub fn lattice_items(stride: usize) -> Vec<LatticeCase> {
    super::c05::lattice_items(stride).into_iter().map(|c| LatticeCase { mix: c.mix }).collect()
}

pub fn check_lattice(case: &LatticeCase, obs: &mut Obs) {
    let Some(b) = build_point(&case.mix, obs, 1.5) else { return };
    let Some((bub, dew)) = usable_envelope(&b, obs) else { return };
    let (pb, pd) = (p_of(&bub), p_of(&dew));
    let d = SolverOpt::default();
    // outside, 2 % margin
    for (tag, p) in [("below dew", pd * 0.98), ("above bubble", pb * 1.02)] {
        match feed_state(&b, p, 0) {
            Ok(s) => expect_stable(obs, tag, &s, &d, true, None),
            Err(e) => obs.discard(format!("feed state: {}", err_name(&e))),
        }
    }
    // 1e-4 outside: no verdict demanded (closer than the 2 % of the quantifier), trial states must be sound
    for (tag, p) in [("near dew", pd * (1.0 - 1e-4)), ("near bubble", pb * (1.0 + 1e-4))] {
        if let Ok(s) = feed_state(&b, p, 0) {
            let r = s.stability_analysis(SolverOptions::default());
            sa_class(obs, tag, &r);
            if let Ok(trials) = r {
                check_trials(obs, tag, &s, &trials);
            }
        }
    }
    // one component with exactly zero moles: the other one, pure, in the binary model 2 % above and
    // below its vapor pressure is stable and no trial state may contain the absent component
    {
        let k = if case.mix.x[0] < 0.5 { 0 } else { 1 };
        if let Some((ps, _)) = sub_envelope(&b, k, obs) {
            for (tag, p) in [("zero-mole feed below dew", ps * 0.98), ("zero-mole feed above bubble", ps * 1.02)] {
                match zero_feed(&b, k, p) {
                    Ok(s) => expect_stable(obs, tag, &s, &d, true, None),
                    Err(e) => obs.discard(format!("zero-mole feed state: {}", err_name(&e))),
                }
            }
        }
    }
    // equilibrium phases
    expect_stable(obs, "bubble point liquid", bub.liquid(), &d, true, Some(bub.vapor()));
    expect_stable(obs, "bubble point vapor", bub.vapor(), &d, true, Some(bub.liquid()));
    expect_stable(obs, "dew point liquid", dew.liquid(), &d, true, Some(dew.vapor()));
    expect_stable(obs, "dew point vapor", dew.vapor(), &d, true, Some(dew.liquid()));
    if !(pb / pd > 1.05) {
        obs.class("narrow envelope (p_bub/p_dew <= 1.05): inside excluded");
        return;
    }
    obs.nontrivial();
    let mut splits: Vec<(St, Pe2)> = vec![];
    for th in [0.0, 0.5, 1.0] {
        let p = 1.02 * pd + th * (0.98 * pb - 1.02 * pd);
        match feed_state(&b, p, 0) {
            Ok(s) => {
                expect_unstable(obs, "inside", &s, &d, true);
                expect_split(obs, "inside", &s);
                if let Ok(pe) = s.tp_flash(None, SolverOptions::default(), None) {
                    splits.push((s, pe));
                }
            }
            Err(e) => obs.discard(format!("feed state: {}", err_name(&e))),
        }
    }
    // The phase split of an unstable feed does not depend on the initial state handed to the flash: with the
    // solution from the other end of the envelope as initial state (far from the solution) the flash still
    // returns a phase split, because an attempt that does not end in a solution falls back to the start from
    // the stability analysis - the same path the call without initial state takes.
    if splits.len() >= 2 {
        let (first, last) = (&splits[0], &splits[splits.len() - 1]);
        for (tag, feed, init) in [("inside, initial state from the dew side", &last.0, &first.1), ("inside, initial state from the bubble side", &first.0, &last.1)] {
            obs.count();
            match feed.tp_flash(Some(init), SolverOptions::default(), None) {
                Ok(pe) => {
                    obs.ensure(!PhaseEquilibrium::is_trivial_solution(pe.vapor(), pe.liquid()), || format!("{tag}: flash returned one phase twice"));
                }
                Err(e) => obs.fail(format!(
                    "{tag}: tp_flash of an unstable feed that the flash without initial state splits returned {} (T = {}, p = {:e}, x = {:?})",
                    err_name(&e),
                    feed.temperature,
                    pressure_red(feed),
                    feed.molefracs.to_vec()
                )),
            }
        }
        obs.class("inside: flash with an initial state from the other end of the envelope");
    }
}

// ---------------------------------------------------------------------------------------
// part `nearcrit`: phases of flashes 2-5 % below the critical temperature of the feed
// ---------------------------------------------------------------------------------------
pub fn check_nearcrit(case: &NearCritCase, obs: &mut Obs) {
    let Some((b, pd, pb)) = build_nearcrit(case, obs) else { return };
    let p = pd + case.theta * (pb - pd);
    let fo = SolverOpt {
        max_iter: case.max_iter,
        tol: None,
    };
    let what = match case.max_iter {
        Some(m) => format!("flash max_iter {m}"),
        None => "flash default".to_string(),
    };
    match PhaseEquilibrium::tp_flash(&b.eos, b.t, Pressure::from_reduced(p), &(b.x.clone() * MOL), None, fo.to(), None) {
        Ok(pe) => {
            obs.class(format!("{what}: Ok"));
            obs.nontrivial();
            let d = SolverOpt::default();
            expect_stable(obs, "near-critical flash vapor", pe.vapor(), &d, false, Some(pe.liquid()));
            expect_stable(obs, "near-critical flash liquid", pe.liquid(), &d, false, Some(pe.vapor()));
        }
        Err(e) => obs.class(format!("{what}: Err {}", err_name(&e))),
    }
}

// ---------------------------------------------------------------------------------------
// part `pure`
// ---------------------------------------------------------------------------------------
#[derive(Serialize, Deserialize, Clone, Debug)]
pub struct PureCase {
    pub spec: ModelSpec,
    /// T / T_c
    pub t_rel: f64,
    /// grid index 0..40 between 0.2 rho_v and 1.1 rho_l
    pub k: usize,
    /// geometric (false) or linear (true) grid
    pub linear: bool,
    pub opts: SolverOpt,
}

pub fn decode_pure(g: &mut Gen) -> PureCase {
    let kind = g.pick(&[MixKind::PcSaftHc2001, MixKind::PcSaftHc, MixKind::PcSaftOther, MixKind::VrMie, MixKind::Gc]);
    let pool = pool_of(kind);
    let i = g.index(pool.recs.len());
    let mut seg = pool.seg.clone();
    if pool.family == Family::GcPcSaft {
        let (sf, bf) = g.pick(&GC_HETERO_TABLES);
        seg = Some((sf.to_string(), bf.map(|s| s.to_string())));
    }
    let spec = ModelSpec {
        family: pool.family,
        pure: vec![pool.recs[i].clone()],
        binary: vec![],
        seg,
        opts: Opts::default(),
        source: format!("{kind:?}"),
    };
    PureCase {
        spec,
        t_rel: g.range(0.5, 0.98),
        k: g.index(40),
        linear: g.bool(0.5),
        opts: gen_opt(g, 0.5, (50, 400), (1e-8, 1e-5)),
    }
}

pub fn check_pure(case: &PureCase, obs: &mut Obs) {
    let spec = &case.spec;
    obs.class(format!("source:{}", spec.source));
    let eos = match spec.build() {
        Ok(m) => m,
        Err(e) => {
            obs.discard(format!("build:{}", e.chars().take(40).collect::<String>()));
            return;
        }
    };
    let tc = pure_tc(spec, &eos, 0);
    let t = case.t_rel * tc * KELVIN;
    let vle = match PhaseEquilibrium::pure(&eos, t, None, SolverOptions::default()) {
        Ok(v) => v,
        Err(e) => {
            obs.discard(format!("pure VLE: {}", err_name(&e)));
            return;
        }
    };
    let rv = vle.vapor().density.to_reduced();
    let rl = vle.liquid().density.to_reduced();
    if !(rv < 0.9 * rl) {
        obs.discard("pure VLE phases too close");
        return;
    }
    let (lo, hi) = (0.2 * rv, 1.1 * rl);
    let f = case.k as f64 / 39.0;
    let rho = if case.linear { lo + f * (hi - lo) } else { lo * (hi / lo).powf(f) };
    let n = arr1(&[1.0]) * MOL;
    let s = match State::new_nvt(&eos, t, n.sum() / Density::from_reduced(rho), &n) {
        Ok(s) => s,
        Err(e) => {
            obs.discard(format!("state: {}", err_name(&e)));
            return;
        }
    };
    obs.class(if case.opts.is_default() { "default options" } else { "sampled options" });
    let p = pressure_red(&s);
    let dpdv = s.dp_dv(Contributions::Total).to_reduced();
    // an Err of the analysis with default options is a violation for the PC-SAFT records only
    // (SAFT-VR Mie: the vapor-like trial state of a compressed liquid fails in pressure_spinodal)
    let strict = spec.family == Family::PcSaft;
    if rho < 0.98 * rv {
        if rho > 0.9 * rv {
            obs.nontrivial();
        }
        obs.class("vapor side, outside");
        expect_stable(obs, "pure vapor", &s, &case.opts, strict, None);
    } else if rho > 1.02 * rl {
        if rho < 1.1 * rl {
            obs.nontrivial();
        }
        obs.class("liquid side, outside");
        expect_stable(obs, "pure liquid", &s, &case.opts, strict, None);
    } else if rho > 1.02 * rv && rho < 0.98 * rl {
        let region = if dpdv > 0.0 { "mechanically unstable" } else { "metastable" };
        if p > 0.0 {
            obs.class(format!("inside, {region}, p > 0"));
            if rho < 1.1 * rv || rho > 0.9 * rl {
                obs.nontrivial();
            }
            expect_unstable(obs, "pure inside", &s, &case.opts, strict);
        } else {
            // ln phi = mu_res/RT - ln Z is undefined for p <= 0: the analysis cannot form the
            // tangent-plane distance
            obs.class(format!("inside, {region}, p <= 0"));
            let r = s.stability_analysis(case.opts.to());
            sa_class(obs, "pure inside p<=0", &r);
            match r {
                Ok(trials) => {
                    check_trials(obs, "pure inside p<=0", &s, &trials);
                    obs.ensure(!trials.is_empty(), || {
                        format!("pure state between the coexisting densities with p = {p:e} <= 0 reported stable (T/Tc = {}, rho/rho_l = {:e})", case.t_rel, rho / rl)
                    });
                }
                // no fugacity coefficient exists at p <= 0: a clean rejection is not a verdict
                Err(e) => obs.inconclusive(format!("pure inside p<=0: stability analysis Err {}", err_name(&e))),
            }
        }
    } else {
        obs.class("within 2 % of the binodal: no verdict demanded");
    }
}

// ---------------------------------------------------------------------------------------
const PART_MIX: PartCfg = PartCfg {
    name: "mix",
    genome_len: 48,
    cases_quick: 8000,
    cases_thorough: 800_000,
    panic: PanicPolicy::Count,
};
const PART_PURE: PartCfg = PartCfg {
    name: "pure",
    genome_len: 24,
    cases_quick: 8000,
    cases_thorough: 800_000,
    panic: PanicPolicy::Count,
};

pub fn run(ctx: &Ctx) {
    ctx.set_rule("lattice (seed independent): hydrocarbon pairs of gross2001 with T_c ratio < 1.5 (quick: every 8th pair, thorough: all) x T/T_c,low in {0.65..0.9} x x_1 in {0.05..0.95}: feeds at p_dew 0.98 and p_bub 1.02 (stable), feeds 1e-4 outside either boundary (soundness of trial states only), one component pure in the binary model (the other with exactly zero moles) 2 % above / below its vapor pressure (stable), the four bubble/dew phases (stable), feeds at 1.02 p_dew, mid, 0.98 p_bub (unstable + flash splits; envelopes narrower than 5 % excluded and counted). nearcrit (seed independent): the near-critical feeds of C05 (66 light hydrocarbon pairs x 4 compositions x T/T_c(x) in {0.95..0.98}) flashed at the middle of the envelope with max_iter in {default,1,2,3}: the phases of every flash that returns Ok are stable. mix (sampled): mixtures/T/x of C05 (PC-SAFT hydrocarbons, other PC-SAFT records, gc-PC-SAFT, SAFT-VR Mie; 2-3 components, T_c ratio < 1.8, T/T_c,low in [0.6,0.95], x_i >= 0.02) x region {inside [1.02 p_dew, 0.98 p_bub], below dew and above bubble with margin log-uniform in [0.02,0.5], phases of a flash that returned Ok (flash max_iter default or 1-5), phases of the bubble and dew point, feeds within 2 % of the boundary (margin log-uniform 1e-6..2e-2, either side; soundness of the trial states only), feeds with exactly zero moles of one component (below dew / above bubble / inside the envelope of the remaining components computed with the sub-model)} x stability options (max_iter 50-400, tol 1e-8..1e-5, p 0.5) x feed root (stable/liquid/vapor). pure (sampled): pure records of the same pools, T/T_c in [0.5,0.98], 40-point geometric or linear density grid from 0.2 rho_v to 1.1 rho_l. Non-trivial: a returned trial state with recomputed tpd in [-1,-1e-6], or a verdict within 10 % of the phase boundary, or an equilibrium phase. Distinct by hash of the canonical case JSON.");
    ctx.assume("tangent-plane distance recomputed as sum_i w_i (ln f_i(trial) - ln f_i(feed)) with ln f_i = ln(x_i phi_i p) from ln_phi, molefracs and pressure of fresh State::new_nvt copies (C01/C02 validate ln_phi); strictly negative is demanded, no tolerance");
    ctx.assume("zero-mole feeds: the absent component has ln z_i = -inf, a trial state containing it has tpd = +inf (reported as not finite and negative); phase boundary of the remaining components from eos.subset (C09 validates subset)");
    ctx.assume("trial state temperature bitwise equal to the feed's, pressure to 1e-7 relative + 1e-10 reduced (100 x the density-iteration tolerance)");
    ctx.assume("phase boundary from default bubble_point / dew_point (C05 checks them); cases whose envelope is not a vapor-liquid pair are discarded");
    ctx.assume("a sound trial state (recomputed tpd < 0) proves an 'unstable' verdict right; a phase of a converged result reported unstable is therefore a violation iff a returned trial state is its own coexisting phase (density and composition within 1e-3), otherwise the model has a further phase split there (class 'another phase split', sampled k_ij up to +-0.08); on the lattice (gross2001 hydrocarbon pairs, k_ij = 0) and for pure fluids any 'unstable' verdict for an expected-stable state is reported");
    ctx.assume("stability_analysis returning Err counts as a violation only with default options on the lattice and for pure fluids at p > 0; elsewhere it is counted as inconclusive (pure states with p <= 0 have no fugacity coefficient: the analysis rejects them with InvalidState)");
    let parts = std::env::var("C07_PARTS").unwrap_or_else(|_| "lattice,nearcrit,mix,pure".into());
    let on = |p: &str| parts.split(',').any(|q| q == p);
    let stride = std::env::var("C07_STRIDE").ok().and_then(|s| s.parse().ok()).unwrap_or(ctx.pick(8, 1));
    if on("lattice") {
        let items = lattice_items(stride);
        ctx.extra("lattice_pairs", json!(items.len() / (LATTICE_T.len() * LATTICE_X.len())));
        ctx.run_lattice("lattice", items, PanicPolicy::Count, stride == 1, &check_lattice);
    }
    if on("nearcrit") {
        ctx.run_lattice("nearcrit", nearcrit_items(1), PanicPolicy::Count, false, &check_nearcrit);
    }
    if on("mix") {
        ctx.run_sampled(&super::c05::scaled(&PART_MIX), &decode_mix, &check_mix);
    }
    if on("pure") {
        ctx.run_sampled(&super::c05::scaled(&PART_PURE), &decode_pure, &check_pure);
    }
    let _ = (&*G2001_HC, rec_name);
    ctx.extra("worst_observed", worst_json());
}

pub fn replay(ctx: &Ctx, part: &str, case: &Value) -> bool {
    match part {
        "lattice" => ctx.replay_case::<LatticeCase>(case, &check_lattice),
        "mix" => ctx.replay_case::<MixCase>(case, &check_mix),
        "nearcrit" => ctx.replay_case::<NearCritCase>(case, &check_nearcrit),
        "pure" => ctx.replay_case::<PureCase>(case, &check_pure),
        other => {
            eprintln!("unknown part {other}");
            std::process::exit(2);
        }
    }
}
