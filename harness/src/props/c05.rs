//! C05 — mixture equilibria: isofugacity, balances, specification.
//!
//! Parts
//! * `lattice`  (success clause, PanicPolicy::Violation): all hydrocarbon pairs of gross2001 with
//!   pure-T_c ratio < 1.5 x T/T_c,low in {0.65..0.9} x x in {0.05..0.95}: bubble and dew point must
//!   be Ok, flashes at theta in {0.1,0.5,0.9} of the envelope must be Ok if p_bub/p_dew > 1.05.
//! * `points`   (soundness): bubble / dew (T- and p-specification) and flash with option pairs and
//!   initial guesses over PC-SAFT hydrocarbons, other PC-SAFT records, gc-PC-SAFT, SAFT-VR Mie.
//! * `diagram`  (soundness): `binary_vle` (T and p), `bubble_point_line`, `dew_point_line`.
//! * `hetero`   (soundness): water/alcohol and water/hydrocarbon: `heteroazeotrope` (T and p),
//!   `binary_vlle`, `PhaseDiagram::lle`, liquid-liquid `tp_flash`.
use crate::engine::{Ctx, Gen, Obs, PanicPolicy, PartCfg};
use crate::model::*;
use feos::core::{
    Contributions, DensityInitialization, EosError, PhaseDiagram, PhaseEquilibrium, ReferenceSystem,
    Residual, SolverOptions, State,
};
use ndarray::{arr1, Array1};
use quantity::*;
use rayon::prelude::*;
use serde::{Deserialize, Serialize};
use serde_json::{json, Value};
use std::collections::BTreeMap;
use std::sync::{Arc, LazyLock, Mutex};

pub type St = State<Model>;
pub type Pe2 = PhaseEquilibrium<Model, 2>;
pub type Pe3 = PhaseEquilibrium<Model, 3>;

// ---------------------------------------------------------------------------------------
// worst observed residuals (evidence only; never consulted by a verdict)
// ---------------------------------------------------------------------------------------
pub static WORST: LazyLock<Mutex<BTreeMap<String, (f64, String)>>> = LazyLock::new(|| Mutex::new(BTreeMap::new()));

thread_local! {
    static CASE_LABEL: std::cell::RefCell<String> = const { std::cell::RefCell::new(String::new()) };
}

/// label of the case being checked on this thread (attached to the worst-value statistics)
pub fn set_label(s: String) {
    CASE_LABEL.with(|l| *l.borrow_mut() = s);
}

pub fn track(key: &str, v: f64) {
    if !v.is_finite() {
        return;
    }
    let mut w = WORST.lock().unwrap();
    let e = w.entry(key.to_string()).or_insert((0.0, String::new()));
    if v > e.0 {
        *e = (v, CASE_LABEL.with(|l| l.borrow().clone()));
    }
}

pub fn worst_json() -> Value {
    let w = WORST.lock().unwrap();
    json!(w.iter().map(|(k, v)| (k.clone(), json!({"value": v.0, "case": v.1}))).collect::<serde_json::Map<_, _>>())
}

// ---------------------------------------------------------------------------------------
// record pools
// ---------------------------------------------------------------------------------------
fn elements(formula: &str) -> Vec<String> {
    let mut out = vec![];
    let cs: Vec<char> = formula.chars().collect();
    let mut i = 0;
    while i < cs.len() {
        if cs[i].is_ascii_uppercase() {
            let mut e = cs[i].to_string();
            if i + 1 < cs.len() && cs[i + 1].is_ascii_lowercase() {
                e.push(cs[i + 1]);
                i += 1;
            }
            out.push(e);
        }
        i += 1;
    }
    out
}

/// identifier formula (or, without a formula, the SMILES) contains only C and H
pub fn is_hydrocarbon(rec: &Value) -> bool {
    let id = &rec["identifier"];
    if let Some(f) = id["formula"].as_str() {
        let e = elements(f);
        return e.iter().any(|x| x == "C") && e.iter().all(|x| x == "C" || x == "H");
    }
    if let Some(s) = id["smiles"].as_str() {
        // element symbols of SMILES: upper-case letter (+ lower-case continuation such as Cl, Br)
        // or aromatic lower-case c; anything else than C/c/H is a hetero atom
        let cs: Vec<char> = s.chars().collect();
        if !cs.iter().any(|c| *c == 'C' || *c == 'c') {
            return false;
        }
        let mut i = 0;
        while i < cs.len() {
            let ch = cs[i];
            if ch.is_ascii_uppercase() {
                if ch != 'C' && ch != 'H' {
                    return false;
                }
                if ch == 'C' && i + 1 < cs.len() && (cs[i + 1] == 'l' || cs[i + 1] == 'a' || cs[i + 1] == 'u' || cs[i + 1] == 'o' || cs[i + 1] == 'd' || cs[i + 1] == 's' || cs[i + 1] == 'r') {
                    return false;
                }
            } else if ch.is_ascii_lowercase() && ch != 'c' {
                return false;
            }
            i += 1;
        }
        return true;
    }
    false
}

pub fn rec_name(rec: &Value) -> String {
    rec["identifier"]["name"].as_str().unwrap_or("?").to_string()
}

pub struct Pool {
    pub family: Family,
    pub recs: Vec<Value>,
    pub src: Vec<String>,
    /// pure critical temperatures with default options (generator-side partner selection only)
    pub tc: Vec<f64>,
    pub seg: Option<(String, Option<String>)>,
    pub names: Vec<String>,
    /// indices of records that have at least one partner with T_c ratio < 1.8
    pub firsts: Vec<usize>,
}

pub const MAX_RATIO: f64 = 1.8;

impl Pool {
    pub fn within(&self, a: usize, b: usize, max_ratio: f64) -> bool {
        let r = self.tc[a] / self.tc[b];
        a != b && self.names[a] != self.names[b] && r < max_ratio * 0.999 && 1.0 / r < max_ratio * 0.999
    }
}

fn single_spec(family: Family, rec: &Value, seg: &Option<(String, Option<String>)>, src: &str) -> ModelSpec {
    ModelSpec {
        family,
        pure: vec![rec.clone()],
        binary: vec![],
        seg: seg.clone(),
        opts: Opts::default(),
        source: src.to_string(),
    }
}

fn make_pool(family: Family, items: Vec<(String, Value)>, seg: Option<(String, Option<String>)>) -> Pool {
    let tc: Vec<f64> = items
        .par_iter()
        .map(|(src, r)| {
            let spec = single_spec(family, r, &seg, src);
            match std::panic::catch_unwind(|| spec.build().map(|m| pure_tc(&spec, &m, 0))) {
                Ok(Ok(t)) => t,
                _ => f64::NAN,
            }
        })
        .collect();
    let mut p = Pool {
        family,
        recs: vec![],
        src: vec![],
        tc: vec![],
        seg,
        names: vec![],
        firsts: vec![],
    };
    for ((src, r), t) in items.into_iter().zip(tc) {
        if t.is_finite() && t > 20.0 {
            p.names.push(rec_name(&r));
            p.recs.push(r);
            p.src.push(src);
            p.tc.push(t);
        }
    }
    let n = p.recs.len();
    p.firsts = (0..n).filter(|&a| (0..n).any(|b| p.within(a, b, MAX_RATIO))).collect();
    p
}

/// hydrocarbons of gross2001 (the success domain), file order
pub static G2001_HC: LazyLock<Pool> = LazyLock::new(|| {
    let items = POOLS.pcsaft[0]
        .1
        .iter()
        .filter(|r| is_hydrocarbon(r))
        .map(|r| ("gross2001.json".to_string(), r.clone()))
        .collect();
    make_pool(Family::PcSaft, items, None)
});

/// all shipped PC-SAFT hydrocarbon records (gross2001 first)
pub static PC_HC: LazyLock<Pool> = LazyLock::new(|| {
    let mut items = vec![];
    for (f, recs) in POOLS.pcsaft.iter() {
        for r in recs.iter().filter(|r| is_hydrocarbon(r)) {
            items.push((f.to_string(), r.clone()));
        }
    }
    make_pool(Family::PcSaft, items, None)
});

/// other shipped PC-SAFT records (polar / associating / non-hydrocarbon) of the small files
pub static PC_OTHER: LazyLock<Pool> = LazyLock::new(|| {
    let mut items = vec![];
    for (f, recs) in POOLS.pcsaft.iter() {
        if *f == "esper2023.json" || *f == "loetgeringlin2018.json" {
            continue;
        }
        for r in recs.iter().filter(|r| !is_hydrocarbon(r)) {
            items.push((f.to_string(), r.clone()));
        }
    }
    make_pool(Family::PcSaft, items, None)
});

pub static VRMIE: LazyLock<Pool> = LazyLock::new(|| {
    let items = POOLS.vrmie.iter().map(|r| ("lafitte2013.json".to_string(), r.clone())).collect();
    make_pool(Family::SaftVRMie, items, None)
});

pub static GC: LazyLock<Pool> = LazyLock::new(|| {
    let items = POOLS
        .gc_substances
        .iter()
        .map(|r| ("gc_substances.json".to_string(), r.clone()))
        .collect();
    make_pool(Family::GcPcSaft, items, Some(("sauer2014_hetero.json".to_string(), None)))
});

#[derive(Serialize, Deserialize, Clone, Copy, Debug, PartialEq, Eq)]
pub enum MixKind {
    PcSaftHc,
    PcSaftHc2001,
    PcSaftOther,
    Gc,
    VrMie,
}

pub fn pool_of(kind: MixKind) -> &'static Pool {
    match kind {
        MixKind::PcSaftHc => &PC_HC,
        MixKind::PcSaftHc2001 => &G2001_HC,
        MixKind::PcSaftOther => &PC_OTHER,
        MixKind::Gc => &GC,
        MixKind::VrMie => &VRMIE,
    }
}

/// Mixture of `n` records of one pool whose (default-option) critical temperatures are within
/// `max_ratio` of each other — by construction, no discards. k_ij in +-0.08 with probability 0.6
/// (shipped binary record where one exists).
pub fn gen_mix(g: &mut Gen, kind: MixKind, n: usize, max_ratio: f64) -> ModelSpec {
    let pool = pool_of(kind);
    // first record: among those that have at least one admissible partner
    let mut idx: Vec<usize> = vec![pool.firsts[g.index(pool.firsts.len())]];
    while idx.len() < n {
        let cand: Vec<usize> = (0..pool.recs.len())
            .filter(|&k| idx.iter().all(|&i| pool.within(k, i, max_ratio.min(MAX_RATIO))))
            .collect();
        if cand.is_empty() {
            break;
        }
        idx.push(cand[g.index(cand.len())]);
    }
    let pure: Vec<Value> = idx.iter().map(|&i| pool.recs[i].clone()).collect();
    let mut binary = vec![];
    let mut seg = pool.seg.clone();
    match pool.family {
        Family::GcPcSaft => {
            let (sf, bf) = g.pick(&GC_HETERO_TABLES);
            seg = Some((sf.to_string(), bf.map(|s| s.to_string())));
        }
        _ => {
            for i in 0..pure.len() {
                for j in i + 1..pure.len() {
                    if pool.family == Family::PcSaft {
                        if let Some(b) = shipped_binary(&POOLS.pcsaft_binary, &pure[i], &pure[j]) {
                            binary.push((i, j, b));
                            continue;
                        }
                    }
                    if g.bool(0.6) {
                        binary.push((i, j, json!({"k_ij": g.range(-0.08, 0.08)})));
                    }
                }
            }
        }
    }
    ModelSpec {
        family: pool.family,
        pure,
        binary,
        seg,
        opts: Opts::default(),
        source: format!("{kind:?}"),
    }
}

pub fn gen_kind(g: &mut Gen) -> MixKind {
    // gene 0 => PC-SAFT hydrocarbons
    g.pick(&[
        MixKind::PcSaftHc,
        MixKind::PcSaftHc,
        MixKind::PcSaftHc2001,
        MixKind::Gc,
        MixKind::VrMie,
        MixKind::PcSaftOther,
    ])
}

// ---------------------------------------------------------------------------------------
// serialisable solver options
// ---------------------------------------------------------------------------------------
#[derive(Serialize, Deserialize, Clone, Copy, Debug, PartialEq, Default)]
pub struct SolverOpt {
    pub max_iter: Option<usize>,
    pub tol: Option<f64>,
}

impl SolverOpt {
    pub fn to(&self) -> SolverOptions {
        let mut o = SolverOptions::default();
        o.max_iter = self.max_iter;
        o.tol = self.tol;
        o
    }
    pub fn is_default(&self) -> bool {
        self.max_iter.is_none() && self.tol.is_none()
    }
}

pub fn gen_opt(g: &mut Gen, p: f64, it: (i64, i64), tol: (f64, f64)) -> SolverOpt {
    if !g.bool(p) {
        return SolverOpt::default();
    }
    SolverOpt {
        max_iter: if g.bool(0.7) { Some(g.int(it.0, it.1) as usize) } else { None },
        tol: if g.bool(0.7) { Some(g.log_range(tol.0, tol.1)) } else { None },
    }
}

// ---------------------------------------------------------------------------------------
// mixture point: model + T/T_c,low + composition
// ---------------------------------------------------------------------------------------
#[derive(Serialize, Deserialize, Clone, Debug)]
pub struct MixPoint {
    pub spec: ModelSpec,
    /// T / (lowest pure critical temperature)
    pub t_rel: f64,
    /// specified composition (feed / liquid for bubble / vapor for dew)
    pub x: Vec<f64>,
}

pub struct Built {
    pub eos: Arc<Model>,
    pub tc: Vec<f64>,
    pub t: Temperature,
    pub x: Array1<f64>,
}

pub fn err_name(e: &EosError) -> String {
    match e {
        EosError::Error(_) => "Error".into(),
        EosError::NotConverged(s) => format!("NotConverged({s})"),
        EosError::IterationFailed(s) => format!("IterationFailed({s})"),
        EosError::TrivialSolution => "TrivialSolution".into(),
        EosError::IncompatibleComponents(..) => "IncompatibleComponents".into(),
        EosError::InvalidState(a, b, _) => format!("InvalidState({a},{b})"),
        EosError::UndeterminedState(_) => "UndeterminedState".into(),
        EosError::SuperCritical => "SuperCritical".into(),
        EosError::NoPhaseSplit => "NoPhaseSplit".into(),
        EosError::WrongUnits(..) => "WrongUnits".into(),
        EosError::ParameterError(_) => "ParameterError".into(),
        EosError::LinAlgError(_) => "LinAlgError".into(),
        _ => "other".into(),
    }
}

/// Build the model and the temperature of a mixture point; `max_ratio`: admissible T_c ratio.
pub fn build_point(mp: &MixPoint, obs: &mut Obs, max_ratio: f64) -> Option<Built> {
    let spec = &mp.spec;
    set_label(format!(
        "{} {:?} k_ij {:?} T/Tc_low {} x {:?}",
        spec.source,
        spec.pure.iter().map(rec_name).collect::<Vec<_>>(),
        spec.binary.iter().map(|b| b.2["k_ij"].as_f64().unwrap_or(0.0)).collect::<Vec<_>>(),
        mp.t_rel,
        mp.x
    ));
    obs.class(format!("source:{}", spec.source));
    obs.class(format!("n={}", spec.n()));
    let eos = match spec.build() {
        Ok(m) => m,
        Err(e) => {
            obs.discard(format!("build:{}", e.chars().take(40).collect::<String>()));
            return None;
        }
    };
    let tc: Vec<f64> = (0..spec.n()).map(|i| pure_tc(spec, &eos, i)).collect();
    let lo = tc.iter().cloned().fold(f64::INFINITY, f64::min);
    let hi = tc.iter().cloned().fold(0.0, f64::max);
    if !(hi / lo < max_ratio) {
        obs.discard("tc-ratio out of range");
        return None;
    }
    obs.class(if hi / lo < 1.2 {
        "tc-ratio<1.2"
    } else if hi / lo < 1.5 {
        "tc-ratio 1.2-1.5"
    } else {
        "tc-ratio 1.5-1.8"
    });
    if spec.has_association() {
        obs.class("assoc");
    }
    if spec.has_polar() {
        obs.class("polar");
    }
    if !spec.binary.is_empty() {
        obs.class("k_ij");
    }
    Some(Built {
        eos,
        tc,
        t: mp.t_rel * lo * KELVIN,
        x: Array1::from_vec(mp.x.clone()),
    })
}

// ---------------------------------------------------------------------------------------
// oracle
// ---------------------------------------------------------------------------------------
/// tolerances of one solver result (reduced units)
#[derive(Clone, Copy, Debug)]
pub struct Tols {
    /// |ln f_i^a - ln f_i^b|
    pub fug: f64,
    /// pressure: |dp| <= p_rel * max|p| + p_abs
    pub p_rel: f64,
    pub p_abs: f64,
}

/// isofugacity 1e-6 = 100 x the flash tolerance (1e-8 on the norm of ln K - ln(y/x)); the Newton
/// finish of bubble/dew/heteroazeotrope is far tighter. Pressure: 1e-7 relative plus 100 x the
/// absolute tolerance of the solver that fixed the pressure (reduced units).
pub const TOL_FUG: f64 = 1e-6;
pub const TOL_P_REL: f64 = 1e-7;
/// density iteration: abstol 1e-12
pub const ATOL_P_FLASH: f64 = 1e-10;
/// bubble / dew Newton: TOL_OUTER 1e-10 on the residual norm (contains p_1 - p_2) tested *before*
/// the last step; with the ill-conditioned Jacobians of near-azeotropic / near-critical mixtures the
/// mismatch after the step was measured up to 1.5e-9 -> 1000 x TOL_OUTER
pub const ATOL_P_BUBBLE: f64 = 1e-7;
/// heteroazeotrope Newton: TOL_HETERO 1e-8
pub const ATOL_P_HETERO: f64 = 1e-6;
pub const TOL_X: f64 = 1e-12;
pub const TOL_BALANCE: f64 = 1e-12;

pub fn tols_flash(o: &SolverOpt) -> Tols {
    Tols {
        fug: TOL_FUG.max(100.0 * o.tol.unwrap_or(1e-8)),
        p_rel: TOL_P_REL,
        p_abs: ATOL_P_FLASH,
    }
}
pub fn tols_bubble(outer: &SolverOpt) -> Tols {
    let t = outer.tol.unwrap_or(1e-10);
    Tols {
        fug: TOL_FUG.max(100.0 * t),
        p_rel: TOL_P_REL,
        p_abs: ATOL_P_BUBBLE.max(1000.0 * t),
    }
}
pub fn tols_hetero(o: &SolverOpt) -> Tols {
    let t = o.tol.unwrap_or(1e-8);
    Tols {
        fug: TOL_FUG.max(100.0 * t),
        p_rel: TOL_P_REL,
        p_abs: ATOL_P_HETERO.max(100.0 * t),
    }
}

/// fresh state at the returned (T, V, N): nothing cached by the solver is reused
pub fn fresh(s: &St) -> Option<St> {
    State::new_nvt(&s.eos, s.temperature, s.volume, &s.moles).ok()
}

/// ln f_i = ln(x_i phi_i p) in reduced units from the public `ln_phi`, `molefracs`, `pressure`
/// of a state (for p <= 0, where ln_phi is undefined, mu_res/RT + ln(rho_i T), the same number).
/// Entries of absent components are NaN.
pub fn ln_fugacity(s: &St) -> Array1<f64> {
    let p = s.pressure(Contributions::Total).to_reduced();
    let x = &s.molefracs;
    if p > 0.0 {
        let lp = s.ln_phi();
        Array1::from_shape_fn(x.len(), |i| if x[i] > 0.0 { lp[i] + x[i].ln() + p.ln() } else { f64::NAN })
    } else {
        let t = s.temperature.to_reduced();
        let mu = s.residual_chemical_potential().to_reduced();
        let rho = s.partial_density.to_reduced();
        Array1::from_shape_fn(x.len(), |i| if x[i] > 0.0 { mu[i] / t + (rho[i] * t).ln() } else { f64::NAN })
    }
}

pub fn pressure_red(s: &St) -> f64 {
    s.pressure(Contributions::Total).to_reduced()
}

/// `check_phases_inner` with the signature of KF_BEYOND_MAX: a bubble/dew-type result one of whose
/// phases is denser than `Residual::max_density` of its own composition (the bound of the density
/// iteration; the Newton finish is not bounded by it) *and* that violates a condition.
pub fn check_phases(obs: &mut Obs, tag: &str, kind: Kind, phases: &[&St], tol: &Tols) -> bool {
    let beyond = kind == Kind::BubbleDew && phases.iter().any(|s| rel_density(s) > 1.0);
    // outer band of the near-trivial signature: phases that agree to 1e-2..3e-2 in density and
    // composition (the drift towards the trivial solution stopped a little earlier; seen with
    // max|dx| = 1.01e-2 and pressures 2.5e-5 apart at 3000 bar). Unlike the inner band (<= 1e-2,
    // everything masked) only a result that VIOLATES the conditions is attributed to the finding.
    let near_band = kind == Kind::BubbleDew && phases.len() == 2 && {
        let (a, b) = (phases[0], phases[1]);
        let dx = (&a.molefracs - &b.molefracs).mapv(f64::abs).fold(0.0, |m: f64, v| m.max(*v));
        let drho = (a.density.to_reduced() / b.density.to_reduced() - 1.0).abs();
        (drho > 1e-2 || dx > 1e-2) && !(drho > 3e-2 || dx > 3e-2)
    };
    if !beyond && !near_band {
        return check_phases_inner(obs, tag, kind, phases, tol);
    }
    let mut tmp = Obs::default();
    let ok = check_phases_inner(&mut tmp, tag, kind, phases, tol);
    obs.comparisons += tmp.comparisons;
    for c in tmp.classes {
        obs.class(c);
    }
    for (id, m) in tmp.known {
        obs.known_or_fail(&id, m);
    }
    if tmp.fails.is_empty() {
        if beyond {
            obs.class("phase beyond max_density, conditions hold");
        }
        ok
    } else if !beyond {
        obs.class("known signature: near-trivial two-phase result (outer band 1e-2..3e-2, conditions violated)");
        obs.known_or_fail(KF_NEAR_TRIVIAL, format!("{tag}: phases agree to 3e-2: {}", tmp.fails.join(" | ")));
        false
    } else {
        obs.class("known signature: phase beyond max_density violating the conditions");
        obs.known_or_fail(
            KF_BEYOND_MAX,
            format!("{tag}: rho/rho_max = {:?}: {}", phases.iter().map(|s| rel_density(s)).collect::<Vec<_>>(), tmp.fails.join(" | ")),
        );
        false
    }
}

/// Conditions every returned set of coexisting phases must satisfy. `tag` labels messages and
/// the worst-value statistics.
pub fn debug_on() -> bool {
    std::env::var("C05_DEBUG").is_ok()
}

#[derive(Clone, Copy, PartialEq, Eq, Debug)]
pub enum Kind {
    Flash,
    BubbleDew,
    Hetero,
}

// known-finding ids (signature predicates are the code next to each use)
pub const KF_GAS_PAIR: &str = "C05/bubble-dew-zero-pressure-gas-pair";
pub const KF_HETERO_COPIES: &str = "C05/heteroazeotrope-identical-liquids";
pub const KF_HETERO_NEAR: &str = "C05/heteroazeotrope-near-trivial-phases";
pub const KF_NEAR_TRIVIAL: &str = "C05/near-trivial-two-phase-result";
pub const KF_FLASH_RR: &str = "C05/flash-rachford-rice-lattice";
pub const KF_BEYOND_MAX: &str = "C05/bubble-dew-beyond-max-density";

pub fn rel_density(s: &St) -> f64 {
    match s.eos.max_density(Some(&s.moles)) {
        Ok(m) => (s.density / m).into_value(),
        Err(_) => f64::NAN,
    }
}

/// signature of KF_GAS_PAIR, variant 1: every phase of the result is a dilute gas
/// (rho < 1e-3 rho_max(x)); a genuine liquid has rho > 0.2 rho_max
pub fn all_dilute(phases: &[&St]) -> bool {
    phases.iter().all(|s| rel_density(s) < 1e-3)
}

/// signature of KF_GAS_PAIR, variant 2: the phases have identical compositions (max|dx| <= 1e-12,
/// i.e. K = 1) and one of them is a dilute gas (rho < 1e-3 rho_max) at a vanishing reduced pressure
/// (|p| < 1e-30, 40 orders below any dew pressure of the domain) while another one is not: the
/// iteration pressure has become 0 or NaN and `density_iteration` handed back an arbitrary state for
/// the other phase. (An azeotropic bubble point also has equal compositions, but no such phase.)
pub fn collapsed_phase(phases: &[&St]) -> bool {
    let same_x = phases
        .iter()
        .skip(1)
        .all(|s| (&s.molefracs - &phases[0].molefracs).mapv(f64::abs).fold(0.0, |m: f64, v| m.max(*v)) <= 1e-12);
    same_x && phases.iter().any(|s| rel_density(s) < 1e-3 && pressure_red(s).abs() < 1e-30) && !all_dilute(phases)
}

/// either variant of the KF_GAS_PAIR signature
pub fn zero_pressure_result(phases: &[&St]) -> bool {
    all_dilute(phases) || collapsed_phase(phases)
}

/// Conditions every returned set of coexisting phases must satisfy. `tag` labels messages and
/// the worst-value statistics. Returns false if the result is unusable for follow-up clauses
/// (a failure or a known finding was recorded).
fn check_phases_inner(obs: &mut Obs, tag: &str, kind: Kind, phases: &[&St], tol: &Tols) -> bool {
    let n0 = obs.fails.len();
    let k0 = obs.known.len();
    if debug_on() {
        for (k, s) in phases.iter().enumerate() {
            println!(
                "[{tag}] phase {k}: T={:.6} K p={:e} Pa (reduced {:e}) rho={:e} rho/rho_max={:e} x={:?} N={:e}",
                s.temperature.convert_to(KELVIN),
                s.pressure(Contributions::Total).convert_to(PASCAL),
                pressure_red(s),
                s.density.to_reduced(),
                rel_density(s),
                s.molefracs.to_vec(),
                s.total_moles.convert_to(MOL),
            );
        }
    }
    // one temperature (bitwise)
    for (k, s) in phases.iter().enumerate().skip(1) {
        obs.ensure(s.temperature == phases[0].temperature, || {
            format!("{tag}: phase {k} temperature {} differs from phase 0 {}", s.temperature, phases[0].temperature)
        });
    }
    if kind == Kind::BubbleDew && all_dilute(phases) {
        obs.class("known signature: zero-pressure gas pair");
        obs.known_or_fail(
            KF_GAS_PAIR,
            format!(
                "{tag}: returned Ok with only dilute-gas phases: p = {:e} / {:e} (reduced), rho/rho_max = {:e} / {:e}",
                pressure_red(phases[0]),
                pressure_red(phases[1]),
                rel_density(phases[0]),
                rel_density(phases[1])
            ),
        );
        return false;
    }
    if kind == Kind::BubbleDew && collapsed_phase(phases) {
        obs.class("known signature: collapsed zero-pressure phase beside a dense phase of the same composition");
        obs.known_or_fail(
            KF_GAS_PAIR,
            format!(
                "{tag}: returned Ok with identical compositions and one phase collapsed to zero pressure: p = {:e} / {:e} (reduced), rho/rho_max = {:e} / {:e}, x = {:?}",
                pressure_red(phases[0]),
                pressure_red(phases[1]),
                rel_density(phases[0]),
                rel_density(phases[1]),
                phases[0].molefracs.to_vec()
            ),
        );
        return false;
    }
    if kind == Kind::BubbleDew && phases.len() == 2 {
        let (a, b) = (phases[0], phases[1]);
        let dx = (&a.molefracs - &b.molefracs).mapv(f64::abs).fold(0.0, |m: f64, v| m.max(*v));
        let drho = (a.density.to_reduced() / b.density.to_reduced() - 1.0).abs();
        if !PhaseEquilibrium::is_trivial_solution(a, b) && !(drho > 1e-2 || dx > 1e-2) {
            // signature: bubble/dew-type result that passes the library's own 1e-5 trivial-solution
            // test but whose phases agree to better than 1e-2 in density and composition (a genuine
            // equilibrium is that close only within ~1e-4 T_c of a critical point; the drift towards
            // the trivial solution is ill-conditioned and not reproducible to the last digit: the
            // same case was seen with max|dx| = 1.1e-3 and 4.5e-5); all clauses on it are masked
            obs.count();
            obs.class("known signature: near-trivial two-phase result");
            obs.known_or_fail(
                KF_NEAR_TRIVIAL,
                format!(
                    "{tag}: phases 0,1 are copies (|drho/rho| {drho:e}, max|dx| {dx:e}, is_trivial_solution false, T {} p {:e} rho/rho_max {:e})",
                    a.temperature,
                    pressure_red(a),
                    rel_density(a)
                ),
            );
            return false;
        }
    }
    let fr: Vec<St> = match phases.iter().map(|s| fresh(s)).collect::<Option<Vec<_>>>() {
        Some(f) => f,
        None => {
            obs.fail(format!("{tag}: a returned phase cannot be rebuilt at its (T,V,N)"));
            return false;
        }
    };
    let p: Vec<f64> = fr.iter().map(pressure_red).collect();
    let lf: Vec<Array1<f64>> = fr.iter().map(ln_fugacity).collect();
    if p.iter().any(|&v| v <= 0.0) {
        obs.class("p<=0 phase");
    }
    let pmax = p.iter().fold(0.0f64, |a, v| a.max(v.abs()));
    for a in 0..phases.len() {
        for b in a + 1..phases.len() {
            // one pressure
            let dp = (p[a] - p[b]).abs();
            track(&format!("{tag}: |dp| / (1e-7 p + atol)"), dp / (tol.p_rel * pmax + tol.p_abs));
            obs.ensure(dp <= tol.p_rel * pmax + tol.p_abs, || {
                format!("{tag}: pressures of phases {a},{b} differ: {:e} vs {:e} (diff {dp:e} > {:e})", p[a], p[b], tol.p_rel * pmax + tol.p_abs)
            });
            // isofugacity
            for i in 0..lf[a].len() {
                let (u, v) = (lf[a][i], lf[b][i]);
                let (xa, xb) = (phases[a].molefracs[i], phases[b].molefracs[i]);
                if xa > 0.0 && xb > 0.0 {
                    track(&format!("{tag}: |dlnf| / tol"), (u - v).abs() / tol.fug);
                    if tol.fug == TOL_FUG {
                        track(&format!("{tag}: |dlnf| (tolerance 1e-6)"), (u - v).abs());
                    }
                    obs.close(&format!("{tag}: ln f[{i}] phases {a},{b} (x {xa:e}, {xb:e})"), u, v, 0.0, tol.fug);
                } else if xa != xb {
                    obs.fail(format!("{tag}: component {i} absent in one phase only ({xa:e} vs {xb:e})"));
                } else {
                    obs.class("absent component");
                }
            }
            // not copies
            let rho_a = phases[a].density.to_reduced();
            let rho_b = phases[b].density.to_reduced();
            let dx = (&phases[a].molefracs - &phases[b].molefracs).mapv(f64::abs).fold(0.0, |m: f64, v| m.max(*v));
            let drho = (rho_a / rho_b - 1.0).abs();
            let trivial = PhaseEquilibrium::is_trivial_solution(phases[a], phases[b]);
            let copies = trivial || !(drho > 1e-4 || dx > 1e-4);
            obs.count();
            if copies {
                let msg = format!(
                    "{tag}: phases {a},{b} are copies (|drho/rho| {drho:e}, max|dx| {dx:e}, is_trivial_solution {trivial}, T {} p {:e} rho/rho_max {:e})",
                    phases[a].temperature,
                    p[a],
                    rel_density(phases[a])
                );
                if kind == Kind::Hetero {
                    // signature: two of the three phases of a heteroazeotrope result coincide
                    if trivial {
                        // (fixed in d8e65519: heteroazeotrope now rejects trivial solutions; a plain failure)
                        obs.class("known signature: heteroazeotrope phases identical");
                        obs.known_or_fail(KF_HETERO_COPIES, msg);
                    } else {
                        // copies to 1e-4 that the library's own test (1e-5) does not call trivial
                        obs.class("known signature: heteroazeotrope phases nearly identical (1e-5..1e-4)");
                        obs.known_or_fail(KF_HETERO_NEAR, msg);
                    }
                } else {
                    obs.fail(msg);
                }
            }
        }
    }
    obs.fails.len() == n0 && obs.known.len() == k0
}

/// both phases of a two-phase result bitwise identical: the critical end point appended by the
/// diagram constructors by design (`from_states(sc.clone(), sc)`)
pub fn is_identical(pe: &Pe2) -> bool {
    pe.vapor().density == pe.liquid().density
        && pe.vapor().temperature == pe.liquid().temperature
        && pe.vapor().molefracs == pe.liquid().molefracs
}

pub fn check_composition(obs: &mut Obs, tag: &str, got: &Array1<f64>, spec: &Array1<f64>) {
    for i in 0..spec.len() {
        track(&format!("{tag}: |dx|"), (got[i] - spec[i]).abs());
        obs.close(&format!("{tag}: composition[{i}] equals the specification"), got[i], spec[i], 0.0, TOL_X);
    }
}

pub fn check_p_spec(obs: &mut Obs, tag: &str, phases: &[&St], p_spec: f64, tol: &Tols) {
    for (k, s) in phases.iter().enumerate() {
        if let Some(f) = fresh(s) {
            let p = pressure_red(&f);
            track(&format!("{tag}: |p - p_spec| / (1e-7 p + atol)"), (p - p_spec).abs() / (tol.p_rel * p_spec.abs() + tol.p_abs));
            obs.close(&format!("{tag}: pressure of phase {k} equals the specification"), p, p_spec, tol.p_rel, tol.p_abs);
        }
    }
}

pub fn check_t_spec(obs: &mut Obs, tag: &str, phases: &[&St], t: Temperature) {
    for (k, s) in phases.iter().enumerate() {
        obs.ensure(s.temperature == t, || format!("{tag}: temperature of phase {k} {} is not the specified {}", s.temperature, t));
    }
}

/// bubble (dew) point at given temperature: all clauses
pub fn check_bubble_dew_t(obs: &mut Obs, tag: &str, pe: &Pe2, bubble: bool, t: Temperature, x: &Array1<f64>, tol: &Tols) -> bool {
    let ok = check_phases(obs, tag, Kind::BubbleDew, &[pe.vapor(), pe.liquid()], tol);
    check_t_spec(obs, tag, &[pe.vapor(), pe.liquid()], t);
    let got = if bubble { &pe.liquid().molefracs } else { &pe.vapor().molefracs };
    check_composition(obs, tag, got, x);
    ok
}

pub fn check_bubble_dew_p(obs: &mut Obs, tag: &str, pe: &Pe2, bubble: bool, p: f64, x: &Array1<f64>, tol: &Tols) -> bool {
    let ok = check_phases(obs, tag, Kind::BubbleDew, &[pe.vapor(), pe.liquid()], tol);
    if ok {
        check_p_spec(obs, tag, &[pe.vapor(), pe.liquid()], p, tol);
    }
    let got = if bubble { &pe.liquid().molefracs } else { &pe.vapor().molefracs };
    check_composition(obs, tag, got, x);
    ok
}

/// a vapor-liquid pair
pub fn vle_like(pe: &Pe2) -> bool {
    pe.vapor().density.to_reduced() < 0.5 * pe.liquid().density.to_reduced()
}

/// Premise of p_bubble >= p_dew: both results are vapor-liquid pairs of *stable* phases. Models
/// with a liquid-liquid split (seen: SAFT-VR Mie R116/CO2 with k_ij = +0.05 at 190 K) have
/// metastable bubble / dew branches on which the inequality does not hold; `is_stable` (C07)
/// reporting a phase unstable with a sound trial state identifies them.
pub fn stable_vle(pe: &Pe2) -> bool {
    vle_like(pe)
        && pe.vapor().is_stable(SolverOptions::default()).unwrap_or(false)
        && pe.liquid().is_stable(SolverOptions::default()).unwrap_or(false)
}

/// flash: all clauses; returns (beta, max |K-1| ... min) for the non-trivial rule
pub fn check_flash(obs: &mut Obs, tag: &str, pe: &Pe2, t: Temperature, p: f64, feed: &Array1<f64>, tol: &Tols) -> (f64, f64) {
    check_phases(obs, tag, Kind::Flash, &[pe.vapor(), pe.liquid()], tol);
    check_t_spec(obs, tag, &[pe.vapor(), pe.liquid()], t);
    check_p_spec(obs, tag, &[pe.vapor(), pe.liquid()], p, tol);
    let v = pe.vapor().moles.to_reduced();
    let l = pe.liquid().moles.to_reduced();
    for i in 0..feed.len() {
        track(&format!("{tag}: balance rel"), ((v[i] + l[i]) / feed[i] - 1.0).abs());
        obs.close(&format!("{tag}: v+l = feed [{i}]"), v[i] + l[i], feed[i], TOL_BALANCE, 0.0);
    }
    let beta = v.sum() / (v.sum() + l.sum());
    let k = &pe.vapor().molefracs / &pe.liquid().molefracs;
    let kdev = k.iter().fold(f64::INFINITY, |m: f64, ki| m.min((ki - 1.0).abs()));
    (beta, kdev)
}

fn default2() -> (SolverOptions, SolverOptions) {
    (SolverOptions::default(), SolverOptions::default())
}

pub fn envelope(b: &Built) -> (Result<Pe2, EosError>, Result<Pe2, EosError>) {
    (
        PhaseEquilibrium::bubble_point(&b.eos, b.t, &b.x, None, None, default2()),
        PhaseEquilibrium::dew_point(&b.eos, b.t, &b.x, None, None, default2()),
    )
}

/// pressure of a two-phase result (vapor phase, reduced)
pub fn p_of(pe: &Pe2) -> f64 {
    pressure_red(pe.vapor())
}

// ---------------------------------------------------------------------------------------
// part `lattice`: success clause
// ---------------------------------------------------------------------------------------
#[derive(Serialize, Deserialize, Clone, Debug)]
pub struct LatticeCase {
    pub mix: MixPoint,
}

pub const THETAS: [f64; 3] = [0.1, 0.5, 0.9];
/// inner options of the lattice variants (outer options default)
pub const LATTICE_INNER_A: SolverOpt = SolverOpt { max_iter: Some(2), tol: Some(1e-2) };
pub const LATTICE_INNER_B: SolverOpt = SolverOpt { max_iter: None, tol: Some(1e-2) };
pub const LATTICE_T: [f64; 6] = [0.65, 0.7, 0.75, 0.8, 0.85, 0.9];
pub const LATTICE_X: [f64; 7] = [0.05, 0.2, 0.35, 0.5, 0.65, 0.8, 0.95];

pub fn lattice_items(stride: usize) -> Vec<LatticeCase> {
    let pool = &*G2001_HC;
    let mut out = vec![];
    let mut k = 0usize;
    for i in 0..pool.recs.len() {
        for j in i + 1..pool.recs.len() {
            let r = pool.tc[i] / pool.tc[j];
            if r.max(1.0 / r) >= 1.5 {
                continue;
            }
            k += 1;
            if k % stride != 0 {
                continue;
            }
            for t_rel in LATTICE_T {
                for x in LATTICE_X {
                    out.push(LatticeCase {
                        mix: MixPoint {
                            spec: ModelSpec {
                                family: Family::PcSaft,
                                pure: vec![pool.recs[i].clone(), pool.recs[j].clone()],
                                binary: vec![],
                                seg: None,
                                opts: Opts::default(),
                                source: "PcSaftHc2001".into(),
                            },
                            t_rel,
                            x: vec![x, 1.0 - x],
                        },
                    });
                }
            }
        }
    }
    out
}

/// Signature of KF_FLASH_RR (lattice points inside the stated success domain whose flash fails on
/// the pinned tree): feed with 5 % of a long n-alkane (>= C15, listed first in gross2001) in a much
/// more volatile partner (p_bub/p_dew > 10), flash at the middle of the envelope (theta = 0.5),
/// error variant IterationFailed(rachford_rice). Every hit is listed by name in the class histogram.
fn known_lattice_flash(names: &[String], x: f64, theta: f64, ratio: f64, err: &str) -> bool {
    const HEAVY: [&str; 6] = ["pentadecane", "hexadecane", "heptadecane", "octadecane", "nonadecane", "eicosane"];
    HEAVY.contains(&names[0].as_str()) && (x - 0.05).abs() < 1e-9 && (theta - 0.5).abs() < 1e-9 && ratio > 10.0 && err == "IterationFailed(rachford_rice)"
}

pub fn check_lattice(case: &LatticeCase, obs: &mut Obs) {
    let Some(b) = build_point(&case.mix, obs, 1.5) else { return };
    let names: Vec<String> = case.mix.spec.pure.iter().map(rec_name).collect();
    let here = format!("{}/{} T/Tc_low={} x={}", names[0], names[1], case.mix.t_rel, case.mix.x[0]);
    let (bub, dew) = envelope(&b);
    let tol_b = tols_bubble(&SolverOpt::default());
    let mut usable = true;
    match &bub {
        Ok(pe) => usable &= check_bubble_dew_t(obs, "bubble(T) default", pe, true, b.t, &b.x, &tol_b),
        Err(e) => obs.fail(format!("success clause: bubble point not found ({}) for {here}", err_name(e))),
    }
    match &dew {
        Ok(pe) => usable &= check_bubble_dew_t(obs, "dew(T) default", pe, false, b.t, &b.x, &tol_b),
        Err(e) => obs.fail(format!("success clause: dew point not found ({}) for {here}", err_name(e))),
    }
    let (Ok(bub), Ok(dew)) = (bub, dew) else { return };
    if !usable {
        return;
    }
    // the inner options only steer the inner loop: with a loose / short inner loop and the default
    // outer loop the points are still found and meet the default (outer) tolerances
    for (inner, what) in [(LATTICE_INNER_A, "inner max_iter 2, tol 1e-2"), (LATTICE_INNER_B, "inner tol 1e-2")] {
        let o2 = (inner.to(), SolverOptions::default());
        match PhaseEquilibrium::bubble_point(&b.eos, b.t, &b.x, None, None, o2) {
            Ok(pe) => {
                check_bubble_dew_t(obs, "bubble(T) loose inner", &pe, true, b.t, &b.x, &tol_b);
            }
            Err(e) => obs.fail(format!("success clause: bubble point not found with {what} and default outer options ({}) for {here}", err_name(&e))),
        }
        match PhaseEquilibrium::dew_point(&b.eos, b.t, &b.x, None, None, o2) {
            Ok(pe) => {
                check_bubble_dew_t(obs, "dew(T) loose inner", &pe, false, b.t, &b.x, &tol_b);
            }
            Err(e) => obs.fail(format!("success clause: dew point not found with {what} and default outer options ({}) for {here}", err_name(&e))),
        }
    }
    let (pb, pd) = (p_of(&bub), p_of(&dew));
    if stable_vle(&bub) && stable_vle(&dew) {
        obs.ensure(pb >= pd - 1e-7 * pb.abs(), || format!("p_bubble {pb:e} < p_dew {pd:e} for {here}"));
        obs.class("p_bub >= p_dew asserted");
    } else {
        obs.class("not a stable vapor-liquid pair: p_bub >= p_dew not asserted");
    }
    if !(pb / pd > 1.05) {
        obs.class("narrow envelope (p_bub/p_dew <= 1.05): flash excluded");
        return;
    }
    obs.class("flash domain");
    let tol_f = tols_flash(&SolverOpt::default());
    let feed = b.x.clone();
    let mut nontrivial = false;
    let mut solved: Vec<(f64, PhaseEquilibrium<Model, 2>)> = vec![];
    for th in THETAS {
        let p = pd + th * (pb - pd);
        match PhaseEquilibrium::tp_flash(&b.eos, b.t, Pressure::from_reduced(p), &(feed.clone() * MOL), None, SolverOptions::default(), None) {
            Ok(pe) => {
                solved.push((th, pe.clone()));
                let fm = (feed.clone() * MOL).to_reduced();
                let (beta, kdev) = check_flash(obs, "flash default", &pe, b.t, p, &fm, &tol_f);
                if beta > 0.02 && beta < 0.98 && kdev > 0.05 {
                    nontrivial = true;
                }
                // initial state solved at another temperature (T +- 2 %, same feed and pressure):
                // the result must sit at the specified T
                if th == 0.5 {
                    let dt = if case.mix.x[0] < 0.5 { 0.02 } else { -0.02 };
                    let pq = Pressure::from_reduced(p);
                    let fq = feed.clone() * MOL;
                    match PhaseEquilibrium::tp_flash(&b.eos, b.t * (1.0 + dt), pq, &fq, None, SolverOptions::default(), None) {
                        Ok(init) => {
                            obs.class("flash with an initial state of another temperature");
                            match PhaseEquilibrium::tp_flash(&b.eos, b.t, pq, &fq, Some(&init), SolverOptions::default(), None) {
                                Ok(pe2) => {
                                    check_flash(obs, "flash init other T", &pe2, b.t, p, &fm, &tol_f);
                                }
                                Err(e) => obs.fail(format!(
                                    "success clause: flash with an initial state solved at T (1 {dt:+}) failed ({}) where the flash without initial state succeeds, for {here}",
                                    err_name(&e)
                                )),
                            }
                        }
                        Err(_) => obs.class("no two-phase initial state at the other temperature"),
                    }
                }
            }
            Err(e) => {
                let msg = format!("success clause: flash failed ({}) at theta={th} p_bub/p_dew={:.4} for {here}", err_name(&e), pb / pd);
                obs.class(format!("lattice flash failure: {}/{} T/Tc_low={} x={} theta={th} {}", names[0], names[1], case.mix.t_rel, case.mix.x[0], err_name(&e)));
                if known_lattice_flash(&names, case.mix.x[0], th, pb / pd, &err_name(&e)) {
                    obs.class("known signature: lattice flash failure");
                    obs.known_or_fail(KF_FLASH_RR, msg);
                } else {
                    obs.fail(msg);
                }
            }
        }
    }
    // initial states from the other end of the envelope (same T and feed, other pressure): the guided flash
    // must succeed wherever the unguided one does (the library restarts from the stability analysis when the
    // attempt from the initial state does not end in a solution) and meet the same conditions
    for (th_t, th_i) in [(0.9, 0.1), (0.1, 0.9)] {
        let (Some(target), Some(init)) = (solved.iter().find(|s| s.0 == th_t), solved.iter().find(|s| s.0 == th_i)) else { continue };
        let p = pd + target.0 * (pb - pd);
        let fq = feed.clone() * MOL;
        obs.class("flash with an initial state from the other end of the envelope");
        match PhaseEquilibrium::tp_flash(&b.eos, b.t, Pressure::from_reduced(p), &fq, Some(&init.1), SolverOptions::default(), None) {
            Ok(pe2) => {
                check_flash(obs, "flash init other p", &pe2, b.t, p, &fq.to_reduced(), &tol_f);
            }
            Err(e) => obs.fail(format!(
                "success clause: flash at theta={th_t} with the solution at theta={th_i} as initial state failed ({}) where the flash without initial state succeeds, for {here}",
                err_name(&e)
            )),
        }
    }
    if nontrivial {
        obs.nontrivial();
    }
}

// ---------------------------------------------------------------------------------------
// part `points`: soundness of bubble / dew / flash with options and guesses
// ---------------------------------------------------------------------------------------
#[derive(Serialize, Deserialize, Clone, Debug)]
pub struct PointsCase {
    pub mix: MixPoint,
    pub theta: f64,
    pub inner: SolverOpt,
    pub outer: SolverOpt,
    pub flash: SolverOpt,
    /// initial pressure = default-solve pressure x factor
    pub p_factor: Option<f64>,
    /// perturbation of the incipient-phase composition guess: x2_i ~ x2_i exp(+-shift)
    pub x2_shift: Option<f64>,
    /// p-specification: initial temperature = T x t_init_rel
    pub t_init_rel: f64,
    /// 0 none, 1 perturbed phase compositions at (T,p), 2 bubble-point phases as initial state,
    /// 3 none, then the converged result as initial state of a second flash with another feed on the tie line,
    /// 4 a flash result of the same feed and pressure solved at T (1 + init_dt),
    /// 5 a flash result of the same feed and temperature solved at another pressure of the envelope (init_theta)
    pub flash_init: u8,
    /// position in the envelope of the initial state of flash_init = 5
    #[serde(default)]
    pub init_theta: f64,
    /// relative temperature offset of the initial state of flash_init = 4 (+-1..4 %)
    #[serde(default)]
    pub init_dt: f64,
    pub via_state: bool,
    /// total feed amount (mol)
    pub n_feed: f64,
}

pub fn gen_mixpoint(g: &mut Gen, max_n: usize) -> MixPoint {
    let kind = gen_kind(g);
    let n = 2 + g.index(max_n - 1);
    let spec = gen_mix(g, kind, n, 1.8);
    let t_rel = g.range(0.6, 0.95);
    let x = g.simplex(spec.n(), 0.02);
    MixPoint { spec, t_rel, x }
}

/// inner options: default (40 %), tight (20 %: max_iter 2-20, tol 1e-11..1e-7) or loose (40 %:
/// max_iter 1-5 and/or tol 1e-6..1e-2); second value: loose
pub fn gen_inner(g: &mut Gen) -> (SolverOpt, bool) {
    match g.index(5) {
        0 | 1 => (SolverOpt::default(), false),
        2 => (gen_opt(g, 1.0, (2, 20), (1e-11, 1e-7)), false),
        _ => {
            let max_iter = if g.bool(0.5) { Some(g.int(1, 5) as usize) } else { None };
            let tol = if max_iter.is_none() || g.bool(0.6) { Some(g.log_range(1e-6, 1e-2)) } else { None };
            (SolverOpt { max_iter, tol }, true)
        }
    }
}

/// flash options: default (50 %), sampled (25 %: max_iter 20-800, tol 1e-11..1e-6) or a small
/// max_iter of 1..5 outer cycles with the default tolerance (25 %): the flash either reports
/// NotConverged or returns phases that meet the default tolerance
pub fn gen_flash_opt(g: &mut Gen) -> SolverOpt {
    match g.index(4) {
        0 | 1 => SolverOpt::default(),
        2 => gen_opt(g, 1.0, (20, 800), (1e-11, 1e-6)),
        _ => SolverOpt {
            max_iter: Some(g.int(1, 5) as usize),
            tol: None,
        },
    }
}

pub fn decode_points(g: &mut Gen) -> PointsCase {
    let mix = gen_mixpoint(g, 3);
    let (inner, loose) = gen_inner(g);
    // a loose inner loop is mostly combined with the default outer loop: the result must still
    // meet the outer tolerance
    let outer = gen_opt(g, 0.4, (30, 800), (1e-12, 1e-8));
    let outer = if loose && g.bool(0.7) { SolverOpt::default() } else { outer };
    PointsCase {
        mix,
        theta: g.range(0.02, 0.98),
        inner,
        outer,
        flash: gen_flash_opt(g),
        p_factor: if g.bool(0.5) { Some(g.log_range(1.0 / 3.0, 3.0)) } else { None },
        x2_shift: if g.bool(0.5) { Some(g.range(-1.0, 1.0)) } else { None },
        t_init_rel: g.range(0.95, 1.05),
        flash_init: g.index(5) as u8,
        via_state: g.bool(0.3),
        n_feed: g.log_range(1e-2, 1e2),
        init_dt: g.range(0.01, 0.04) * if g.bool(0.5) { -1.0 } else { 1.0 },
        init_theta: 0.0,
    }
    .with_cross_envelope_init(g)
}

impl PointsCase {
    /// a quarter of the cases: the initial state of the flash is the flash result at another pressure of the
    /// same envelope, preferably from the opposite end (genes appended at the end of the genome)
    fn with_cross_envelope_init(mut self, g: &mut Gen) -> Self {
        if g.bool(0.25) {
            self.flash_init = 5;
            self.init_theta = if g.bool(0.6) { (1.0 - self.theta).clamp(0.02, 0.98) } else { g.range(0.02, 0.98) };
            if g.bool(0.7) {
                self.flash = SolverOpt::default();
            }
        }
        self
    }
}

fn perturb_x(x: &Array1<f64>, shift: f64) -> Array1<f64> {
    let y = Array1::from_shape_fn(x.len(), |i| x[i] * (if i % 2 == 0 { shift } else { -shift }).exp());
    &y / y.sum()
}

fn class_result<T>(obs: &mut Obs, what: &str, r: &Result<T, EosError>) {
    match r {
        Ok(_) => obs.class(format!("{what}:Ok")),
        Err(e) => obs.class(format!("{what}:Err {}", err_name(e))),
    }
}

pub fn check_points(case: &PointsCase, obs: &mut Obs) {
    let Some(b) = build_point(&case.mix, obs, 1.8) else { return };
    let opts2 = (case.inner.to(), case.outer.to());
    let variant_opts = !case.inner.is_default() || !case.outer.is_default();
    let tol_b0 = tols_bubble(&SolverOpt::default());
    // the inner options only steer the inner loop: the result answers to the outer tolerance alone
    let tol_b1 = tols_bubble(&case.outer);
    let loose_inner = case.inner.tol.map(|t| t >= 1e-6).unwrap_or(false) || case.inner.max_iter.map(|m| m <= 5).unwrap_or(false);
    if loose_inner {
        obs.class(if case.outer.is_default() { "loose inner options, default outer" } else { "loose inner options, sampled outer" });
    }
    // default solves
    let (bub0, dew0) = envelope(&b);
    class_result(obs, "bubble(T) default", &bub0);
    class_result(obs, "dew(T) default", &dew0);
    let mut compared = 0;
    let mut usable = [false, false];
    if let Ok(pe) = &bub0 {
        usable[0] = check_bubble_dew_t(obs, "bubble(T) default", pe, true, b.t, &b.x, &tol_b0);
        compared += 1;
    }
    if let Ok(pe) = &dew0 {
        usable[1] = check_bubble_dew_t(obs, "dew(T) default", pe, false, b.t, &b.x, &tol_b0);
        compared += 1;
    }
    let mut variant = false;
    // variants with options and guesses
    for (bubble, base, ok0) in [(true, &bub0, usable[0]), (false, &dew0, usable[1])] {
        let name = if bubble { "bubble" } else { "dew" };
        let base = if ok0 { base.as_ref().ok() } else { None };
        let p_init = match (case.p_factor, base) {
            (Some(f), Some(pe)) => Some(Pressure::from_reduced(p_of(pe) * f)),
            _ => None,
        };
        let x2 = match (case.x2_shift, base) {
            (Some(s), Some(pe)) => Some(perturb_x(if bubble { &pe.vapor().molefracs } else { &pe.liquid().molefracs }, s)),
            _ => None,
        };
        if p_init.is_some() || x2.is_some() || variant_opts {
            let r = if bubble {
                PhaseEquilibrium::bubble_point(&b.eos, b.t, &b.x, p_init, x2.as_ref(), opts2)
            } else {
                PhaseEquilibrium::dew_point(&b.eos, b.t, &b.x, p_init, x2.as_ref(), opts2)
            };
            class_result(obs, &format!("{name}(T) variant"), &r);
            if loose_inner && case.outer.is_default() {
                class_result(obs, &format!("{name}(T) loose inner / default outer"), &r);
            }
            if let Ok(pe) = &r {
                check_bubble_dew_t(obs, &format!("{name}(T) variant"), pe, bubble, b.t, &b.x, &tol_b1);
                compared += 1;
                variant = true;
            }
        }
        // pressure specification: p from the T-solve, initial temperature off by up to 5 %
        if let Some(pe0) = base {
            let p = p_of(pe0);
            let t_init = b.t * case.t_init_rel;
            let r = if bubble {
                PhaseEquilibrium::bubble_point(&b.eos, Pressure::from_reduced(p), &b.x, Some(t_init), x2.as_ref(), opts2)
            } else {
                PhaseEquilibrium::dew_point(&b.eos, Pressure::from_reduced(p), &b.x, Some(t_init), x2.as_ref(), opts2)
            };
            class_result(obs, &format!("{name}(p)"), &r);
            if let Ok(pe) = &r {
                check_bubble_dew_p(obs, &format!("{name}(p)"), pe, bubble, p, &b.x, &tol_b1);
                compared += 1;
            }
        }
    }
    // bubble pressure not below dew pressure; flash inside the envelope
    let mut kdev_env = 0.0;
    if let (Ok(bub), Ok(dew), true, true) = (&bub0, &dew0, usable[0], usable[1]) {
        let (pb, pd) = (p_of(bub), p_of(dew));
        if stable_vle(bub) && stable_vle(dew) {
            obs.ensure(pb >= pd - 1e-7 * pb.abs(), || format!("p_bubble {pb:e} < p_dew {pd:e}"));
            obs.class("p_bub >= p_dew asserted");
            obs.class(if pb / pd > 1.05 { "envelope > 5 %" } else { "envelope <= 5 %" });
        } else {
            obs.class("not a stable vapor-liquid pair: p_bub >= p_dew not asserted");
        }
        let k = &bub.vapor().molefracs / &bub.liquid().molefracs;
        kdev_env = k.iter().fold(f64::INFINITY, |m: f64, ki| m.min((ki - 1.0).abs()));
        let p = pd + case.theta * (pb - pd);
        let feed = b.x.clone() * case.n_feed;
        let feed_q = feed.clone() * MOL;
        let pq = Pressure::from_reduced(p);
        let init: Option<Pe2> = match case.flash_init {
            1 => {
                let s = case.x2_shift.unwrap_or(0.3);
                let yv = perturb_x(&bub.vapor().molefracs, s);
                let xl = perturb_x(&dew.liquid().molefracs, -s);
                PhaseEquilibrium::new_npt(&b.eos, b.t, pq, &(yv * MOL), &(xl * MOL)).ok()
            }
            2 => Some(bub.clone()),
            4 => {
                // a converged flash of the same feed and pressure at another temperature
                let dt = if case.init_dt == 0.0 { 0.02 } else { case.init_dt };
                PhaseEquilibrium::tp_flash(&b.eos, b.t * (1.0 + dt), pq, &feed_q, None, SolverOptions::default(), None).ok()
            }
            5 => {
                // a converged flash of the same feed and temperature at another pressure of the envelope
                let p5 = Pressure::from_reduced(pd + case.init_theta * (pb - pd));
                PhaseEquilibrium::tp_flash(&b.eos, b.t, p5, &feed_q, None, SolverOptions::default(), None).ok()
            }
            _ => None,
        };
        if init.is_some() {
            obs.class(format!("flash init {}", case.flash_init));
        }
        let r = if case.via_state {
            State::new_npt(&b.eos, b.t, pq, &feed_q, DensityInitialization::None).and_then(|s| s.tp_flash(init.as_ref(), case.flash.to(), None))
        } else {
            PhaseEquilibrium::tp_flash(&b.eos, b.t, pq, &feed_q, init.as_ref(), case.flash.to(), None)
        };
        class_result(obs, "flash", &r);
        // With an initial state the library first iterates from it and, if that attempt does not end in a
        // solution, starts again from the stability analysis exactly as the call without initial state does:
        // a guided flash (default options) may therefore not fail where the unguided one succeeds.
        if let (Some(_), Err(e), true) = (&init, &r, case.flash.is_default()) {
            if let Ok(pe0) = PhaseEquilibrium::tp_flash(&b.eos, b.t, pq, &feed_q, None, SolverOptions::default(), None) {
                let fm = feed_q.to_reduced();
                let beta0 = pe0.vapor().total_moles.to_reduced() / fm.sum();
                obs.fail(format!(
                    "flash with initial state (kind {}) fails ({}) where the same flash without initial state returns a phase split (beta = {beta0:.4}); theta = {:.3}, init_theta = {:.3}",
                    case.flash_init,
                    err_name(e),
                    case.theta,
                    case.init_theta
                ));
            }
        }
        if case.flash.max_iter.map(|m| m <= 5).unwrap_or(false) {
            class_result(obs, "flash with max_iter <= 5", &r);
        }
        let ftag = if case.flash.is_default() { "flash default" } else { "flash variant" };
        if let Ok(pe) = &r {
            let (beta, kdev) = check_flash(obs, ftag, pe, b.t, p, &feed_q.to_reduced(), &tols_flash(&case.flash));
            compared += 1;
            obs.class(if beta < 0.02 || beta > 0.98 { "beta at the edge" } else { "beta inside (0.02,0.98)" });
            if beta > 0.02 && beta < 0.98 && kdev > 0.05 {
                obs.nontrivial();
            }
            if init.is_some() || !case.flash.is_default() {
                variant = true;
            }
            // the converged result as initial state of a flash of another feed on the same tie line
            // (other amount, other vapor fraction) at the same T and p
            if case.flash_init == 3 {
                let feed2 = &pe.vapor().moles * 0.5 + &pe.liquid().moles * 2.0;
                let r2 = PhaseEquilibrium::tp_flash(&b.eos, b.t, pq, &feed2, Some(pe), case.flash.to(), None);
                class_result(obs, "flash re-fed", &r2);
                if let Ok(pe2) = &r2 {
                    check_flash(obs, "flash re-fed", pe2, b.t, p, &feed2.to_reduced(), &tols_flash(&case.flash));
                    variant = true;
                }
            }
        }
    }
    if compared >= 2 && kdev_env > 0.05 && variant {
        obs.nontrivial();
    }
}

// ---------------------------------------------------------------------------------------
// part `diagram`
// ---------------------------------------------------------------------------------------
#[derive(Serialize, Deserialize, Clone, Debug)]
pub struct DiagramCase {
    pub mix: MixPoint,
    /// 0 binary_vle(T), 1 binary_vle(p), 2 bubble_point_line, 3 dew_point_line
    pub kind: u8,
    pub npoints: usize,
    pub inner: SolverOpt,
    pub outer: SolverOpt,
}

pub fn decode_diagram(g: &mut Gen) -> DiagramCase {
    let kind = g.index(4) as u8;
    let mk = gen_kind(g);
    let n = if kind < 2 { 2 } else { 2 + g.index(2) };
    let spec = gen_mix(g, mk, n, 1.8);
    let t_rel = g.range(0.6, 0.95);
    let x = g.simplex(spec.n(), 0.02);
    DiagramCase {
        mix: MixPoint { spec, t_rel, x },
        kind,
        npoints: g.int(5, 60) as usize,
        inner: gen_opt(g, 0.3, (2, 20), (1e-11, 1e-7)),
        outer: gen_opt(g, 0.3, (30, 800), (1e-12, 1e-8)),
    }
}

pub fn check_diagram(case: &DiagramCase, obs: &mut Obs) {
    let Some(b) = build_point(&case.mix, obs, 1.8) else { return };
    if case.kind < 2 && case.mix.spec.n() != 2 {
        obs.discard("binary_vle needs two components");
        return;
    }
    let opts2 = (case.inner.to(), case.outer.to());
    let tol = tols_bubble(&case.outer);
    let kind_name = ["binary_vle(T)", "binary_vle(p)", "bubble_point_line", "dew_point_line"][case.kind as usize % 4];
    obs.class(kind_name);
    let mut p_spec = None;
    let dia = match case.kind % 4 {
        0 => PhaseDiagram::binary_vle(&b.eos, b.t, Some(case.npoints), None, opts2),
        1 => {
            // pressure of the diagram: bubble pressure of the case composition at the case temperature
            let p = match PhaseEquilibrium::bubble_point(&b.eos, b.t, &b.x, None, None, default2()) {
                Ok(pe) => p_of(&pe),
                Err(e) => {
                    obs.discard(format!("no bubble pressure for the p-diagram: {}", err_name(&e)));
                    return;
                }
            };
            p_spec = Some(p);
            PhaseDiagram::binary_vle(&b.eos, Pressure::from_reduced(p), Some(case.npoints), None, opts2)
        }
        2 => PhaseDiagram::bubble_point_line(&b.eos, &(b.x.clone() * MOL), b.t, case.npoints, None, opts2),
        _ => PhaseDiagram::dew_point_line(&b.eos, &(b.x.clone() * MOL), b.t, case.npoints, None, opts2),
    };
    class_result(obs, kind_name, &dia);
    let Ok(dia) = dia else { return };
    let ns = dia.states.len();
    obs.class(if ns == case.npoints { "all points found" } else { "points missing" });
    let mut regular = 0;
    let mut kdev_max = 0.0f64;
    for (k, pe) in dia.states.iter().enumerate() {
        if (k == 0 || k + 1 == ns) && is_identical(pe) {
            obs.class("critical end point (identical phases by construction)");
            continue;
        }
        // the lines run up to the mixture critical point; beyond 0.95 T_c,low (the temperature range
        // of the property's quantifier) the Newton Jacobians degenerate: 100 x looser, own statistics
        let lo = b.tc.iter().cloned().fold(f64::INFINITY, f64::min);
        let beyond = pe.vapor().temperature.convert_to(KELVIN) > 0.95 * lo;
        let tag_s = if beyond { format!("{kind_name} (T > 0.95 Tc_low)") } else { kind_name.to_string() };
        let tag = tag_s.as_str();
        let tol = if beyond { Tols { fug: 100.0 * tol.fug, p_rel: 100.0 * tol.p_rel, p_abs: 100.0 * tol.p_abs } } else { tol };
        if beyond {
            obs.class("diagram state beyond 0.95 Tc_low");
        }
        let ok = check_phases(obs, tag, Kind::BubbleDew, &[pe.vapor(), pe.liquid()], &tol);
        match case.kind % 4 {
            0 => check_t_spec(obs, tag, &[pe.vapor(), pe.liquid()], b.t),
            1 => {
                if ok {
                    check_p_spec(obs, tag, &[pe.vapor(), pe.liquid()], p_spec.unwrap(), &tol)
                }
            }
            2 => check_composition(obs, tag, &pe.liquid().molefracs, &b.x),
            _ => check_composition(obs, tag, &pe.vapor().molefracs, &b.x),
        }
        regular += 1;
        if pe.liquid().molefracs.iter().all(|&x| x > 0.0) {
            let kf = &pe.vapor().molefracs / &pe.liquid().molefracs;
            kdev_max = kdev_max.max(kf.iter().fold(f64::INFINITY, |m: f64, ki| m.min((ki - 1.0).abs())));
        }
    }
    if regular >= 3 && kdev_max > 0.05 {
        obs.nontrivial();
    }
}

// ---------------------------------------------------------------------------------------
// part `hetero`: water + alcohol / hydrocarbon
// ---------------------------------------------------------------------------------------
#[derive(Serialize, Deserialize, Clone, Debug)]
pub struct HeteroCase {
    pub spec: ModelSpec,
    /// K
    pub t: f64,
    /// initial water mole fractions of the two liquids
    pub x_init: (f64, f64),
    /// 0 heteroazeotrope(T), 1 heteroazeotrope(p), 2 binary_vlle(T) incl. lle, 3 PhaseDiagram::lle, 4 LLE flash
    pub kind: u8,
    pub opts: SolverOpt,
    pub inner: SolverOpt,
    pub outer: SolverOpt,
    pub t_init_rel: f64,
    pub npoints: usize,
    /// pressure factor above the three-phase pressure for lle / LLE flash
    pub p_up: f64,
}

const ORGANICS_2002: [&str; 11] = [
    "1-butanol", "1-pentanol", "1-hexanol", "1-heptanol", "1-octanol", "1-nonanol", "methanol", "ethanol", "1-propanol", "2-propanol",
    "2-methyl-2-butanol",
];
const ORGANICS_2001: [&str; 10] = [
    "hexane", "pentane", "heptane", "octane", "decane", "cyclohexane", "benzene", "toluene", "1-hexene", "ethylbenzene",
];

fn find_rec(file_idx: usize, name: &str) -> Option<Value> {
    POOLS.pcsaft[file_idx].1.iter().find(|r| rec_name(r) == name).cloned()
}

pub fn decode_hetero(g: &mut Gen) -> HeteroCase {
    let water = find_rec(1, "water").expect("gross2002 water");
    let alcohol = g.bool(0.5);
    let org = if alcohol {
        find_rec(1, g.pick(&ORGANICS_2002)).expect("gross2002 record")
    } else {
        find_rec(0, g.pick(&ORGANICS_2001)).expect("gross2001 record")
    };
    let mut binary = vec![];
    if let Some(bv) = shipped_binary(&POOLS.pcsaft_binary, &water, &org) {
        binary.push((0, 1, bv));
    } else if g.bool(0.6) {
        binary.push((0, 1, json!({"k_ij": g.range(-0.08, 0.08)})));
    }
    let spec = ModelSpec {
        family: Family::PcSaft,
        pure: vec![water, org],
        binary,
        seg: None,
        opts: Opts::default(),
        source: (if alcohol { "water+alcohol" } else { "water+hydrocarbon" }).to_string(),
    };
    let t = g.range(290.0, 420.0);
    let xa = 1.0 - g.log_range(1e-5, 0.1);
    let xb = g.log_range(1e-4, 0.6);
    let x_init = if g.bool(0.3) { (xb, xa) } else { (xa, xb) };
    HeteroCase {
        spec,
        t,
        x_init,
        kind: g.index(5) as u8,
        opts: gen_opt(g, 0.3, (10, 200), (1e-10, 1e-7)),
        inner: gen_opt(g, 0.2, (2, 20), (1e-11, 1e-7)),
        outer: gen_opt(g, 0.2, (30, 800), (1e-12, 1e-8)),
        t_init_rel: g.range(0.97, 1.03),
        npoints: g.int(5, 30) as usize,
        p_up: g.log_range(1.1, 20.0),
    }
}

fn check_vlle(obs: &mut Obs, tag: &str, v: &Pe3, tol: &Tols) -> bool {
    check_phases(obs, tag, Kind::Hetero, &[v.vapor(), v.liquid1(), v.liquid2()], tol)
}

pub fn check_hetero(case: &HeteroCase, obs: &mut Obs) {
    let spec = &case.spec;
    set_label(format!("water+{} k_ij {:?} T {} x_init {:?} kind {}", rec_name(&spec.pure[1]), spec.binary.first().map(|b| b.2.clone()), case.t, case.x_init, case.kind));
    obs.class(format!("source:{}", spec.source));
    obs.class(format!("organic:{}", rec_name(&spec.pure[1])));
    if !spec.binary.is_empty() {
        obs.class("k_ij");
    }
    let eos = match spec.build() {
        Ok(m) => m,
        Err(e) => {
            obs.discard(format!("build:{}", e.chars().take(40).collect::<String>()));
            return;
        }
    };
    let t = case.t * KELVIN;
    let opts2 = (case.inner.to(), case.outer.to());
    let tol = tols_hetero(&case.opts);
    let kind_name = ["heteroazeotrope(T)", "heteroazeotrope(p)", "binary_vlle(T)", "PhaseDiagram::lle", "LLE flash"][case.kind as usize % 5];
    obs.class(kind_name);
    // three-phase point at T (default options) as the anchor of all kinds
    let base = PhaseEquilibrium::heteroazeotrope(&eos, t, case.x_init, None, case.opts.to(), opts2);
    class_result(obs, "heteroazeotrope(T)", &base);
    let mut usable = false;
    if let Ok(v) = &base {
        usable = check_vlle(obs, "heteroazeotrope(T)", v, &tol);
        check_t_spec(obs, "heteroazeotrope(T)", &[v.vapor(), v.liquid1(), v.liquid2()], t);
        let dx = (v.liquid1().molefracs[0] - v.liquid2().molefracs[0]).abs();
        if dx > 0.05 {
            obs.nontrivial();
        }
    }
    let Ok(v0) = base else { return };
    if !usable {
        return;
    }
    let p3 = pressure_red(v0.vapor());
    let (xl1, xl2) = (v0.liquid1().molefracs[0], v0.liquid2().molefracs[0]);
    match case.kind % 5 {
        0 => {}
        1 => {
            let r = PhaseEquilibrium::heteroazeotrope(
                &eos,
                Pressure::from_reduced(p3),
                case.x_init,
                Some(t * case.t_init_rel),
                case.opts.to(),
                opts2,
            );
            class_result(obs, kind_name, &r);
            if let Ok(v) = &r {
                check_vlle(obs, kind_name, v, &tol);
                check_p_spec(obs, kind_name, &[v.vapor(), v.liquid1(), v.liquid2()], p3, &tol);
            }
        }
        2 => {
            let r = PhaseDiagram::binary_vlle(
                &eos,
                t,
                case.x_init,
                Some(Pressure::from_reduced(p3 * case.p_up)),
                None,
                Some(case.npoints),
                Some(case.npoints.min(10)),
                opts2,
            );
            match &r {
                Ok(_) => obs.class(format!("{kind_name}:Ok")),
                Err(e) => obs.class(format!("{kind_name}:Err {}", err_name(e))),
            }
            if let Ok(d) = &r {
                let tb = tols_bubble(&case.outer);
                for (name, dia) in [("binary_vlle.vle1", Some(&d.vle1)), ("binary_vlle.vle2", Some(&d.vle2)), ("binary_vlle.lle", d.lle.as_ref())] {
                    let Some(dia) = dia else { continue };
                    for pe in dia.states.iter() {
                        let tl = if name.ends_with("lle") { tols_flash(&SolverOpt::default()) } else { tb };
                        let kd = if name.ends_with("lle") { Kind::Flash } else { Kind::BubbleDew };
                        check_phases(obs, name, kd, &[pe.vapor(), pe.liquid()], &tl);
                        check_t_spec(obs, name, &[pe.vapor(), pe.liquid()], t);
                    }
                }
            }
        }
        3 | 4 => {
            let xf = 0.5 * (xl1 + xl2);
            let feed = arr1(&[xf, 1.0 - xf]) * MOL;
            let tf = tols_flash(&SolverOpt::default());
            if case.kind % 5 == 3 {
                let r = PhaseDiagram::lle(
                    &eos,
                    t,
                    &feed,
                    Pressure::from_reduced(p3 * 1.05),
                    Pressure::from_reduced(p3 * case.p_up.max(1.1)),
                    Some(case.npoints),
                );
                class_result(obs, kind_name, &r);
                if let Ok(d) = &r {
                    obs.class(if d.states.len() == case.npoints { "all points found" } else { "points missing" });
                    for pe in d.states.iter() {
                        check_phases(obs, kind_name, Kind::Flash, &[pe.vapor(), pe.liquid()], &tf);
                        check_t_spec(obs, kind_name, &[pe.vapor(), pe.liquid()], t);
                    }
                }
            } else {
                let p = p3 * case.p_up;
                let r = PhaseEquilibrium::tp_flash(&eos, t, Pressure::from_reduced(p), &feed, None, SolverOptions::default(), None);
                class_result(obs, kind_name, &r);
                if let Ok(pe) = &r {
                    check_flash(obs, kind_name, pe, t, p, &feed.to_reduced(), &tf);
                }
            }
        }
        _ => {}
    }
}

// ---------------------------------------------------------------------------------------
// part `nearcrit`: flashes 2-5 % below the critical temperature of the feed composition
// ---------------------------------------------------------------------------------------
/// light hydrocarbons of gross2001 whose binary mixtures are used near their critical points
pub const LIGHT_HC: [&str; 12] = [
    "methane", "ethane", "propane", "butane", "pentane", "hexane", "isobutane", "isopentane", "neopentane", "ethylene", "propylene", "1-butene",
];
pub const NEARCRIT_T: [f64; 4] = [0.95, 0.96, 0.97, 0.98];
pub const NEARCRIT_X: [f64; 4] = [0.2, 0.4, 0.6, 0.8];
pub const NEARCRIT_ITER: [Option<usize>; 4] = [None, Some(1), Some(2), Some(3)];

#[derive(Serialize, Deserialize, Clone, Debug)]
pub struct NearCritCase {
    pub spec: ModelSpec,
    pub x: Vec<f64>,
    /// T / T_c(x) with T_c(x) from State::critical_point of the feed composition
    pub t_rel_c: f64,
    /// position of the flash pressure between dew and bubble pressure
    pub theta: f64,
    /// max_iter of the flash (default tolerance)
    pub max_iter: Option<usize>,
}

pub fn nearcrit_items(stride: usize) -> Vec<NearCritCase> {
    let recs: Vec<Value> = LIGHT_HC.iter().filter_map(|n| find_rec(0, n)).collect();
    let mut out = vec![];
    let mut k = 0usize;
    for i in 0..recs.len() {
        for j in i + 1..recs.len() {
            k += 1;
            if k % stride != 0 {
                continue;
            }
            for x in NEARCRIT_X {
                for t_rel_c in NEARCRIT_T {
                    for max_iter in NEARCRIT_ITER {
                        out.push(NearCritCase {
                            spec: ModelSpec {
                                family: Family::PcSaft,
                                pure: vec![recs[i].clone(), recs[j].clone()],
                                binary: vec![],
                                seg: None,
                                opts: Opts::default(),
                                source: "PcSaftHc2001".into(),
                            },
                            x: vec![x, 1.0 - x],
                            t_rel_c,
                            theta: 0.5,
                            max_iter,
                        });
                    }
                }
            }
        }
    }
    out
}

/// model, temperature and (p_dew, p_bub) of a near-critical case; None: discard recorded
pub fn build_nearcrit(case: &NearCritCase, obs: &mut Obs) -> Option<(Built, f64, f64)> {
    let spec = &case.spec;
    set_label(format!("near-critical {:?} x {:?} T/Tc(x) {} max_iter {:?}", spec.pure.iter().map(rec_name).collect::<Vec<_>>(), case.x, case.t_rel_c, case.max_iter));
    obs.class(format!("T/Tc(x)={}", case.t_rel_c));
    let eos = match spec.build() {
        Ok(m) => m,
        Err(e) => {
            obs.discard(format!("build:{}", e.chars().take(40).collect::<String>()));
            return None;
        }
    };
    let x = Array1::from_vec(case.x.clone());
    let tc_mix = match State::critical_point(&eos, Some(&(x.clone() * MOL)), None, SolverOptions::default()) {
        Ok(cp) => cp.temperature.convert_to(KELVIN),
        Err(e) => {
            obs.discard(format!("mixture critical point: {}", err_name(&e)));
            return None;
        }
    };
    let tc: Vec<f64> = (0..spec.n()).map(|i| pure_tc(spec, &eos, i)).collect();
    let b = Built {
        eos,
        tc,
        t: case.t_rel_c * tc_mix * KELVIN,
        x,
    };
    let (bub, dew) = envelope(&b);
    let (bub, dew) = match (bub, dew) {
        (Ok(bu), Ok(de)) => (bu, de),
        (Err(e), _) => {
            obs.discard(format!("no bubble point: {}", err_name(&e)));
            return None;
        }
        (_, Err(e)) => {
            obs.discard(format!("no dew point: {}", err_name(&e)));
            return None;
        }
    };
    let tol_b = tols_bubble(&SolverOpt::default());
    let ok = check_bubble_dew_t(obs, "near-critical bubble(T)", &bub, true, b.t, &b.x, &tol_b) & check_bubble_dew_t(obs, "near-critical dew(T)", &dew, false, b.t, &b.x, &tol_b);
    let (pb, pd) = (p_of(&bub), p_of(&dew));
    if !ok || !(pb > pd) {
        obs.discard("no usable envelope at the near-critical temperature");
        return None;
    }
    Some((b, pd, pb))
}

pub fn check_nearcrit(case: &NearCritCase, obs: &mut Obs) {
    let Some((b, pd, pb)) = build_nearcrit(case, obs) else { return };
    let p = pd + case.theta * (pb - pd);
    let opt = SolverOpt {
        max_iter: case.max_iter,
        tol: None,
    };
    let feed = b.x.clone() * MOL;
    let r = PhaseEquilibrium::tp_flash(&b.eos, b.t, Pressure::from_reduced(p), &feed, None, opt.to(), None);
    let what = match case.max_iter {
        Some(m) => format!("near-critical flash max_iter {m}"),
        None => "near-critical flash default".to_string(),
    };
    class_result(obs, &what, &r);
    if let Ok(pe) = &r {
        // whatever max_iter: a returned result answers to the (default) flash tolerance
        let (beta, _) = check_flash(obs, &what, pe, b.t, p, &feed.to_reduced(), &tols_flash(&opt));
        if beta > 0.02 && beta < 0.98 {
            obs.nontrivial();
        }
    }
}

// ---------------------------------------------------------------------------------------
const PART_POINTS: PartCfg = PartCfg {
    name: "points",
    genome_len: 80,
    cases_quick: 6000,
    cases_thorough: 600_000,
    panic: PanicPolicy::Count,
};
const PART_DIAGRAM: PartCfg = PartCfg {
    name: "diagram",
    genome_len: 64,
    cases_quick: 400,
    cases_thorough: 40_000,
    panic: PanicPolicy::Count,
};
const PART_HETERO: PartCfg = PartCfg {
    name: "hetero",
    genome_len: 48,
    cases_quick: 1000,
    cases_thorough: 100_000,
    panic: PanicPolicy::Count,
};

/// calibration knob VERIF_SCALE=k: k x the quick case counts (not used by registered commands)
pub fn scaled(p: &PartCfg) -> PartCfg {
    let k: f64 = std::env::var("VERIF_SCALE").ok().and_then(|s| s.parse().ok()).unwrap_or(1.0);
    PartCfg {
        name: p.name,
        genome_len: p.genome_len,
        cases_quick: (p.cases_quick as f64 * k) as u32,
        cases_thorough: p.cases_thorough,
        panic: p.panic,
    }
}

pub fn run(ctx: &Ctx) {
    ctx.set_rule("lattice (seed-independent, success clause): hydrocarbon pairs of gross2001 (formula only C,H) with pure-T_c ratio < 1.5 x T/T_c,low in {0.65,..,0.9} x x_1 in {0.05,0.2,..,0.95}; each case = bubble(T,x) + dew(T,x) with default options and with two loose inner option sets (max_iter 2 / tol 1e-2; tol 1e-2) under default outer options + flashes at p = p_dew + theta (p_bub - p_dew), theta in {0.1,0.5,0.9} when p_bub/p_dew > 1.05, at theta = 0.5 also with an initial state solved at T (1 +- 2 %) (narrower envelopes excluded and counted as a class); quick tier: every 4th admissible pair, thorough: all pairs. nearcrit (seed-independent, soundness): the 66 pairs of 12 light gross2001 hydrocarbons x x_1 in {0.2,0.4,0.6,0.8} x T/T_c(x) in {0.95,..,0.98} (T_c(x) from State::critical_point of the feed) x flash max_iter in {default,1,2,3} at the middle of the envelope: slow convergence; a flash that returns Ok must meet the default tolerance. points (sampled): binary/ternary mixtures of shipped PC-SAFT hydrocarbons (all files), other PC-SAFT records of the small files, gc-PC-SAFT (gc_substances x 3 segment tables), SAFT-VR Mie (lafitte2013); partner records chosen with T_c ratio < 1.8; k_ij in +-0.08 (p 0.6) or the shipped binary record; T/T_c,low in [0.6,0.95]; composition in the simplex with x_i >= 0.02; option pairs (inner: default 40 %, tight 20 % (max_iter 2-20, tol 1e-11..1e-7), loose 40 % (max_iter 1-5 and/or tol 1e-6..1e-2, then mostly with default outer options); outer 30-800, 1e-12..1e-8; flash: default 50 %, max_iter 20-800 / tol 1e-11..1e-6 25 %, max_iter 1-5 with default tolerance 25 %), initial pressure within a factor 3, perturbed incipient composition, p-specification with initial T within 5 %, flash initial states (perturbed phases, bubble-point phases, the converged result re-fed with another feed, a flash result solved at T (1 +- 1..4 %)), State::tp_flash vs PhaseEquilibrium::tp_flash, feed amount 1e-2..1e2 mol. diagram (sampled): binary_vle at given T / at given p, bubble_point_line, dew_point_line with npoints in [5,60]. hetero (sampled): gross2002 water + 11 alcohols / 10 hydrocarbons, 290-420 K: heteroazeotrope(T), heteroazeotrope(p), binary_vlle, PhaseDiagram::lle, liquid-liquid tp_flash. Non-trivial: a flash with vapor fraction in (0.02,0.98) and all |K_i - 1| > 5 %; or >= 2 checked bubble/dew results with |K_i - 1| > 5 % of which one used a non-default option or guess; diagrams: >= 3 regular states with |K_i-1| > 5 %; hetero: liquids differing by > 0.05 in x_water. Distinct by hash of the canonical case JSON.");
    ctx.assume("every condition is recomputed from fresh states State::new_nvt(T,V,N) of the returned phases (public getters ln_phi, molefracs, pressure)");
    ctx.assume("fugacity equality is tested on ln f_i = ln(x_i phi_i p) (tolerance 1e-6 = 100 x the flash tolerance, or 100 x a looser sampled tolerance) and pressure equality separately (1e-7 relative + an absolute term in reduced units: 1e-10 flash = 100 x the density-iteration tolerance, 1e-7 bubble/dew = 1000 x TOL_OUTER, 1e-6 heteroazeotrope = 100 x TOL_HETERO; diagram states above 0.95 T_c,low, outside the temperature range of the quantifier, 100 x looser): ln(x_i phi_i) alone contains -ln p of each phase, so a pressure roundoff of a liquid at vanishing pressure would otherwise show up as a fugacity mismatch");
    ctx.assume("bubble/dew results answer to the OUTER tolerance only (inner options steer the inner loop); on the lattice loose inner options with default outer options must still succeed");
    ctx.assume("the critical end point appended by binary_vle / bubble_point_line / dew_point_line (two bitwise identical states by construction) is exempt from the 'not copies' clause");
    ctx.assume("p_bubble >= p_dew is asserted only where both results are vapor-liquid pairs (rho_v < rho_l / 2) of phases that is_stable reports stable: models with a liquid-liquid split have metastable bubble/dew branches on which the inequality is not a theorem (relies on C07); never for the water systems of the hetero part");
    ctx.assume("success clause domain as stated in DESIGN.md C05; T_c of the pure records from State::critical_point (cached), validated by C06");
    // lattice
    // calibration knobs (not used by registered commands): C05_PARTS=lattice,points,... C05_STRIDE=n
    let parts = std::env::var("C05_PARTS").unwrap_or_else(|_| "lattice,nearcrit,points,diagram,hetero".into());
    let on = |p: &str| parts.split(',').any(|q| q == p);
    let stride = std::env::var("C05_STRIDE").ok().and_then(|s| s.parse().ok()).unwrap_or(ctx.pick(4, 1));
    if on("lattice") {
        let items = lattice_items(stride);
        ctx.extra("lattice_pairs", json!(items.len() / (LATTICE_T.len() * LATTICE_X.len())));
        ctx.run_lattice("lattice", items, PanicPolicy::Violation, stride == 1, &check_lattice);
    }
    if on("nearcrit") {
        let items = nearcrit_items(ctx.pick(1, 1));
        ctx.run_lattice("nearcrit", items, PanicPolicy::Count, false, &check_nearcrit);
    }
    if on("points") {
        ctx.run_sampled(&scaled(&PART_POINTS), &decode_points, &check_points);
    }
    if on("diagram") {
        ctx.run_sampled(&scaled(&PART_DIAGRAM), &decode_diagram, &check_diagram);
    }
    if on("hetero") {
        ctx.run_sampled(&scaled(&PART_HETERO), &decode_hetero, &check_hetero);
    }
    ctx.extra("worst_observed", worst_json());
}

pub fn replay(ctx: &Ctx, part: &str, case: &Value) -> bool {
    let ok = match part {
        "lattice" => ctx.replay_case::<LatticeCase>(case, &check_lattice),
        "points" => ctx.replay_case::<PointsCase>(case, &check_points),
        "nearcrit" => ctx.replay_case::<NearCritCase>(case, &check_nearcrit),
        "diagram" => ctx.replay_case::<DiagramCase>(case, &check_diagram),
        "hetero" => ctx.replay_case::<HeteroCase>(case, &check_hetero),
        other => {
            eprintln!("unknown part {other}");
            std::process::exit(2);
        }
    };
    println!("worst: {}", worst_json());
    ok
}
